#!/bin/bash
# tools/try_seed.sh <check-id> <patch.diff> [extra ./check args]
# Applies the patch in a throw-away worktree of /repo HEAD and runs the quick check against it (never touches /repo).
set -u
id=$1; patch=$2; shift 2
name=try-$id-$$
d=$(/verif/tools/scratch.sh new $name ${SEED_BASE:-HEAD}) || exit 2
if ! git -C $d apply "$patch"; then echo "PATCH DOES NOT APPLY"; /verif/tools/scratch.sh rm $name; exit 2; fi
cd /verif
VERIF_REPO_SRC=$d/src timeout 1200 ./check $id --no-evidence "$@" 2>&1 | grep -v "^KNOWN-FINDING" | tail -3 | cut -c1-400
rc=${PIPESTATUS[0]}
/verif/tools/scratch.sh rm $name
exit $rc
