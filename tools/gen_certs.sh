#!/bin/bash
# Generates a static EC P-256 test CA + server certificate (CN=localhost, SAN localhost/127.0.0.1),
# valid from 2020-01-01 to 2120 (backdated so a skewed sandbox clock cannot invalidate it).
set -e
cd "$(dirname "$0")/.."
mkdir -p certs; cd certs
T=$(mktemp -d /var/tmp/verifca.XXXXXX)
cat > $T/ca.cnf <<EOC
[ca]
default_ca = myca
[myca]
new_certs_dir = $T
database = $T/index.txt
serial = $T/serial
default_md = sha256
policy = pol
unique_subject = no
copy_extensions = none
[pol]
commonName = supplied
[req]
distinguished_name = dn
prompt = no
[dn]
CN = x
[v3_ca]
basicConstraints = critical,CA:TRUE
keyUsage = critical,keyCertSign,cRLSign
subjectKeyIdentifier = hash
[v3_srv]
basicConstraints = CA:FALSE
subjectAltName = DNS:localhost,IP:127.0.0.1
keyUsage = digitalSignature,keyEncipherment
extendedKeyUsage = serverAuth,clientAuth
EOC
touch $T/index.txt; echo 01 > $T/serial
openssl ecparam -name prime256v1 -genkey -noout -out ca.key
openssl req -new -key ca.key -subj "/CN=verif-test-ca" -out $T/ca.csr
openssl ca -batch -config $T/ca.cnf -selfsign -keyfile ca.key -in $T/ca.csr -extensions v3_ca \
  -startdate 20200101000000Z -enddate 21200101000000Z -out $T/ca.full.pem -notext >/dev/null 2>&1
openssl x509 -in $T/ca.full.pem -out ca.pem
openssl ecparam -name prime256v1 -genkey -noout -out server.key
openssl req -new -key server.key -subj "/CN=localhost" -out $T/server.csr
openssl ca -batch -config $T/ca.cnf -cert ca.pem -keyfile ca.key -in $T/server.csr -extensions v3_srv \
  -startdate 20200101000000Z -enddate 21200101000000Z -out $T/server.full.pem -notext >/dev/null 2>&1
openssl x509 -in $T/server.full.pem -out server.crt
cat server.crt server.key > server.pem
rm -rf $T
echo "certs generated in $(pwd)"
