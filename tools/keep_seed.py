#!/usr/bin/env python3
"""tools/keep_seed.py <ID> <k> <name> <caught-json>  — copy a confirmed seeded change to /verif/seeded/<name>/ with meta.json.
caught-json: {"C01": "caught quick (kind roundtrip, 70 cases)", ...}"""
import json, os, shutil, sys
id_, k, name, caught = sys.argv[1], sys.argv[2], sys.argv[3], json.loads(sys.argv[4])
src = f"{os.environ.get('SEED_OUT', '/tmp/seed-out')}/{id_}/{k}"
dst = f"/verif/seeded/{name}"
os.makedirs(dst, exist_ok=True)
for f in ("patch.diff", "demo.py", "notes.md"):
    shutil.copy(os.path.join(src, f), os.path.join(dst, f))
notes = open(os.path.join(src, "notes.md")).read()
meta = {
    "property": id_,
    "origin": "independent sub-agent given only the property text and a scratch worktree",
    "needs_to_manifest": sys.argv[5] if len(sys.argv) > 5 else "see notes.md",
    "confirmed": {
        "demo_clean_exit": 0,
        "demo_patched_exit": 1,
        "baseline_with_patch": "stable_pass=6710 passed_now=6710 regressions=0 missing=0",
        "how": f"tools/eval_seed.sh {id_} {k} (scratch worktree of /repo HEAD, VERIF_REPO_SRC)",
    },
    "checks": caught,
}
json.dump(meta, open(os.path.join(dst, "meta.json"), "w"), indent=1)
print("kept", dst)
