#!/usr/bin/env python3
"""Run the repository's pinned test suite (guard off) and compare with /root/.vp/BASELINE.json stable_pass.
usage: tools/baseline.py [pytest args...]   (default: whole suite, xdist -n 16)
exit 0 iff every stable_pass test that was selected passed."""
import json, os, subprocess, sys, tempfile, xml.etree.ElementTree as ET

base = json.load(open("/root/.vp/BASELINE.json"))
stable = set(base["stable_pass"])
fd, path = tempfile.mkstemp(suffix=".xml", dir="/var/tmp"); os.close(fd)
extra = sys.argv[1:]
cmd = ["/venv/bin/python", "-m", "pytest", "-ra", "-q", "-p", "no:cacheprovider", "--timeout=900",
       "--continue-on-collection-errors", f"--junitxml={path}", "-n", os.environ.get("N", "16")] + extra
env = dict(os.environ); env.pop("EASYNETWORK_VERIF", None)
p = subprocess.run(cmd, cwd="/repo", env=env, capture_output=True, text=True)
tail = p.stdout[-1500:]
passed, failed = set(), set()
for tc in ET.parse(path).getroot().iter("testcase"):
    tid = f"{tc.get('classname')}::{tc.get('name')}"
    bad = any(ch.tag in ("failure", "error", "skipped") for ch in tc)
    (failed if bad else passed).add(tid)
os.unlink(path)
seen = passed | failed
regress = sorted(t for t in stable if t in failed)
missing = sorted(t for t in stable if t not in seen) if not extra else []
print(tail)
print(f"stable_pass={len(stable)} passed_now={len(passed & stable)} regressions={len(regress)} missing={len(missing)}")
for t in regress[:40]: print("REGRESSION", t)
for t in missing[:20]: print("MISSING", t)
sys.exit(1 if regress or missing else 0)
