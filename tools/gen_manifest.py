#!/usr/bin/env python3
"""Regenerates /verif/MANIFEST.json from the table below (run after adding a check)."""
import json
import os

ROOT = os.path.dirname(os.path.dirname(os.path.abspath(__file__)))

BASELINE_CMD = (
    "cd /repo && env -u EASYNETWORK_VERIF /venv/bin/python -m pytest -ra -q -p no:cacheprovider --timeout=900 "
    "--continue-on-collection-errors"
)

# id -> (category, technique, text, note, design_ref)
CHECKS = {
    "C01": (
        "exploration",
        "property-based round-trip (Hypothesis): generated packets x partitions x both receive paths, strict-equality oracle",
        "Generated-input search with a round-trip oracle over the whole serializer zoo, both consumers, generated partitions "
        "(incl. byte-by-byte) and buffer hints; limits are drawn so frames sit at the safe bound. Bounded search, not a proof.",
        "Trusts Hypothesis generation and the harness drivers mirroring _DataReceiverImpl/_BufferedReceiverImpl; cbor/msgpack/trio not importable offline.",
        "DESIGN.md section 3 C01",
    ),
    "C08": (
        "exploration",
        "property-based differential against an independent stdlib-ssl peer on a virtual-time loop: generated write sizes x ciphertext fragmentation x interleaving",
        "Live TLS sessions (client and server side, TLS 1.2/1.3) between AsyncTLSStreamTransport over an in-memory transport and an independent ssl.SSLObject peer; "
        "byte-exact transfer in both directions, no deadlock (virtual loop raises Deadlock), no plaintext marker in any byte handed to the wrapped transport, close_notify on close.",
        "Trusts OpenSSL/stdlib ssl as the reference peer and the harness conductor; blocking SSLStreamTransport covered by layer 'sync' when present.",
        "DESIGN.md section 3 C08",
    ),
    "C09": (
        "fault_enumeration",
        "fault enumeration + property-based search: live TLS stream cut at every enumerated byte offset / generated offsets, oracle on what the reader reports",
        "Cuts the peer->SUT ciphertext of live sessions at enumerated offsets (every record boundary +-1 and a stride in quick, every offset in thorough) for role x version x standard_compatible, "
        "plus generated shapes/offsets/fragmentations; the reader must never see clean EOF before the peer's close_notify in standard-compatible mode, must see EOF in non-standard mode, wrap() failure closes the transport, close sends close_notify.",
        "Trusts stdlib ssl peer; truncation is decided per run from the live stream (record headers parsed by the harness).",
        "DESIGN.md section 3 C09",
    ),
    "C14": (
        "fault_enumeration",
        "crash-point enumeration inside property-based scenarios: cancellation injected at every task step of each generated close path, closure oracle on in-memory transports",
        "Every generated close scenario (TLS aclose/wrap against a live stdlib-ssl peer, stapled transports, endpoint, AsyncTCPNetworkClient with/without a parked sender; scripted errors of the wrapped transport) "
        "is first run uncancelled to count its task steps, then re-run with a cancellation before every step, as task.cancel() and from an enclosing scope; afterwards every underlying transport must be closed, is_closing() true, second close prompt.",
        "In-memory transports mark themselves closed synchronously in aclose(); the asyncio adapter runs over a fake selector transport and the listener over a real loopback socket; D7, D12, D13 found here are repaired in /repo, one listed known finding (D14: adapter close cancelled with unsent data) is reported as KNOWN-FINDING.",
        "DESIGN.md section 3 C14",
    ),
    "C04": (
        "exploration",
        "property-based fault injection: generated chunk sequences x per-call socket fault scripts under a fake selector and virtual clock; byte-exact oracle + deterministic non-termination detection",
        "SocketStreamTransport (sendmsg path, base-class path, SC_IOV_MAX variants) and StreamEndpoint.send_packet over a scripted socket.socket subclass: bytes accepted by the 'kernel' must equal the concatenated chunks "
        "(a prefix on failure), the call must end (select() with nothing scheduled or 2000 calls without progress = violation), waits never exceed the timeout; async TLS write backlog checked against the stdlib-ssl peer, with injected partial writes / want-read refusals of the TLS engine and optionally a second task parked in recv().",
        "Socket behaviour is simulated (script + capacity model), not a kernel; blocking SSLStreamTransport and the asyncio adapter are covered by other layers/checks when present.",
        "DESIGN.md section 3 C04",
    ),
    "C11": (
        "exploration",
        "property-based schedule generation with an exact reference model: arrival/drain timelines under a fake selector and virtual perf_counter; outcome and virtual end time compared with the model",
        "Blocking recv_packet / send_packet / iter_received_packets (stream endpoints with both receive paths, TCP and UDP clients, datagram endpoint, blocking TLS transport receive) and the asynchronous client iterator run single-threaded against generated arrival timelines, spurious wake-ups and retry intervals; "
        "the call must succeed exactly when its last byte arrives before the deadline and otherwise raise TimeoutError after exactly T of waiting; T=0 never enters select().",
        "Virtual time: only select() waits take time; the asynchronous iterator runs on the virtual loop with ElapsedTime pointed at the loop clock; TLS receive side only; real-thread lock contention is modelled by a virtual lock.",
        "DESIGN.md section 3 C11",
    ),
    "C03": (
        "exploration",
        "property-based history generation with a model oracle: packets x arrival groups x peer-close position x recv_packet/iter_received_packets call histories, stale-data-after-EOF transport",
        "Generated streams (valid packets + optional trailing partial frame) delivered in groups with the peer closing at a generated position, consumed by generated histories of recv_packet/iter_received_packets with timeouts {None,0,>0}, on StreamEndpoint, TCPNetworkClient (fake selector + virtual clock), "
        "AsyncStreamEndpoint and AsyncTCPNetworkClient (in-memory transport, virtual loop), both receive paths: every complete packet exactly once and in order, EOF only after them, sticky afterwards without blocking, partial frame never delivered.",
        "Transports are simulated (they return stale garbage when read after EOF so that a lost latch is visible); real loopback sockets are not used.",
        "DESIGN.md section 3 C03",
    ),
    "C19": (
        "exploration",
        "property-based schedule generation + enumerated cancellation ticks: scripted connect outcomes under a recording socket namespace on a virtual loop, leak oracle created-closed in {empty,{returned}}",
        "Connection plans (1-5 mixed-family addresses, per-attempt delay/outcome, happy-eyeballs delay, bind and socket() failures, stream and datagram) run through the real resolver on the virtual loop with the module's socket namespace replaced by a recording one; "
        "each plan is re-run with task.cancel() at every loop tick and with enclosing scopes expiring at every interesting instant; exactly one open socket returned or everything closed.",
        "connect_socket/getaddrinfo are scripted; only the numeric-host path of address resolution is driven.",
        "DESIGN.md section 3 C19",
    ),
    "C20": (
        "exploration",
        "property-based operation sequences against a waiter-set model (WriteFlowControl) and against the real asyncio protocols over a fake selector transport; one real-socket backpressure probe",
        "Generated interleavings of sends, peer reads, pause/resume, connection loss, close and cancellation of individual senders for WriteFlowControl, StreamReaderBufferedProtocol + adapter and the datagram endpoint/listener protocols over fake asyncio transports with bounded kernel capacity; "
        "a returning sender has its bytes handed to the kernel, parked senders resume or fail with a connection error, none is stranded. A real socketpair variant sends 8 MiB to a non-reading peer.",
        "Fake transports mirror CPython 3.12 selector transports (fixed writelines); the send_all_from_iterable/writelines defect (D9) and the user-space queueing of datagram sends (D15) found here are repaired in /repo and re-checked on every run through committed replays.",
        "DESIGN.md section 3 C20",
    ),
    "C02": (
        "exploration",
        "property-based differential/metamorphic search against a reference frame-by-frame decoder: generated frame lists (valid/undecodable/band/oversized) x partitions x both receive paths, decomposition matcher",
        "Streams built from tagged frames are fed through both consumers under generated partitions and fill sizes; outputs must equal the frame-by-frame reference for safely-sized streams and admit a decomposition (junk segment with a limit error per rejected frame, later frames intact) otherwise; junk packets must be substrings of the rejected frame.",
        "Reference decoder is the harness' own splitter + the serializer's one-shot deserialize; band frames may go either way by definition (DESIGN C07).",
        "DESIGN.md section 3 C02",
    ),
    "C07": (
        "exploration",
        "exhaustive enumeration of small limits x lengths x partitions plus property-based search: bytes held since last output vs limit+separator+read, safe/over frame oracles on both receive paths",
        "Never-terminated and terminated streams of every length around the limit are fed in reads of bounded size; a limit error must be raised before limit+separator+read unterminated bytes are held, safely-under frames are never rejected, over frames always are; the buffered consumer's buffer never grows. Small limits are enumerated completely (all partitions up to 11/14 bytes).",
        "Held bytes are measured as bytes fed since the last output (upper bound of what any internal buffer holds).",
        "DESIGN.md section 3 C07",
    ),
    "C10": (
        "exploration",
        "property-based schedule generation: ordered per-iteration action lists (deliver bytes via the protocol callbacks / cancel task / cancel scope) on a virtual loop; history invariant 'everything returned == everything written'",
        "The real StreamReaderBufferedProtocol + adapter (and AsyncStreamEndpoint with both consumers, the low-level stream server's request receiver with yielded timeouts, AsyncTLSStreamTransport) are driven by generated schedules in which cancellations land in the same or adjacent loop iteration as deliveries, in either order; "
        "the reader re-issues receives after each cancellation; the concatenation of all returned data must equal the stream. Blocking receives ending in TimeoutError are judged by C03's history oracle under the fake selector.",
        "The selector transport is FakeAsyncioTransport (mirrors CPython 3.12 callback order); TLS layer runs over the in-memory transport.",
        "DESIGN.md section 3 C10",
    ),
    "C12": (
        "exploration",
        "property-based schedule generation on a virtual loop (owned interleavings of N senders over a transport that suspends and commits partially) + randomized real-thread stress; wire re-parsed against the set of successful sends",
        "2-5 concurrent senders on AsyncTCPNetworkClient, the server-side client of a running AsyncTCPNetworkServer, AsyncTLSStreamTransport and the raw endpoint (BusyResourceError instead of interleaving), with the in-memory transport suspending mid-packet; "
        "TCPNetworkClient/UDPNetworkClient from real threads over loopback with tiny SO_SNDBUF. Each successful packet appears contiguously exactly once, per-sender order kept, lock hand-off FIFO.",
        "Thread layer: OS-owned schedule (randomised stress, oracle sound under any interleaving; timing overruns are inconclusive).",
        "DESIGN.md section 3 C12",
    ),
    "C15": (
        "exploration",
        "model-based property testing: generated request streams x chunk arrival times x handler shapes (as data) on a virtual loop; handler-side log compared with a pure-Python reference model",
        "AsyncStreamServer + build_lowlevel_stream_server_handler over an in-memory listener and the full AsyncTCPNetworkServer through an in-memory backend: a generic handler logs every value/exception/restart/finalisation with virtual times; "
        "a reference model replays the frame list and arrival times against the handler shape and predicts the log (requests once and in order across generator restarts, parse error at its position, TimeoutError iff no complete request in time, exactly-once finalisation, connection closed).",
        "Deadline ties excluded by construction (dyadic timeouts vs integer arrivals); yielded timeout 0 judged only when unambiguous.",
        "DESIGN.md section 3 C15",
    ),
    "C16": (
        "exploration",
        "model-based property testing: generated datagram arrival scripts x per-address handler scripts on a virtual loop; per-address log and timing compared with a reference model",
        "AsyncDatagramServer.serve over an in-memory datagram listener and the full AsyncUDPNetworkServer: per address the handler-side sequence equals the arrival sequence (minus documented discards), at most one active generator per address, every queued datagram handled, "
        "and each address' completion times are independent of other addresses' suspensions (the per-address model ignores the others).",
        "Handler exceptions before the first yield and timeout 0 are not generated (statement silent).",
        "DESIGN.md section 3 C16",
    ),
    "C05": (
        "exploration",
        "property-based testing with an isolated reference decode per datagram: generated valid/truncated/extended/glued/random datagram histories x permutation metamorphic relation, on the protocol, scripted sync/async endpoints and loopback UDP clients",
        "Every zoo serializer in one-shot mode (incl. incremental ones through the default serialize/deserialize, pickle, stapled, converter): each send produces one datagram that deserializes to the packet; output i equals a fresh-instance decode of datagram i alone; "
        "truncated/extended/glued datagrams are errors where the one-shot path promises it; permuting the history permutes the outputs.",
        "Loopback UDP layer: a missing datagram is inconclusive, never a violation.",
        "DESIGN.md section 3 C05",
    ),
    "C06": (
        "exploration",
        "property-based fuzzing (Hypothesis; atheris coverage-guided fuzzing in the thorough tier) with an in-target totality + progress oracle over random bytes, mutated valid streams and structurally extreme input",
        "For every zoo serializer in one-shot, incremental and buffered mode: each call returns a packet or raises the mode's parse error (anything else escaping is a violation), a reported error leaves a strictly shorter remainder, a skip-errors loop terminates; a per-case wall-clock watchdog turns a hang into a violation with the input saved.",
        "Pickle is only fed through restricted unpicklers; memo-index bombs of the C unpickler are excluded by a pickletools scan (documented pickle caveat); limit >= 4.",
        "DESIGN.md section 3 C06",
    ),
    "C17": (
        "exploration",
        "property-based fault injection: exception class x hook position x connection set-up fault as data, next to concurrent healthy clients on a virtual loop (plain TCP, TLS with stdlib peers, UDP); small real-socket RST layer",
        "One faulty client per case (17 exception shapes incl. ExceptionGroups, every hook position of stream and datagram handlers, transport send/recv failure, missing peer name, TLS handshake garbage/stall/reset/EOF) while 1-3 healthy echo clients have requests in flight: "
        "serve_forever keeps running, healthy clients get every echo, the faulty TCP connection is closed and on_disconnection matches on_connection, later UDP datagrams from the faulty address start a fresh generator.",
        "Only Exception subclasses are injected; the RST-after-accept layer uses real sockets and treats timing failures as inconclusive.",
        "DESIGN.md section 3 C17",
    ),
    "C13": (
        "exploration",
        "model-based property testing: generated cancel-scope programs run on a virtual-time loop against an independent reference interpreter (exact comparison where the semantics are schedule-independent, invariants everywhere)",
        "Programs over sleep/checkpoint/failing waits/5 scope constructors/shield/scope.cancel()/reschedule()/task-group children plus an external task.cancel() at a generated virtual time; "
        "invariants (no unshielded checkpoint completes in a cancelled or expired scope, shields run to completion, a foreign cancel is always delivered, no leftover cancellation request, TimeoutError iff cancelled_caught) "
        "on every program, and marks/outcome/scope flags compared exactly with the reference interpreter on tie-free programs; layer foreign-mix: library scopes beside/nested with asyncio.timeout() blocks and shields, exact trace against a second small reference.",
        "Reference interpreter (pbt/scope_model.py) is trusted; ties inside one virtual instant are detected and only the invariants are judged there; one known finding (D5) is excluded by shape, counted, and reported as KNOWN-FINDING from its replays; asyncio backend only.",
        "DESIGN.md section 3 C13",
    ),
    "C18": (
        "exploration",
        "property-based history generation with interval-order oracles: lifecycle call histories with tick-exact offsets on a virtual loop (async servers) and randomized real-thread histories (standalone servers)",
        "Histories of serve_forever/shutdown/server_close/server_activate/connect over up to 3 tasks or threads; refusals only when the overlapping interval that justifies them exists, shutdown returns only after serving stopped, a stopped server serves again unless closed, listeners closed after server_close, nothing deadlocks. Further layers: stop-under-load (shutdown / cancelled serve_forever / cancelled handler scope against a client that keeps the real asyncio stream protocol's buffers filled must take effect within the data already received), "
        "real-startup-race (stop request 0-30 loop iterations into the start-up of a TCP/UDP server on 1-4 real loopback addresses: no socket descriptor outlives server_close()), real-accept-race (stop request right after 1-3 real peers connected: every accepted connection is closed by the library, not by a finalizer; also with a task group that lives in another task). stop-under-load also covers polling handlers, client-side recv_packet() loops and datagram servers under a sustained flow; in-loop also calls server_close() from a default-executor thread while another thread shuts the server down.",
        "Standalone layer: OS-owned schedule with a 30 s watchdog (3x re-run before a hang counts); the two shapes S1 and S2 found by this layer were repaired in /repo and are searched again (DESIGN 7.3/7.4).",
        "DESIGN.md section 3 C18",
    ),
}

PENDING = {}

# checks whose thorough tier adds the coverage-guided engine (pbt/covfuzz.py) over one of their layers
COV = {"C01", "C02", "C03", "C04", "C05", "C07"}
COV_NOTE = "; thorough tier adds coverage-guided fuzzing (atheris/libFuzzer driving the same Hypothesis strategy and oracle via fuzz_one_input, easynetwork instrumented)"


def main() -> None:
    props = [json.loads(line) for line in open(os.path.join(ROOT, "properties.jsonl"))]
    checks = []
    not_applicable = []
    for p in props:
        pid = p["id"]
        if pid in CHECKS:
            cat, tech, text, note, ref = CHECKS[pid]
            checks.append(
                {
                    "property_id": pid,
                    "quick_cmd": f"./check {pid}",
                    "thorough_cmd": f"./check {pid} --tier thorough",
                    "evidence_file": f"evidence/{pid}.json",
                    "replay_cmd_template": f"./check {pid} --replay {{path}}",
                    "engine": "pbt",
                    "level_claimed": {"category": cat, "text": text, "design_ref": ref},
                    "level_note": note,
                    "technique": tech + (COV_NOTE if pid in COV else ""),
                }
            )
        else:
            not_applicable.append({"property_id": pid, "reason": PENDING.get(pid, "check not built yet in this revision of /verif (no claim made)")})
    manifest = {
        "version": 1,
        "setup_cmd": "./setup.sh",
        "hooks": {
            "guard": "EASYNETWORK_VERIF",
            "enable": "no source hooks are needed: checks import /repo/src (editable install in /venv) in a fresh process; ./check exports EASYNETWORK_VERIF=1 for uniformity",
            "baseline_off_cmd": BASELINE_CMD,
            "source_commits": [],
            "add_only": True,
        },
        "engines": [
            {
                "name": "pbt",
                "path": "pbt/",
                "serves_properties": sorted(CHECKS),
                "kind_free_text": "Hypothesis 6.168 property-based testing: composite case strategies, pure run_case oracles, virtual-time asyncio loop, scripted transports, stdlib-ssl peer; exhaustive enumeration of small finite sub-domains; atheris for C06 thorough when installable",
            }
        ],
        "checks": checks,
        "notes": "See DESIGN.md. known_findings.json lists repaired defects (fixed:) and recorded findings. Seeded breakages under seeded/.",
        "not_applicable": not_applicable,
    }
    with open(os.path.join(ROOT, "MANIFEST.json"), "w") as f:
        json.dump(manifest, f, indent=1)
        f.write("\n")
    print(f"claimed={len(checks)} not_applicable={len(not_applicable)}")


if __name__ == "__main__":
    main()
