#!/bin/bash
# tools/eval_seed.sh <ID> <k> [check ids to run, default <ID>]
# Confirms a seeded change (/tmp/seed-out/<ID>/<k>): demo passes on clean tree, fails with patch, suite baseline unchanged
# with patch; then runs the quick check(s) against the patched tree. All in a scratch worktree.
id=$1; k=$2; shift 2; checks=${@:-$id}
src=${SEED_OUT:-/tmp/seed-out}/$id/$k
name=ev-$id-$k-$$
d=$(/verif/tools/scratch.sh new $name) || exit 2
echo "== demo on clean tree"; (cd /tmp && PYTHONPATH=$d/src timeout 120 /venv/bin/python $src/demo.py >/tmp/$name.clean.log 2>&1; echo "exit=$?")
git -C $d apply $src/patch.diff || { echo "PATCH DOES NOT APPLY"; /verif/tools/scratch.sh rm $name; exit 2; }
echo "== demo with patch"; (cd /tmp && PYTHONPATH=$d/src timeout 120 /venv/bin/python $src/demo.py >/tmp/$name.patched.log 2>&1; echo "exit=$?"; tail -2 /tmp/$name.patched.log | cut -c1-200)
echo "== baseline with patch"; SEED_WT=$d N=12 /tmp/seedtools/baseline.py 2>&1 | tail -1
cd /verif
for c in $checks; do
  echo "== ./check $c (quick) against patched tree"
  VERIF_REPO_SRC=$d/src timeout 1500 ./check $c --no-evidence 2>&1 | grep -v "^KNOWN-FINDING" | tail -2 | cut -c1-300
done
/verif/tools/scratch.sh rm $name
rm -f /tmp/$name.*.log
