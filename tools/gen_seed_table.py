#!/usr/bin/env python3
"""Regenerate the table of DESIGN.md section 7.5 from seeded/*/meta.json (rows sorted by directory name)."""
import glob, json, os, re
root = os.path.dirname(os.path.dirname(os.path.abspath(__file__)))
rows = []
missed = 0
for d in sorted(glob.glob(os.path.join(root, "seeded", "*"))):
    mp = os.path.join(d, "meta.json")
    if not os.path.exists(mp):
        continue
    m = json.load(open(mp))
    res = "; ".join(f"{k}: {v}" for k, v in m["checks"].items())
    if "missed at first" in res.lower():
        missed += 1
    needs = str(m.get("needs_to_manifest", "")).replace("|", "/").replace("\n", " ")
    rows.append(f"| `{os.path.basename(d)}` | {m['property']} | {needs} | {res.replace('|', '/')} |")
p = os.path.join(root, "DESIGN.md")
s = open(p).read()
head = "| seeded change | property | needs to manifest | result |\n|---|---|---|---|\n"
i = s.index(head) + len(head)
j = i
while j < len(s) and s[j] == "|":
    j = s.index("\n", j) + 1
s = s[:i] + "\n".join(rows) + "\n" + s[j:]
open(p, "w").write(s)
print(f"{len(rows)} rows, {missed} missed at first")
