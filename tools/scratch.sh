#!/bin/bash
# tools/scratch.sh new <name>   -> creates /tmp/en-<name> (git worktree of /repo HEAD incl. generated version.py), prints path
# tools/scratch.sh rm <name>    -> removes it
# Run a check against it:  VERIF_REPO_SRC=/tmp/en-<name>/src ./check C01 --no-evidence
set -e
case "$1" in
  new) d=/tmp/en-$2; git -C /repo worktree add -q --detach "$d" "${3:-HEAD}"; cp /repo/src/easynetwork/version.py "$d/src/easynetwork/version.py"; echo "$d";;
  rm) git -C /repo worktree remove --force /tmp/en-$2; git -C /repo worktree prune;;
  *) echo "usage: $0 new|rm <name>"; exit 2;;
esac
