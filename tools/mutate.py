#!/usr/bin/env python3
"""tools/mutate.py <file> <start_line> <end_line> [replacement-text]  — replace lines [start,end] (1-based, inclusive)
with the replacement text (empty = delete).  Used for quick mutants in scratch worktrees."""
import sys
p, a, b = sys.argv[1], int(sys.argv[2]), int(sys.argv[3])
rep = sys.argv[4] if len(sys.argv) > 4 else ""
lines = open(p).read().split("\n")
new = lines[: a - 1] + (rep.split("\n") if rep else []) + lines[b:]
open(p, "w").write("\n".join(new))
