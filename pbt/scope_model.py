"""Reference interpreter for C13 cancel-scope programs (no asyncio, no code under test).

Program grammar (JSON-able; times are integers in 1/1024 s so that every sum is exact):

    body   := [node, ...]
    node   := ["mark", i]                      record "reached mark i at virtual time t"
            | ["cp"]                           bare checkpoint (backend.coro_yield())
            | ["sleep", n]                     backend.sleep(n/1024); n == 0 is a bare checkpoint
            | ["scope", kind, delay, body]     kind in SCOPE_KINDS; delay None = no deadline; deadline = now + delay
            | ["shield", body]                 backend.ignore_cancellation(body)
            | ["cancel", level]                scope.cancel() on the level-th lexically enclosing scope (0 = innermost);
                                               for a child task the lexical chain continues into the parent's scopes
            | ["resched", level, when]         scope.reschedule(now + when) (None = inf)
            | ["group", [body, ...], body]     task group: children started with start_soon, then the parent body
    case   := program body + optional external task.cancel() of the program task at virtual time `ext`

Semantics (level-triggered, Trio-style; each rule is what the statement/docstrings promise):

* A task is *due* for cancellation when it is not inside a shield and either one of the scopes it hosts has
  cancel_called, or a foreign one-shot cancel (external task.cancel() for the program task, task-group abort for a
  child) has been requested and not yet delivered.  A due task is interrupted at its next checkpoint, or at once if
  it is parked in one.
* A scope's deadline passing, `cancel()`, or `reschedule()` to a time that is not in the future set cancel_called.
  Code between that moment and the next checkpoint still runs.
* An interrupt travelling outwards is caught by a scope with cancel_called iff no foreign cancel is pending on the task
  and no enclosing scope hosted by the task has cancel_called.  If an enclosing scope is cancelled as well, the statement
  allows either scope to catch: the choice is read from `hints` (the observed run) so that everything else stays
  exactly predictable; a surviving cancelled encloser interrupts the next checkpoint again.
* A foreign cancel crosses every scope and ends the task.
* Inside a shield nothing is ever interrupted, scopes opened inside it included; whatever became due is delivered
  at the first checkpoint after the shield.
* An interrupt leaving a task-group block (or hitting the parent while it waits for its children at the end of the
  block) cancels the unfinished children (foreign cancel for them), waits for them, then continues outwards.

The interpreter has no notion of event-loop turns.  A task that reaches a checkpoint is parked first and everything else
that is runnable in the same instant runs before its interrupt (if it is due) is delivered, as on any event loop; apart
from that, whenever the outcome would depend on the order of loop turns inside one virtual instant the interpreter says
so instead of guessing:

* `tie`  — two timers (sleep wake-up, scope deadline, external cancel) due at the same virtual instant, or the
  external cancel due in the very instant the program starts;
* `racy` — a cross-task cancellation (a child cancelling/rescheduling a scope hosted by another task, a task-group
  abort) reaching a task that has not started yet, whose wait has just completed, or that is passing zero-time
  checkpoints in that instant; a child finishing after a zero-time checkpoint in the instant its group is aborted; a
  parent leaving a group, with a cancellation pending, in the instant its last child finished.

Exact comparison is only meaningful when both are False.  The interpreter also reports the *shapes* of the two known
defects of the implementation (`d5_shape`, `d6_shape`/`d6_scopes`, see ModelResult), which the check uses to steer
generation away from them, and the non-triviality facts.
"""

from __future__ import annotations

import math
from collections import deque
from typing import Any, Iterator

SCOPE_KINDS = ("move_on_after", "timeout", "open", "move_on_at", "timeout_at")
TIMEOUT_KINDS = ("timeout", "timeout_at")

INF = math.inf


# ----------------------------------------------------------------------------------------------
# static helpers


def scope_ids(program: list) -> dict[int, int]:
    """id(node) -> preorder number, separately for scope nodes and group nodes (both start at 0)."""
    out: dict[int, int] = {}
    counters = {"scope": 0, "group": 0}

    def walk(body: list) -> None:
        for node in body:
            op = node[0]
            if op == "scope":
                out[id(node)] = counters["scope"]
                counters["scope"] += 1
                walk(node[3])
            elif op == "shield":
                walk(node[1])
            elif op == "group":
                out[id(node)] = counters["group"]
                counters["group"] += 1
                for c in node[1]:
                    walk(c)
                walk(node[2])

    walk(program)
    return out


def child_name(gid: int, index: int) -> str:
    return f"g{gid}c{index}"


def count_nodes(body: list) -> int:
    n = 0
    for node in body:
        n += 1
        op = node[0]
        if op == "scope":
            n += count_nodes(node[3])
        elif op == "shield":
            n += count_nodes(node[1])
        elif op == "group":
            n += sum(count_nodes(c) for c in node[1]) + count_nodes(node[2])
    return n


def count_children(body: list) -> int:
    n = 0
    for node in body:
        op = node[0]
        if op == "scope":
            n += count_children(node[3])
        elif op == "shield":
            n += count_children(node[1])
        elif op == "group":
            n += len(node[1]) + sum(count_children(c) for c in node[1]) + count_children(node[2])
    return n


def depth(body: list) -> int:
    d = 0
    for node in body:
        op = node[0]
        if op == "scope":
            d = max(d, 1 + depth(node[3]))
        elif op == "shield":
            d = max(d, 1 + depth(node[1]))
        elif op == "group":
            d = max(d, 1 + max([depth(c) for c in node[1]] + [depth(node[2])]))
    return d


def scope_depth(body: list) -> int:
    """max number of lexically nested scope nodes (children inherit the chain of their group)"""
    d = 0
    for node in body:
        op = node[0]
        if op == "scope":
            d = max(d, 1 + scope_depth(node[3]))
        elif op == "shield":
            d = max(d, scope_depth(node[1]))
        elif op == "group":
            d = max([d] + [scope_depth(c) for c in node[1]] + [scope_depth(node[2])])
    return d


def count_ops(body: list, op_name: str) -> int:
    n = 0
    for node in body:
        op = node[0]
        if op == op_name:
            n += 1
        if op == "scope":
            n += count_ops(node[3], op_name)
        elif op == "shield":
            n += count_ops(node[1], op_name)
        elif op == "group":
            n += sum(count_ops(c, op_name) for c in node[1]) + count_ops(node[2], op_name)
    return n


# ----------------------------------------------------------------------------------------------
# the interpreter


class _Interrupt(Exception):
    """the model's CancelledError"""


class MScope:
    __slots__ = (
        "sid", "kind", "host", "deadline", "cancel_called", "caught", "active", "entered_at", "exited_at",
        "suspended_while_cancelled", "crossed", "timeout_raised",
    )  # fmt: skip

    def __init__(self, sid: int, kind: str, host: "MTask", deadline: float, now: int) -> None:
        self.sid = sid
        self.kind = kind
        self.host = host
        self.deadline = deadline
        self.cancel_called = False
        self.caught = False
        self.active = True
        self.entered_at = now
        self.exited_at: int | None = None
        self.suspended_while_cancelled = False
        self.crossed = False
        self.timeout_raised = False


class MGroup:
    __slots__ = ("parent", "children", "aborted")

    def __init__(self, parent: "MTask") -> None:
        self.parent = parent
        self.children: list[MTask] = []
        self.aborted = False

    def unfinished(self) -> list["MTask"]:
        return [c for c in self.children if c.state != "done"]


class MTask:
    __slots__ = (
        "name", "gen", "stack", "shield", "foreign", "foreign_at", "state", "wake_at", "outcome", "marks", "group",
        "last_park_at", "zero_cycle_at", "waiting_on", "finished_at",
    )  # fmt: skip

    def __init__(self, name: str) -> None:
        self.name = name
        self.finished_at: int | None = None
        self.gen: Iterator[Any] | None = None
        self.stack: list[MScope] = []
        self.shield = 0
        self.foreign = False
        self.foreign_at: int | None = None
        self.state = "new"  # new | ready | intr | running | cp | sleep | groupwait | cleanup | done
        self.wake_at: int | None = None
        self.outcome: str | None = None
        self.marks: list[tuple[int, int]] = []
        self.group: MGroup | None = None
        self.last_park_at: int | None = None  # instant of the latest park
        self.zero_cycle_at: int | None = None  # latest instant in which it was parked and resumed without time advancing
        self.waiting_on: MGroup | None = None

    def pending(self) -> bool:
        return self.foreign or any(s.cancel_called for s in self.stack)

    def due(self) -> bool:
        return not self.shield and self.pending()


class ModelResult:
    def __init__(self) -> None:
        self.outcome: str | None = None
        self.end_time: int | None = None
        self.marks: dict[str, list[tuple[int, int]]] = {}
        self.scopes: dict[int, dict[str, Any]] = {}
        self.children: dict[str, str | None] = {}
        self.ext_requested = False
        self.ext_pending_at_end = False
        self.tie = False
        self.racy = False
        self.stuck = False
        self.used_hint = False
        self.d5_shape = False  # a foreign cancel and a hosted scope's own cancellation pending on one task together
        self.d6_shape = False  # a scope cancelled while its host was suspended exits with no interrupt passing it
        self.d6_scopes: list[tuple[int, bool]] = []  # (scope number, exited inside a shield) for every such scope
        self.poller_expected = False  # virtual time advanced while some active scope had cancel_called
        self.nt_nested_cancel = False  # a scope got cancelled while >= 2 scopes were active
        self.nt_shield_pending = False  # a shield ended with a cancellation pending on its task
        self.notes: list[str] = []

    def exact(self) -> bool:
        return not (self.tie or self.racy or self.stuck)


class _Sim:
    def __init__(self, program: list, ext: int | None, hints: dict[int, bool] | None) -> None:
        self.program = program
        self.ext = ext
        self.hints = hints or {}
        self.ids = scope_ids(program)
        self.now = 0
        self.ready: deque[tuple[MTask, BaseException | None]] = deque()
        self.tasks: list[MTask] = []
        self.scopes: list[MScope] = []
        self.current: MTask | None = None
        self.ext_fired = False
        self.res = ModelResult()

    # -- cancellation plumbing -------------------------------------------------------------------

    def poke(self, target: MTask, cross_task: bool) -> None:
        """target's cancellation state changed; wake it if it is parked in an interruptible wait and due"""
        res = self.res
        state = target.state
        if cross_task:
            if state == "new":
                res.racy = True
                res.notes.append(f"{target.name}: cancelled before it started")
            elif state == "ready":
                res.racy = True
                res.notes.append(f"{target.name}: cross-task cancellation after its wait completed, before it resumed")
            elif state == "cp" or target.zero_cycle_at == self.now:
                res.racy = True
                res.notes.append(f"{target.name}: cross-task cancellation in an instant in which it passes checkpoints without time advancing")
        if state == "done" or not target.due():
            return
        if state in ("sleep", "groupwait"):
            target.state = "intr"
            target.wake_at = None
            self.ready.append((target, _Interrupt()))
        # state == "cp": already queued, the interrupt is decided when it is resumed

    def cancel_scope(self, scope: MScope, by: MTask | None) -> None:
        if scope.cancel_called:
            return
        res = self.res
        scope.cancel_called = True
        if sum(1 for s in self.scopes if s.active) >= 2:
            res.nt_nested_cancel = True
        if not scope.active:
            return
        host = scope.host
        if host is not self.current:
            scope.suspended_while_cancelled = True
        if host.foreign and host.state != "done":
            res.d5_shape = True
        self.poke(host, cross_task=by is not None and by is not host)

    def request_foreign(self, target: MTask, cross_task: bool) -> None:
        if target.foreign or target.state == "done":
            return
        target.foreign = True
        target.foreign_at = self.now
        if any(s.cancel_called for s in target.stack):
            self.res.d5_shape = True
        self.poke(target, cross_task=cross_task)

    def abort(self, grp: MGroup) -> None:
        grp.aborted = True
        for c in grp.children:
            if c.state == "done" and c.finished_at == self.now and c.zero_cycle_at == self.now:
                self.res.racy = True
                self.res.notes.append(f"{c.name}: finished, after a zero-time checkpoint, in the instant its group is cancelled")
        for c in grp.unfinished():
            self.request_foreign(c, cross_task=True)

    # -- program interpreter (generators; a yield parks the task) --------------------------------

    def body(self, task: MTask, body: list, env: list[MScope]) -> Iterator[Any]:
        for node in body:
            yield from self.node(task, node, env)

    def checkpoint(self, task: MTask, dur: int) -> Iterator[Any]:
        for s in task.stack:
            if s.cancel_called:
                s.suspended_while_cancelled = True
        # always park: whatever else is runnable in this instant runs before an interrupt is delivered here
        if dur == 0:
            yield ("cp",)
        else:
            yield ("sleep", dur)

    def node(self, task: MTask, node: list, env: list[MScope]) -> Iterator[Any]:
        op = node[0]
        if op == "mark":
            task.marks.append((node[1], self.now))
        elif op == "cp":
            yield from self.checkpoint(task, 0)
        elif op == "sleep":
            yield from self.checkpoint(task, node[1])
        elif op == "cancel":
            if env:
                self.cancel_scope(env[-1 - (node[1] % len(env))], by=task)
        elif op == "resched":
            if env:
                scope = env[-1 - (node[1] % len(env))]
                scope.deadline = INF if node[2] is None else self.now + node[2]
                if scope.active and not scope.cancel_called and scope.deadline <= self.now:
                    self.cancel_scope(scope, by=task)
        elif op == "shield":
            task.shield += 1
            try:
                yield from self.body(task, node[1], env)
            finally:
                task.shield -= 1
            if task.pending():
                self.res.nt_shield_pending = True
        elif op == "scope":
            yield from self.scope(task, node, env)
        elif op == "group":
            yield from self.group(task, node, env)
        else:
            raise ValueError(f"unknown program node {node!r}")

    def scope(self, task: MTask, node: list, env: list[MScope]) -> Iterator[Any]:
        _, kind, delay, body = node
        res = self.res
        deadline = INF if delay is None else self.now + delay
        scope = MScope(self.ids[id(node)], kind, task, deadline, self.now)
        self.scopes.append(scope)
        task.stack.append(scope)
        if deadline <= self.now:
            self.cancel_scope(scope, by=task)
        interrupt: _Interrupt | None = None
        try:
            yield from self.body(task, body, env + [scope])
        except _Interrupt as exc:
            interrupt = exc
        task.stack.pop()
        scope.active = False
        scope.exited_at = self.now
        if interrupt is None:
            if scope.cancel_called and scope.suspended_while_cancelled:
                res.d6_shape = True
                res.d6_scopes.append((scope.sid, task.shield > 0))
            return
        scope.crossed = True
        catch = False
        if scope.cancel_called:
            if task.foreign:
                res.d5_shape = True
            elif any(s.cancel_called for s in task.stack):
                res.used_hint = True
                catch = bool(self.hints.get(scope.sid, False))
            else:
                catch = True
        if not catch:
            raise interrupt
        scope.caught = True
        if kind in TIMEOUT_KINDS:
            scope.timeout_raised = True  # the executor swallows the TimeoutError right outside the scope

    def group(self, task: MTask, node: list, env: list[MScope]) -> Iterator[Any]:
        _, children, body = node
        gid = self.ids[id(node)]
        grp = MGroup(task)
        for i, prog in enumerate(children):
            child = MTask(child_name(gid, i))
            child.group = grp
            child.gen = self.child_main(child, prog, list(env))
            grp.children.append(child)
            self.tasks.append(child)
            self.ready.append((child, None))
        interrupt: _Interrupt | None = None
        try:
            yield from self.body(task, body, env)
            if grp.unfinished():
                # waiting for the children at the end of the block is an ordinary (interruptible) checkpoint
                for s in task.stack:
                    if s.cancel_called:
                        s.suspended_while_cancelled = True
                yield ("groupwait", grp)
            elif task.pending() and any(c.finished_at == self.now for c in grp.children):
                self.res.racy = True
                self.res.notes.append(f"{task.name}: leaves a task group in the instant its last child finished, with a cancellation pending")
        except _Interrupt as exc:
            interrupt = exc
        if interrupt is None:
            return
        self.abort(grp)
        while grp.unfinished():
            for s in task.stack:
                if s.cancel_called:
                    s.suspended_while_cancelled = True
            yield ("cleanup", grp)
        raise interrupt

    def child_main(self, task: MTask, prog: list, env: list[MScope]) -> Iterator[Any]:
        try:
            yield from self.body(task, prog, env)
            task.outcome = "ok"
        except _Interrupt:
            task.outcome = "cancelled"

    def main(self, task: MTask) -> Iterator[Any]:
        try:
            yield from self.body(task, self.program, [])
            task.outcome = "ok"
        except _Interrupt:
            task.outcome = "cancelled"

    # -- scheduler -------------------------------------------------------------------------------

    def step(self, task: MTask, exc: BaseException | None) -> None:
        if task.state == "done":
            return
        if task.state == "new" and task.foreign:
            # cancelled before its first step: the coroutine never runs
            task.outcome = "cancelled"
            self.finish(task)
            return
        if exc is None and task.state == "cp" and task.due():
            exc = _Interrupt()
        if task.last_park_at == self.now:
            task.zero_cycle_at = self.now
        task.state = "running"
        self.current = task
        assert task.gen is not None
        try:
            req = task.gen.send(None) if exc is None else task.gen.throw(exc)  # type: ignore[attr-defined]
        except StopIteration:
            self.current = None
            self.finish(task)
            return
        self.current = None
        task.last_park_at = self.now
        kind = req[0]
        if kind in ("groupwait", "cleanup"):
            grp: MGroup = req[1]
            if not grp.unfinished():
                task.state = "ready"
                self.ready.append((task, None))
                return
            task.waiting_on = grp
            if kind == "cleanup":
                task.state = "cleanup"
                return
        if task.due():
            # parked in an interruptible wait while already due: interrupted once the other runnable tasks have run
            task.state = "intr"
            self.ready.append((task, _Interrupt()))
        elif kind == "cp":
            task.state = "cp"
            self.ready.append((task, None))
        elif kind == "sleep":
            task.state = "sleep"
            task.wake_at = self.now + req[1]
        else:
            task.state = "groupwait"

    def finish(self, task: MTask) -> None:
        task.state = "done"
        task.finished_at = self.now
        grp = task.group
        if grp is not None and not grp.unfinished():
            parent = grp.parent
            if parent.state in ("groupwait", "cleanup") and parent.waiting_on is grp:
                parent.state = "ready"
                parent.waiting_on = None
                self.ready.append((parent, None))

    def run(self) -> ModelResult:
        res = self.res
        main = MTask("main")
        main.gen = self.main(main)
        self.tasks.append(main)
        self.ready.append((main, None))
        guard = 0
        if self.ext is not None and self.ext <= 0:
            res.tie = True  # due in the instant the program starts: its position among the first steps is a loop-turn matter
        while True:
            while self.ready:
                guard += 1
                if guard > 100_000:
                    res.stuck = True
                    res.notes.append("model: step budget exhausted")
                    return res
                task, exc = self.ready.popleft()
                if exc is not None and task.state != "intr":
                    continue  # stale wake-up
                self.step(task, exc)
            if main.state == "done":
                break
            timers: list[tuple[int, int, Any]] = []
            for t in self.tasks:
                if t.state == "sleep":
                    timers.append((t.wake_at, 2, t))  # type: ignore[arg-type]
            for s in self.scopes:
                if s.active and not s.cancel_called and s.deadline != INF:
                    timers.append((int(s.deadline), 1, s))
            if self.ext is not None and not self.ext_fired:
                timers.append((max(self.ext, 0), 0, None))
            if not timers:
                res.stuck = True
                res.notes.append("model: nothing runnable and no timer pending")
                break
            tmin = min(t[0] for t in timers)
            due = sorted((t for t in timers if t[0] == tmin), key=lambda t: t[1])
            if len(due) > 1 or tmin <= self.now:
                # two timers in one instant, or a timer already due while tasks are still running in this instant
                res.tie = True
            if tmin > self.now and any(s.active and s.cancel_called for s in self.scopes):
                res.poller_expected = True
            self.now = max(self.now, tmin)
            for _, order, obj in due:
                if order == 0:
                    self.ext_fired = True
                    res.ext_requested = True
                    self.request_foreign(main, cross_task=False)
                elif order == 1:
                    if obj.active and not obj.cancel_called and obj.deadline <= self.now:
                        self.cancel_scope(obj, by=None)
                else:
                    if obj.state == "sleep" and obj.wake_at is not None and obj.wake_at <= self.now:
                        obj.state = "ready"
                        obj.wake_at = None
                        self.ready.append((obj, None))
        res.outcome = main.outcome
        res.end_time = self.now
        res.ext_pending_at_end = main.foreign and main.outcome == "ok"
        for t in self.tasks:
            res.marks[t.name] = list(t.marks)
            if t is not main:
                res.children[t.name] = t.outcome
        for s in self.scopes:
            res.scopes[s.sid] = {
                "kind": s.kind,
                "entered_at": s.entered_at,
                "exited_at": s.exited_at,
                "cancel_called": s.cancel_called,
                "caught": s.caught,
                "deadline": s.deadline,
                "timeout_raised": s.timeout_raised,
            }
        return res


def simulate(program: list, ext: int | None = None, hints: dict[int, bool] | None = None) -> ModelResult:
    """Run the reference interpreter.  `hints[sid]` resolves the one choice the statement leaves open (which of two
    cancelled nested scopes catches); everything else is determined by the program."""
    return _Sim(program, ext, hints).run()
