"""placeholder"""
def scope_ids(program):
    out = {}
    def walk(body):
        for node in body:
            op = node[0]
            if op == "scope":
                out[id(node)] = len(out)
                walk(node[3])
            elif op == "shield":
                walk(node[1])
            elif op == "group":
                for c in node[1]:
                    walk(c)
                walk(node[2])
    walk(program)
    return out
