"""H1 — serializer zoo: every shipped serializer that can be imported here, the public base classes through
harness-defined subclasses, wrappers, composites and protocols with converters.

A *spec* is a JSON-able dict describing one configured serializer.  `build(spec)` returns an `Entry` with the
serializer instance, protocols, packet mapping and equality.  Packets inside cases are JSON-able values
(str / json values / tuples / bytes); `Entry.to_packet` maps them to what the application would send and
`Entry.expected` to what the receiving side must return.
"""

from __future__ import annotations

import collections
import dataclasses
import math
import struct as _struct
from io import BytesIO
from typing import IO, Any

from hypothesis import strategies as st

from easynetwork.converter import AbstractPacketConverter
from easynetwork.exceptions import DeserializeError, IncrementalDeserializeError, PacketConversionError
from easynetwork.protocol import BufferedStreamProtocol, DatagramProtocol, StreamProtocol
from easynetwork.serializers.abc import AbstractIncrementalPacketSerializer, BufferedIncrementalPacketSerializer
from easynetwork.serializers.base_stream import (
    AutoSeparatedPacketSerializer,
    FileBasedPacketSerializer,
    FixedSizePacketSerializer,
)
from easynetwork.serializers.composite import StapledPacketSerializer
from easynetwork.serializers.json import JSONEncoderConfig, JSONSerializer
from easynetwork.serializers.line import StringLineSerializer
from easynetwork.serializers.pickle import PickleSerializer
from easynetwork.serializers.struct import NamedTupleStructSerializer, StructSerializer
from easynetwork.serializers.tools import GeneratorStreamReader
from easynetwork.serializers.wrapper.base64 import Base64EncoderSerializer
from easynetwork.serializers.wrapper.compressor import BZ2CompressorSerializer, ZlibCompressorSerializer

from .core import HarnessError

DEFAULT_LIMIT = 65536
NEWLINES = {"LF": b"\n", "CR": b"\r", "CRLF": b"\r\n"}
B64_KEY = b"MDEyMzQ1Njc4OWFiY2RlZjAxMjM0NTY3ODlhYmNkZWY="  # base64 of 32 bytes, fixed test key


# ----------------------------------------------------------------------------------------------
# harness-defined subclasses of the public base classes


BAD_MARK = b"\xfe!bad"  # payloads starting with this make the harness serializers raise DeserializeError


class HAutoSep(AutoSeparatedPacketSerializer[bytes, bytes]):
    """identity payloads separated by `separator`; payloads starting with BAD_MARK are undecodable."""

    __slots__ = ()

    def serialize(self, packet: bytes) -> bytes:
        return bytes(packet)

    def deserialize(self, data: bytes) -> bytes:
        if data.startswith(BAD_MARK):
            raise DeserializeError("marked payload")
        return bytes(data)


class HFixed(FixedSizePacketSerializer[bytes, bytes]):
    __slots__ = ()

    def serialize(self, packet: bytes) -> bytes:
        return bytes(packet)

    def deserialize(self, data: bytes) -> bytes:
        if len(data) != self.packet_size:
            raise DeserializeError("size mismatch")
        if data.startswith(BAD_MARK[: self.packet_size]) and self.packet_size >= 2:
            raise DeserializeError("marked payload")
        return bytes(data)


class HFile(FileBasedPacketSerializer[bytes, bytes]):
    """What CBOR/MsgPack do through FileBasedPacketSerializer: a self-delimiting record read from a file object,
    EOFError on short reads.  Record = 2-byte big-endian length + payload; first payload byte 0xFF is invalid."""

    __slots__ = ()

    def __init__(self, *, limit: int = DEFAULT_LIMIT) -> None:
        super().__init__(expected_load_error=ValueError, limit=limit)

    def dump_to_file(self, packet: bytes, file: IO[bytes]) -> None:
        file.write(len(packet).to_bytes(2, "big") + bytes(packet))

    def load_from_file(self, file: IO[bytes]) -> bytes:
        header = file.read(2)
        if len(header) < 2:
            raise EOFError
        n = int.from_bytes(header, "big")
        payload = file.read(n)
        if len(payload) < n:
            raise EOFError
        if payload[:1] == b"\xff":
            raise ValueError("invalid record")
        return bytes(payload)


class HLenPrefixed(AbstractIncrementalPacketSerializer[bytes, bytes]):
    """Bare AbstractIncrementalPacketSerializer built on the three GeneratorStreamReader helpers; uses the default
    one-shot serialize()/deserialize() of serializers/abc.py.  Frame: b"<len>\\n" + payload + 1 trailer byte (sum&0xff)."""

    __slots__ = ("limit",)

    def __init__(self, *, limit: int = DEFAULT_LIMIT) -> None:
        super().__init__()
        self.limit = limit

    def incremental_serialize(self, packet: bytes):
        yield b"%d\n" % len(packet)
        if packet:
            yield bytes(packet)
        yield bytes([sum(packet) & 0xFF])

    def incremental_deserialize(self):
        reader = GeneratorStreamReader()
        header = yield from reader.read_until(b"\n", limit=16, keep_end=False)
        try:
            n = int(header.decode("ascii"))
            if n < 0 or n > self.limit or not header.isdigit():
                raise ValueError
        except (ValueError, UnicodeError):
            raise IncrementalDeserializeError("bad header", remaining_data=reader.read_all()) from None
        payload = yield from reader.read_exactly(n)
        trailer = yield from reader.read(1)
        remainder = reader.read_all()
        if trailer[0] != (sum(payload) & 0xFF):
            raise IncrementalDeserializeError("bad trailer", remaining_data=remainder)
        return payload, remainder


@dataclasses.dataclass(frozen=True)
class Wrapped:
    """application-level object produced by the harness converter"""

    dto: Any


class HConverter(AbstractPacketConverter[Wrapped, Any]):
    __slots__ = ()

    def create_from_dto_packet(self, packet: Any) -> Wrapped:
        if packet == "!bad" or packet == b"!bad" or (isinstance(packet, dict) and "!bad" in packet):
            raise PacketConversionError("marked packet")
        return Wrapped(packet)

    def convert_to_dto_packet(self, obj: Wrapped) -> Any:
        if not isinstance(obj, Wrapped):
            raise HarnessError(f"converter got {obj!r}")
        return obj.dto


class RestrictedUnpickler:
    """pickle.Unpickler that refuses every global lookup, so fuzzed bytes cannot run code."""

    def __new__(cls, file, **kwargs):  # noqa: ANN001
        import pickle

        class _U(pickle.Unpickler):
            def find_class(self, module, name):  # noqa: ANN001
                raise pickle.UnpicklingError(f"global {module}.{name} is forbidden")

        return _U(file, **kwargs)


def _make_restricted_py_unpickler() -> type:
    import pickle

    class RestrictedPyUnpickler(pickle._Unpickler):  # type: ignore[name-defined,misc]
        """pure-Python unpickler that refuses every global lookup.  Unlike the C unpickler its memo is a dict, so a
        PUT / LONG_BINPUT opcode with a huge index cannot make it allocate index*16 bytes (see mutate.pickle_put_index_max).
        Selected with {"kind": "pickle", "restricted": "py"}."""

        def find_class(self, module, name):  # noqa: ANN001
            raise pickle.UnpicklingError(f"global {module}.{name} is forbidden")

    return RestrictedPyUnpickler


RestrictedPyUnpickler = _make_restricted_py_unpickler()


_NT_CACHE: dict[tuple[str, ...], type] = {}


def _namedtuple_cls(nfields: int) -> type:
    names = tuple(f"f{i}" for i in range(nfields))
    if names not in _NT_CACHE:
        _NT_CACHE[names] = collections.namedtuple(f"NT{nfields}", names)  # type: ignore[misc]
    return _NT_CACHE[names]


# ----------------------------------------------------------------------------------------------
# strict equality (1 != True != 1.0; -0.0 != 0.0; tuples != lists)


def strict_eq(a: Any, b: Any) -> bool:
    if type(a) is not type(b):
        return False
    if isinstance(a, float):
        if a != a and b != b:
            return True
        return a == b and math.copysign(1.0, a) == math.copysign(1.0, b)
    if isinstance(a, (list, tuple)):
        return len(a) == len(b) and all(strict_eq(x, y) for x, y in zip(a, b))
    if isinstance(a, dict):
        return list(a.keys()) == list(b.keys()) and all(strict_eq(a[k], b[k]) for k in a)
    if isinstance(a, Wrapped):
        return strict_eq(a.dto, b.dto)
    return a == b


# ----------------------------------------------------------------------------------------------
# struct formats


_STRUCT_CODES = "bBhHiIqQfd?"
_INT_RANGES = {
    "b": (-128, 127),
    "B": (0, 255),
    "h": (-(2**15), 2**15 - 1),
    "H": (0, 2**16 - 1),
    "i": (-(2**31), 2**31 - 1),
    "I": (0, 2**32 - 1),
    "q": (-(2**63), 2**63 - 1),
    "Q": (0, 2**64 - 1),
}


def struct_fields(fmt_fields: list[str]) -> list[str]:
    return list(fmt_fields)


def st_struct_fields(*, named: bool = False) -> st.SearchStrategy[list[str]]:
    # NamedTupleStructSerializer only accepts alphabetic one-letter codes ("?" is refused by its constructor)
    codes = [c for c in _STRUCT_CODES if c.isalpha()] if named else list(_STRUCT_CODES)
    one = st.one_of(st.sampled_from(codes), st.integers(1, 12).map(lambda n: f"{n}s"))
    return st.lists(one, min_size=1, max_size=6)


def st_struct_value(code: str, *, text: bool = False) -> st.SearchStrategy[Any]:
    if code in _INT_RANGES:
        lo, hi = _INT_RANGES[code]
        return st.one_of(st.integers(lo, hi), st.sampled_from([lo, hi, 0, 10, 13]).filter(lambda v: lo <= v <= hi))
    if code == "f":
        return st.floats(width=32, allow_nan=False)
    if code == "d":
        return st.floats(allow_nan=False)
    if code == "?":
        return st.booleans()
    if code.endswith("s"):
        n = int(code[:-1] or "1")
        if text:
            # str whose utf-8 encoding fits in n bytes and does not end with NUL (trailing NULs are padding)
            return st.text(max_size=n).map(lambda s: _fit_utf8(s, n))
        return st.binary(min_size=n, max_size=n)
    raise HarnessError(code)


def _fit_utf8(s: str, n: int) -> str:
    while len(s.encode("utf-8")) > n:
        s = s[:-1]
    return s.rstrip("\0")


# ----------------------------------------------------------------------------------------------
# Entry


class Entry:
    def __init__(self, spec: dict) -> None:
        self.spec = spec
        self.kind: str = spec["kind"]
        self.conv: bool = bool(spec.get("conv"))
        self.serializer = _build_serializer(spec)
        self.converter = HConverter() if self.conv else None
        self.incremental = isinstance(self.serializer, AbstractIncrementalPacketSerializer)
        self.buffered = isinstance(self.serializer, BufferedIncrementalPacketSerializer)

    # protocols --------------------------------------------------------------
    def stream_protocol(self) -> StreamProtocol:
        return StreamProtocol(self.serializer, self.converter)

    def buffered_protocol(self) -> BufferedStreamProtocol:
        return BufferedStreamProtocol(self.serializer, self.converter)

    def datagram_protocol(self) -> DatagramProtocol:
        return DatagramProtocol(self.serializer, self.converter)

    # packets ------------------------------------------------------------------
    def to_dto(self, j: Any) -> Any:
        k = _leaf_kind(self.spec)
        if k == "namedtuple":
            return _namedtuple_cls(len(j))(*j)
        return j

    def to_packet(self, j: Any) -> Any:
        dto = self.to_dto(j)
        return Wrapped(dto) if self.conv else dto

    def expected(self, j: Any) -> Any:
        """what the receiving side must return for sent packet j"""
        dto = self.to_dto(j)
        leaf = _leaf_spec(self.spec)
        if leaf["kind"] == "line" and leaf.get("keep_end") and self._line_is_outer():
            dto = dto + NEWLINES[leaf["newline"]].decode("ascii")
        return Wrapped(dto) if self.conv else dto

    def _line_is_outer(self) -> bool:
        # keep_end only matters when the line serializer itself frames the stream (not when wrapped one-shot)
        s = self.spec
        while s["kind"] == "stapled":
            s = s["recv"]
        return s["kind"] == "line"

    def eq(self, received: Any, j: Any) -> bool:
        return strict_eq(received, self.expected(j))

    # framing info -------------------------------------------------------------
    @property
    def separator(self) -> bytes | None:
        s = self.spec
        while s["kind"] == "stapled":
            s = s["recv"]
        if s["kind"] == "line":
            return NEWLINES[s["newline"]]
        if s["kind"] == "json" and s.get("use_lines", True):
            return b"\n"
        if s["kind"] in ("autosep", "base64"):
            return s["separator"]
        return None

    @property
    def limit(self) -> int | None:
        s = self.spec
        while s["kind"] == "stapled":
            s = s["recv"]
        if s["kind"] in ("line", "json", "autosep", "base64", "hfile", "lenprefixed"):
            return s.get("limit", DEFAULT_LIMIT)
        return None

    def frame(self, j: Any) -> list[bytes]:
        return list(self.stream_protocol().generate_chunks(self.to_packet(j)))


def _leaf_spec(spec: dict) -> dict:
    s = spec
    while True:
        if s["kind"] == "stapled":
            s = s["recv"]
        elif s["kind"] in ("base64", "zlib", "bz2"):
            s = s["inner"]
        else:
            return s


def _leaf_kind(spec: dict) -> str:
    return _leaf_spec(spec)["kind"]


def _build_serializer(spec: dict) -> Any:
    k = spec["kind"]
    if k == "line":
        return StringLineSerializer(
            spec["newline"],
            encoding=spec.get("encoding", "ascii"),
            limit=spec.get("limit", DEFAULT_LIMIT),
            keep_end=spec.get("keep_end", False),
            unicode_errors=spec.get("uerr", "strict"),
            debug=bool(spec.get("debug")),
        )
    if k == "json":
        enc = JSONEncoderConfig(ensure_ascii=spec.get("ensure_ascii", True))
        return JSONSerializer(
            enc,
            encoding=spec.get("encoding", "utf-8"),
            limit=spec.get("limit", DEFAULT_LIMIT),
            use_lines=spec.get("use_lines", True),
            debug=bool(spec.get("debug")),
        )
    if k == "struct":
        return StructSerializer(spec["endian"] + "".join(spec["fields"]), debug=bool(spec.get("debug")))
    if k == "namedtuple":
        fields = spec["fields"]
        cls = _namedtuple_cls(len(fields))
        return NamedTupleStructSerializer(
            cls,
            {f"f{i}": f for i, f in enumerate(fields)},
            format_endianness=spec["endian"],
            encoding="utf-8",
            strip_string_trailing_nul_bytes=True,
            debug=bool(spec.get("debug")),
        )
    if k == "base64":
        return Base64EncoderSerializer(
            _build_serializer(spec["inner"]),
            alphabet=spec.get("alphabet", "urlsafe"),
            checksum={"none": False, "sha": True, "key": B64_KEY}[spec.get("checksum", "none")],
            separator=spec["separator"],
            limit=spec.get("limit", DEFAULT_LIMIT),
            debug=bool(spec.get("debug")),
        )
    if k == "zlib":
        return ZlibCompressorSerializer(_build_serializer(spec["inner"]), compress_level=spec.get("level"), debug=bool(spec.get("debug")))
    if k == "bz2":
        return BZ2CompressorSerializer(_build_serializer(spec["inner"]), compress_level=spec.get("level"), debug=bool(spec.get("debug")))
    if k == "pickle":
        if spec.get("restricted") == "py":
            return PickleSerializer(unpickler_cls=RestrictedPyUnpickler)  # type: ignore[arg-type]
        return PickleSerializer(unpickler_cls=RestrictedUnpickler if spec.get("restricted") else None)  # type: ignore[arg-type]
    if k == "stapled":
        return StapledPacketSerializer(_build_serializer(spec["sent"]), _build_serializer(spec["recv"]))
    if k == "autosep":
        return HAutoSep(
            spec["separator"], incremental_serialize_check_separator=spec.get("check", True), limit=spec.get("limit", DEFAULT_LIMIT)
        )
    if k == "fixed":
        return HFixed(spec["size"])
    if k == "hfile":
        return HFile(limit=spec.get("limit", DEFAULT_LIMIT))
    if k == "lenprefixed":
        return HLenPrefixed(limit=spec.get("limit", DEFAULT_LIMIT))
    raise HarnessError(f"unknown serializer kind {k!r}")


def build(spec: dict) -> Entry:
    return Entry(spec)


# ----------------------------------------------------------------------------------------------
# strategies: specs (without limit) and valid packets


SEPARATORS_1_3 = [b"\n", b"\r\n", b"|", b"\x00", b"::", b"ab", b"aa", b"\r\n\r", b"END", b"aba", b"\xff\xfe\xff", b"..."]
B64_SEPARATORS = [b"\r\n", b"\n", b"|", b" ", b"\t\n ", b"::", b"\x00", b"#!#"]


def st_text_for(encoding: str, forbidden: str | None, uerr: str = "strict") -> st.SearchStrategy[str]:
    if uerr == "surrogateescape":
        # escaped raw bytes that can never become part of a valid sequence in `encoding` (so every one of them decodes
        # back to the same lone surrogate): ascii - any byte >= 0x80; utf-8 - continuation bytes and 0xF8..0xFF
        raw = list(range(0x80, 0x100)) if encoding == "ascii" else list(range(0x80, 0xC0)) + list(range(0xF8, 0x100))
        esc = st.sampled_from([chr(0xDC00 + b) for b in raw])
        plain = st.characters(min_codepoint=32, max_codepoint=126)
        base = st.lists(st.one_of(esc, plain, plain), min_size=1, max_size=30).map("".join)
        return st.one_of(base, st_text_for(encoding, None)).map(lambda s: _strip_forbidden(s, forbidden)).filter(lambda s: len(s) > 0)
    if encoding == "ascii":
        alpha = st.characters(min_codepoint=0, max_codepoint=127)
    elif encoding == "latin-1":
        alpha = st.characters(min_codepoint=0, max_codepoint=255)
    else:
        alpha = st.characters(codec="utf-8")
    base = st.one_of(
        st.text(alpha, min_size=1, max_size=40),
        st.text(st.sampled_from(list("ab\r\n\té€😀 \\\"{}[]")).filter(lambda c: _encodable(c, encoding)), min_size=1, max_size=12),
    )
    return base.map(lambda s: _strip_forbidden(s, forbidden)).filter(lambda s: len(s) > 0)


def _encodable(c: str, encoding: str) -> bool:
    try:
        c.encode(encoding)
    except UnicodeError:
        return False
    return True


def _strip_forbidden(s: str, forbidden: str | None) -> str:
    """Remove occurrences of the separator by construction (documented precondition: the separator is not inside
    the payload), including an occurrence that would be created by removing one."""
    while forbidden and forbidden in s:
        s = s.replace(forbidden, "")
    return s


def st_json_value(*, ascii_only: bool, max_leaves: int = 12) -> st.SearchStrategy[Any]:
    chars = st.characters(max_codepoint=127) if ascii_only else st.characters(codec="utf-8")
    special = st.text(st.sampled_from(list('\\"{}[]\n\r\t ,:é€😀a0')), max_size=10)
    text = st.one_of(st.text(chars, max_size=20), special)
    if ascii_only:
        text = st.one_of(st.text(chars, max_size=20), st.text(st.sampled_from(list('\\"{}[]\n\r\t ,:a0')), max_size=10))
    leaves = st.one_of(
        st.none(),
        st.booleans(),
        st.integers(-(2**70), 2**70),
        st.floats(allow_nan=False, allow_infinity=False),
        text,
    )
    return st.recursive(
        leaves,
        lambda children: st.one_of(st.lists(children, max_size=5), st.dictionaries(text, children, max_size=5)),
        max_leaves=max_leaves,
    )


def st_bytes_payload(sep: bytes | None, *, min_size: int = 1, max_size: int = 40) -> st.SearchStrategy[bytes]:
    """bytes payloads; biased towards bytes of the separator so that near-misses are frequent.  The documented
    precondition 'separator not inside the payload' is ensured by construction, in its exact form
    (payload + separator).find(separator) == len(payload)."""
    if sep is None:
        return st.binary(min_size=min_size, max_size=max_size)
    alphabet = sorted(set(sep)) + [0x61, 0x0A, 0x0D, 0x00, 0xFF]
    base = st.one_of(
        st.binary(min_size=min_size, max_size=max_size),
        st.lists(st.sampled_from(alphabet), min_size=min_size, max_size=max(min_size, 16)).map(bytes),
    )

    def fix(p: bytes) -> bytes:
        # drop bytes until the first occurrence of sep in p+sep is at len(p)
        guard = 0
        while (p + sep).find(sep) != len(p):
            idx = (p + sep).find(sep)
            p = p[:idx] + p[idx + 1 :]
            guard += 1
            if guard > 1000:
                raise HarnessError("fix loop")
        return p

    return base.map(fix).filter(lambda p: len(p) >= min_size and not p.startswith(BAD_MARK))


@st.composite
def st_leaf_spec(draw: st.DrawFn, *, kinds: list[str] | None = None) -> dict:
    """one-shot capable 'inner' serializers (for wrappers) and leaf stream serializers; no limit key yet."""
    k = draw(st.sampled_from(kinds or ["line", "json", "struct", "namedtuple", "autosep", "fixed", "hfile", "lenprefixed"]))
    if k == "line":
        spec = {
            "kind": "line",
            "newline": draw(st.sampled_from(["LF", "CR", "CRLF"])),
            "encoding": draw(st.sampled_from(["ascii", "utf-8", "latin-1"])),
            "keep_end": draw(st.booleans()),
        }
        if spec["encoding"] != "latin-1" and draw(st.integers(0, 3)) == 0:
            # a non-strict error handler is part of the serializer's configuration on every encode/decode site:
            # with surrogateescape, text carrying escaped raw bytes round-trips (see st_text_for)
            spec["uerr"] = "surrogateescape"
        return spec
    if k == "json":
        ensure_ascii = draw(st.booleans())
        return {
            "kind": "json",
            "use_lines": draw(st.booleans()),
            "ensure_ascii": ensure_ascii,
            "encoding": draw(st.sampled_from(["utf-8", "ascii"])) if ensure_ascii else "utf-8",
        }
    if k in ("struct", "namedtuple"):
        return {"kind": k, "endian": draw(st.sampled_from(["", "<", ">", "!", "=", "@"])), "fields": draw(st_struct_fields(named=(k == "namedtuple")))}
    if k == "autosep":
        return {"kind": "autosep", "separator": draw(st.sampled_from(SEPARATORS_1_3)), "check": draw(st.booleans())}
    if k == "fixed":
        return {"kind": "fixed", "size": draw(st.integers(1, 24))}
    if k == "hfile":
        return {"kind": "hfile"}
    if k == "lenprefixed":
        return {"kind": "lenprefixed"}
    if k == "pickle":
        return {"kind": "pickle", "restricted": True}
    raise HarnessError(k)


@st.composite
def st_stream_spec(draw: st.DrawFn, *, kinds: list[str] | None = None) -> dict:
    """any serializer usable on a stream (incremental), incl. wrappers, composites, converter flag."""
    top = draw(
        st.sampled_from(
            kinds or ["line", "json", "struct", "namedtuple", "autosep", "fixed", "hfile", "lenprefixed", "base64", "zlib", "bz2", "stapled"]
        )
    )
    if top == "base64":
        spec: dict = {
            "kind": "base64",
            "inner": draw(st_leaf_spec(kinds=["line", "json", "struct", "namedtuple", "pickle", "hfile"])),
            "alphabet": draw(st.sampled_from(["standard", "urlsafe"])),
            "checksum": draw(st.sampled_from(["none", "sha", "key"])),
            "separator": draw(st.sampled_from(B64_SEPARATORS)),
        }
    elif top in ("zlib", "bz2"):
        spec = {
            "kind": top,
            "inner": draw(st_leaf_spec(kinds=["line", "json", "struct", "namedtuple", "pickle", "hfile", "lenprefixed"])),
            "level": draw(st.sampled_from([None, 1, 6, 9])),
        }
    elif top == "stapled":
        inner = draw(st_stream_spec(kinds=["line", "json", "struct", "autosep", "hfile", "lenprefixed", "zlib"]))
        spec = {"kind": "stapled", "sent": inner, "recv": inner}
    else:
        spec = draw(st_leaf_spec(kinds=[top]))
    if draw(st.integers(0, 5)) == 0:
        spec = dict(spec, conv=True)
    if draw(st.integers(0, 3)) == 0:
        spec = with_debug(spec)
    return spec


def with_debug(spec: dict) -> dict:
    """debug=True on every serializer of the spec that has the option (error_info is filled in on parse errors)"""
    out = dict(spec)
    if spec["kind"] in ("line", "json", "struct", "namedtuple", "base64", "zlib", "bz2"):
        out["debug"] = True
    for key in ("inner", "sent", "recv"):
        if key in spec:
            out[key] = with_debug(spec[key])
    return out


def _converter_refuses(j: Any) -> bool:
    return j == "!bad" or j == b"!bad" or (isinstance(j, dict) and "!bad" in j)


def st_packet(spec: dict) -> st.SearchStrategy[Any]:
    """JSON-able valid packet for `spec` (size not yet checked against the limit: the limit is drawn afterwards)."""
    if spec.get("conv"):
        # the harness converter refuses its marker values: they are not *valid* packets of a protocol with that converter
        # (false alarm of the thorough tier: hfile + converter + packet b"!bad")
        return st_packet({k: v for k, v in spec.items() if k != "conv"}).filter(lambda j: not _converter_refuses(j))
    k = spec["kind"]
    if k == "stapled":
        return st_packet(spec["sent"])
    if k in ("base64", "zlib", "bz2"):
        inner = spec["inner"]
        if inner["kind"] == "line":
            # one-shot line serializer: any text round-trips unless keep_end is False and it ends with the newline
            nl = NEWLINES[inner["newline"]].decode()
            strat = st_text_for(inner["encoding"], None, inner.get("uerr", "strict")).map(lambda s: s.rstrip(nl) if not inner.get("keep_end") else s)
            return strat.filter(lambda s: len(s) > 0)
        return st_packet(inner)
    if k == "line":
        return st_text_for(spec["encoding"], NEWLINES[spec["newline"]].decode(), spec.get("uerr", "strict"))
    if k == "json":
        return st_json_value(ascii_only=False)
    if k == "struct":
        return st.tuples(*[st_struct_value(c) for c in spec["fields"]])
    if k == "namedtuple":
        return st.tuples(*[st_struct_value(c, text=True) for c in spec["fields"]])
    if k == "autosep":
        return st_bytes_payload(spec["separator"])
    if k == "fixed":
        n = spec["size"]
        return st.binary(min_size=n, max_size=n).filter(lambda p: not (n >= 2 and p.startswith(BAD_MARK[:n])))
    if k == "hfile":
        return st.binary(max_size=60).filter(lambda p: p[:1] != b"\xff")
    if k == "lenprefixed":
        return st.binary(max_size=60)
    if k == "pickle":
        return st_json_value(ascii_only=False, max_leaves=8)
    raise HarnessError(k)


def with_limit(spec: dict, limit: int) -> dict:
    """set the limit on the framing serializer(s) of spec (outermost limit-bearing layer; both halves of stapled)."""
    k = spec["kind"]
    if k == "stapled":
        return dict(spec, sent=with_limit(spec["sent"], limit), recv=with_limit(spec["recv"], limit))
    if k in ("line", "json", "autosep", "base64", "hfile", "lenprefixed"):
        return dict(spec, limit=limit)
    return spec


def has_limit(spec: dict) -> bool:
    k = spec["kind"]
    if k == "stapled":
        return has_limit(spec["recv"])
    return k in ("line", "json", "autosep", "base64", "hfile", "lenprefixed")


def seplen_for_limit(entry: Entry) -> int:
    sep = entry.separator
    return len(sep) if sep is not None else 0


def safe_limit_for(entry: Entry, frames: list[bytes]) -> int:
    """smallest limit under which every frame is *safely under* (DESIGN C07): T <= limit - seplen - 1."""
    tmax = max((len(f) for f in frames), default=1)
    return max(tmax + seplen_for_limit(entry) + 1, 1)
