"""Byte-level input sources for the totality check (C06): random bytes, mutations of valid streams, structurally
extreme input; plus the two receive drivers with per-output progress accounting.

Input data inside a case is a list of parts ``[unit: bytes, count: int]`` (run-length form, so that a 64 KiB run of
brackets stays a two-item case); `materialize` joins them.
"""

from __future__ import annotations

import base64
import bz2
import hashlib
import hmac
import zlib
from typing import Any

from hypothesis import strategies as st

from easynetwork.exceptions import IncrementalDeserializeError, PacketConversionError, StreamProtocolParseError
from easynetwork.lowlevel._stream import BufferedStreamDataConsumer, StreamDataConsumer

from . import zoo
from .core import HarnessError, Violation

# ----------------------------------------------------------------------------------------------
# parts


def materialize(parts: list) -> bytes:
    return b"".join(bytes(u) * int(c) for u, c in parts)


def parts_len(parts: list) -> int:
    return sum(len(u) * int(c) for u, c in parts)


# ----------------------------------------------------------------------------------------------
# spec helpers


def leaf_kinds(spec: dict) -> set[str]:
    """all serializer kinds that take part in decoding (receiving half of stapled; wrappers and their inner)"""
    k = spec["kind"]
    if k == "stapled":
        return {"stapled"} | leaf_kinds(spec["recv"])
    if k in ("base64", "zlib", "bz2"):
        return {k} | leaf_kinds(spec["inner"])
    return {k}


def recv_spec(spec: dict) -> dict:
    while spec["kind"] == "stapled":
        spec = spec["recv"]
    return spec


def separator_of(spec: dict) -> bytes | None:
    s = recv_spec(spec)
    if s["kind"] == "line":
        return zoo.NEWLINES[s["newline"]]
    if s["kind"] == "json":
        return b"\n"
    if s["kind"] in ("autosep", "base64"):
        return s["separator"]
    return None


def wrap_bytes(spec: dict, inner: bytes, *, stream: bool) -> bytes:
    """encode raw inner bytes the way the wrapper serializer of `spec` would (harness-side, stdlib only), so that
    malformed / extreme *inner* documents reach the wrapped serializer behind a well-formed envelope"""
    s = recv_spec(spec)
    k = s["kind"]
    if k == "base64":
        data = inner
        cs = s.get("checksum", "none")
        if cs == "sha":
            data += hashlib.sha256(data).digest()
        elif cs == "key":
            data += hmac.digest(base64.urlsafe_b64decode(zoo.B64_KEY), data, "sha256")
        enc = base64.standard_b64encode(data) if s.get("alphabet", "urlsafe") == "standard" else base64.urlsafe_b64encode(data)
        return enc + (s["separator"] if stream else b"")
    if k == "zlib":
        return zlib.compress(inner, 1)
    if k == "bz2":
        return bz2.compress(inner, 1)
    raise HarnessError(f"wrap_bytes on {k}")


def is_wrapper(spec: dict) -> bool:
    return recv_spec(spec)["kind"] in ("base64", "zlib", "bz2")


# ----------------------------------------------------------------------------------------------
# token alphabets


_JSON_TOKENS = [
    b"[", b"]", b"{", b"}", b'"', b"\\", b",", b":", b"1", b"0", b"-", b".", b"e", b"E", b"+", b" ", b"\n", b"\t", b"\r",
    b"null", b"true", b"fals", b'"a":', b"[1,", b'{"a":', b"\\u00e9", b"\\ud800", b"\\u", b"\xc3\xa9", b"\xc3", b"\xff", b"\x00",
    b"NaN", b"Infinity", b"1e", b'\\"', b"[]", b"{}", b'""', b"1.5", b"'", b"\xef\xbb\xbf",
]  # fmt: skip
_PICKLE_TOKENS = [
    b"\x80\x04", b"\x80\x05", b"\x80\x02", b"]", b"(", b"a", b"e", b".", b"N", b"I1\n", b"I", b"}", b"\x94", b"h\x00", b"0", b"2", b"1",
    b"cos\nsystem\n", b"\x93", b"R", b"K\x01", b"\x8c\x01a", b"\x95\x02\x00\x00\x00\x00\x00\x00\x00", b"J\xff\xff\xff\x7f",
    b"\x8a\x01\x01", b"B\xff\xff\xff\x7f", b"T\xff\xff\xff\x7f", b"\x8e\xff\xff\xff\xff\xff\xff\xff\x7f", b"\x8d\xff\xff\xff\xff\xff\xff\xff\x7f",
    b"X\x01\x00\x00\x00a", b"t", b"\x85", b"s", b"u", b"b", b"\x81", b"\x92", b"P0\n", b"Q", b"\x82\x01", b"o", b"i", b"\x8b\x04\x00\x00\x00", b"\n",
    b"V\\u", b"S'", b"L1L\n", b"F1e", b"\x96\xff\xff\xff\xff\xff\xff\xff\x7f", b"\x97", b"\x98", b"j\x00\x00\x00\x00", b"q\x00", b"\x88",
]  # fmt: skip


def tokens_for(spec: dict) -> list[bytes]:
    s = recv_spec(spec)
    k = s["kind"]
    sep = separator_of(spec)
    generic = [b"\x00", b"\xff", b"a", b"\n", b" "]
    if k == "json":
        return _JSON_TOKENS
    if k == "line":
        assert sep is not None
        return [sep, sep[:1], sep[-1:], b"a", b"\xff", b"\xc3", b"\xe2\x82\xac", b"\xe2\x82", b" ", b"\x00", b"\x80", b"\r", b"\n"]
    if k == "autosep":
        assert sep is not None
        return [sep, sep[:-1] or sep, sep[1:] or sep, sep[:1], sep[-1:], b"a", zoo.BAD_MARK, b"\x00", b"\xff"]
    if k == "base64":
        assert sep is not None
        return [sep, sep[:1], sep[-1:], b"=", b"A", b"QUJD", b"-", b"_", b"+", b"/", b"*", b"\xff", b"AA==", b"A===", b"QQ", b"\n", b" ", b"\x00"]
    if k in ("struct", "namedtuple", "fixed"):
        return [b"\x00", b"\xff", b"\x80", b"a", b"\xc3", b"\xc3\xa9", zoo.BAD_MARK, b"\x7f", b"\x01"]
    if k == "hfile":
        return [b"\x00\x00", b"\x00\x01a", b"\xff\xff", b"\x00\x01\xff", b"\x00", b"a", b"\xff", b"\x00\x02ab", b"\x01\x00"]
    if k == "lenprefixed":
        return [b"0\n\x00", b"1\naa", b"9", b"\n", b"-1\n", b"99999999\n", b"0", b"\xb2", b" 1\n", b"+1\n", b"1_0\n", b"2\n", b"a", b"\x00", b"65536\n", b"70000\n"]
    if k == "zlib":
        return [zlib.compress(b""), zlib.compress(b"a\n"), b"\x78\x9c", b"\x78", b"\x00", b"\xff", b"\x03\x00", b"\x78\x01", b"a"]
    if k == "bz2":
        return [bz2.compress(b""), bz2.compress(b"a\n"), b"BZh9", b"BZh", b"1AY&SY", b"\x17rE8P\x90", b"\x00", b"\xff", b"a"]
    if k == "pickle":
        return _PICKLE_TOKENS
    return generic


def inner_spec(spec: dict) -> dict | None:
    s = recv_spec(spec)
    return s["inner"] if s["kind"] in ("base64", "zlib", "bz2") else None


# ----------------------------------------------------------------------------------------------
# sources


def st_random_bytes(spec: dict, max_size: int) -> st.SearchStrategy[bytes]:
    toks = tokens_for(spec)
    return st.one_of(
        st.binary(max_size=min(max_size, 200)),
        st.lists(st.sampled_from(toks), max_size=40).map(b"".join),
        st.lists(st.one_of(st.sampled_from(toks), st.binary(min_size=1, max_size=3)), max_size=30).map(b"".join),
    )


_BAD_UTF8 = [b"\xff", b"\xc3", b"\xed\xa0\x80", b"\xf8\x88\x80\x80\x80", b"\xc0\xaf", b"\xe2\x82", b"\x80", b"\xf4\x90\x80\x80"]


@st.composite
def st_mutation_ops(draw: st.DrawFn, spec: dict) -> list[tuple]:
    toks = tokens_for(spec)
    op = st.one_of(
        st.tuples(st.just("trunc"), st.integers(0, 1 << 20)),
        st.tuples(st.just("flip"), st.integers(0, 1 << 20), st.integers(0, 7)),
        st.tuples(st.just("ins"), st.integers(0, 1 << 20), st.one_of(st.binary(min_size=1, max_size=4), st.sampled_from(toks))),
        st.tuples(st.just("del"), st.integers(0, 1 << 20), st.integers(1, 6)),
        st.tuples(st.just("set"), st.integers(0, 1 << 20), st.sampled_from([0x00, 0xFF, 0x22, 0x5C, 0x0A, 0x0D, 0x3D, 0x5B, 0x7B, 0x80])),
        st.tuples(st.just("dupsep"), st.integers(0, 64)),
        st.tuples(st.just("delsep"), st.integers(0, 64)),
        st.tuples(st.just("utf8"), st.integers(0, 1 << 20), st.sampled_from(_BAD_UTF8)),
        st.tuples(st.just("dupslice"), st.integers(0, 1 << 20), st.integers(1, 40)),
        st.tuples(st.just("tail"), st.integers(0, 1 << 20)),
    )
    return draw(st.lists(op, min_size=1, max_size=4))


def apply_ops(data: bytes, ops: list[tuple], sep: bytes | None) -> bytes:
    b = bytearray(data)
    for op in ops:
        name = op[0]
        n = len(b)
        if name == "trunc":
            del b[op[1] % (n + 1) :]
        elif name == "tail":
            del b[: op[1] % (n + 1)]
        elif name == "flip" and n:
            b[op[1] % n] ^= 1 << op[2]
        elif name == "ins" or name == "utf8":
            p = op[1] % (n + 1)
            b[p:p] = op[2]
        elif name == "del" and n:
            p = op[1] % n
            del b[p : p + op[2]]
        elif name == "set" and n:
            b[op[1] % n] = op[2]
        elif name == "dupslice" and n:
            p = op[1] % n
            b[p:p] = b[p : p + op[2]]
        elif name in ("dupsep", "delsep") and sep:
            occ = []
            i = bytes(b).find(sep)
            while i != -1 and len(occ) < 65:
                occ.append(i)
                i = bytes(b).find(sep, i + len(sep))
            if occ:
                p = occ[op[1] % len(occ)]
                if name == "dupsep":
                    b[p:p] = sep
                else:
                    del b[p : p + len(sep)]
    return bytes(b)


@st.composite
def st_extreme_parts(draw: st.DrawFn, spec: dict, budget: int) -> list:
    """1-5 runs (unit x count) of tokens of the receiving serializer; total size <= budget"""
    toks = tokens_for(spec)
    unit = st.one_of(st.sampled_from(toks), st.lists(st.sampled_from(toks), min_size=2, max_size=3).map(b"".join))
    nparts = draw(st.integers(1, 5))
    parts = []
    left = max(1, budget)
    for _ in range(nparts):
        u = draw(unit)
        if not u:
            continue
        top = max(1, left // len(u))
        c = draw(st.one_of(st.integers(1, 4), st.integers(1, top), st.sampled_from([top, max(1, top // 2), max(1, top - 1)])))
        c = min(c, top)
        parts.append([u, c])
        left -= len(u) * c
        if left <= 0:
            break
    if not parts:
        parts = [[toks[0], 1]]
    return parts


def json_templates(n: int) -> list[list]:
    """named structurally extreme JSON documents of 'size' n (nesting depth / token length)"""
    return [
        [[b"[", n], [b"]", n]],
        [[b'{"a":', n], [b"1", 1], [b"}", n]],
        [[b"[", n]],
        [[b'[{"a":', n], [b"0", 1], [b"}]", n]],
        [[b"1", n]],
        [[b"-", 1], [b"9", n]],
        [[b"[", 1], [b"7", n], [b"]", 1]],
        [[b"1.", 1], [b"1", n]],
        [[b"1e", 1], [b"9", n]],
        [[b'"', 1], [b"a", n], [b'"', 1]],
        [[b'"', 1], [b"\\\\", n], [b'"', 1]],
        [[b'"', 1], [b"\\", n], [b'"', 1]],
        [[b'"', 1], [b'\\"', n]],
        [[b'{"', 1], [b"k", n], [b'":1}', 1]],
        [[b"[", 1], [b"1,", n], [b"1]", 1]],
        [[b" ", n], [b"[]", 1]],
        [[b"[]", 1], [b" ", n]],
        [[b"\n", n]],
        [[b"[]\n", n]],
        [[b'"\\u00e9', n], [b'"', 1]],
        [[b"[", n], [b'"]"', 1], [b"]", n]],
    ]


def naive_depth(data: bytes) -> int:
    """upper bound on bracket nesting of any JSON document inside data (strings ignored, closers clamp at 0)"""
    depth = best = 0
    for ch in data:
        if ch == 0x5B or ch == 0x7B:
            depth += 1
            if depth > best:
                best = depth
        elif (ch == 0x5D or ch == 0x7D) and depth:
            depth -= 1
    return best


def max_digit_run(data: bytes) -> int:
    best = run = 0
    for ch in data:
        if 0x30 <= ch <= 0x39:
            run += 1
            if run > best:
                best = run
        else:
            run = 0
    return best


PICKLE_MEMO_INDEX_MAX = 100_000


def pickle_put_index_max(data: bytes) -> int:
    """largest memo index written by a PUT / BINPUT / LONG_BINPUT opcode in the opcode stream of `data` (scanned with
    pickletools up to the first malformed opcode; pickle has no jumps, so the unpickler executes a prefix of this stream).

    CPython's C unpickler keeps its memo in an array and resizes it to 2*index entries: b"N" + b"r" + 4 index bytes makes
    it allocate and clear up to 32 GiB.  That is a resource bomb inside the stdlib unpickler (the PickleSerializer
    documentation refers to pickle's security considerations), not a parsing property of this library; inputs above
    PICKLE_MEMO_INDEX_MAX are kept away from the C unpickler."""
    import pickletools

    best = 0
    try:
        for op, arg, _pos in pickletools.genops(data):
            if op.name in ("PUT", "BINPUT", "LONG_BINPUT") and isinstance(arg, int) and arg > best:
                best = arg
    except Exception:  # noqa: BLE001  (malformed tail: the unpickler stops there too)
        pass
    return best


def pickle_policy(spec: dict) -> dict:
    """Pickle serializers nested inside a wrapper get the pure-Python restricted unpickler (their bytes only exist after
    the wrapper decoded them, so they cannot be scanned beforehand); a top-level Pickle serializer keeps the C one and
    its inputs are scanned with pickle_put_index_max."""
    k = spec["kind"]
    if k == "stapled":
        return dict(spec, sent=pickle_policy(spec["sent"]), recv=pickle_policy(spec["recv"]))
    if k in ("base64", "zlib", "bz2"):
        inner = spec["inner"]
        if inner["kind"] == "pickle":
            return dict(spec, inner=dict(inner, restricted="py"))
        return spec
    return spec


def scans_as_pickle(spec: dict) -> bool:
    """True if input bytes go straight to the C unpickler (top-level Pickle, or both halves of a stapled one)"""
    s = recv_spec(spec)
    return s["kind"] == "pickle" and s.get("restricted") != "py"


def scale_parts(parts: list, num: int, den: int) -> list:
    return [[u, max(1, (c * num) // den) if c > 1 else c] for u, c in parts]


# ----------------------------------------------------------------------------------------------
# receive drivers with progress accounting


def _root(exc: BaseException) -> BaseException:
    """the exception the protocol/serializer actually raised (consumers wrap it in RuntimeError('... crashed'))"""
    if isinstance(exc, RuntimeError) and "crashed" in str(exc) and exc.__cause__ is not None:
        return exc.__cause__
    return exc


def escaped(exc: BaseException, mode: str, info: dict) -> Violation:
    root = _root(exc)
    return Violation(
        "escaped-exception",
        f"{mode}: {type(root).__name__}: {str(root)[:200]} escaped (surfaced as {type(exc).__name__}: {str(exc)[:120]})",
        exc_type=type(root).__name__,
        surfaced_as=type(exc).__name__,
        mode=mode,
        **info,
    )


def error_tag(err: BaseException) -> str:
    """coarse label of the error path taken (text before the first ':' of the message), for coverage counters only"""
    msg = str(err).split(":", 1)[0].strip().lower()
    return "-".join(msg.split()[:5])[:48] or "empty-message"


class _Acct:
    def __init__(self, total: int, mode: str, info: dict) -> None:
        self.pending = 0  # unparsed bytes: remainder of the last output + bytes fed since
        self.outputs: list[tuple] = []
        self.budget = total + 1
        self.mode = mode
        self.info = info

    def fed(self, n: int) -> None:
        self.pending += n

    def error(self, exc: StreamProtocolParseError) -> None:
        if type(exc) is not StreamProtocolParseError or not isinstance(exc.error, (IncrementalDeserializeError, PacketConversionError)):
            raise Violation("error-type", f"{self.mode}: {type(exc).__name__}({type(exc.error).__name__})", mode=self.mode, **self.info)
        try:
            r = len(bytes(exc.remaining_data))
        except TypeError:
            raise Violation("no-remainder", f"{self.mode}: remaining_data is {type(exc.remaining_data).__name__}", mode=self.mode, **self.info) from None
        if r >= self.pending:
            raise Violation(
                "no-progress",
                f"{self.mode}: {type(exc.error).__name__} left a remainder of {r} bytes, but only {self.pending} unparsed bytes were held",
                mode=self.mode,
                error=type(exc.error).__name__,
                **self.info,
            )
        self.pending = r
        self._out(("err", type(exc.error).__name__, r, error_tag(exc.error)))

    def packet(self, pkt: Any, r: int) -> None:
        if r > self.pending:
            raise Violation("remainder-grew", f"{self.mode}: a packet left {r} bytes, only {self.pending} were held", mode=self.mode, **self.info)
        self.pending = r
        self._out(("pkt", pkt))

    def _out(self, o: tuple) -> None:
        self.outputs.append(o)
        if len(self.outputs) > self.budget:
            raise Violation("no-progress", f"{self.mode}: more than len(input)+1 = {self.budget} outputs", mode=self.mode, **self.info)


def drive_a(protocol: Any, chunks: list[bytes], info: dict) -> list[tuple]:
    """copying path, exactly the call pattern of _DataReceiverImpl.receive in a skip-errors loop"""
    consumer = StreamDataConsumer(protocol)
    acct = _Acct(sum(len(c) for c in chunks), "incremental", info)

    def pump(feed: bytes | None) -> bool:
        if feed:
            acct.fed(len(feed))
        try:
            pkt = consumer.next(feed)
        except StopIteration:
            return False
        except StreamProtocolParseError as exc:
            acct.error(exc)
            return True
        except Violation:
            raise
        except BaseException as exc:  # noqa: BLE001
            raise escaped(exc, "incremental", info) from exc
        acct.packet(pkt, len(consumer.get_buffer()))
        return True

    try:
        for chunk in chunks:
            while pump(None):
                pass
            pump(chunk)
        while pump(None):
            pass
    finally:
        consumer.clear()
    return acct.outputs


def drive_b(protocol: Any, stream: bytes, fills: list[int], sizehint: int, info: dict) -> list[tuple]:
    """buffer-filling path, exactly the call pattern of _BufferedReceiverImpl.receive in a skip-errors loop"""
    consumer = BufferedStreamDataConsumer(protocol, sizehint)
    acct = _Acct(len(stream), "buffered", info)
    if not fills:
        raise HarnessError("empty fills")

    def pump(n: int | None) -> bool:
        if n:
            acct.fed(n)
        try:
            pkt = consumer.next(n)
        except StopIteration:
            return False
        except StreamProtocolParseError as exc:
            acct.error(exc)
            return True
        except Violation:
            raise
        except BaseException as exc:  # noqa: BLE001
            raise escaped(exc, "buffered", info) from exc
        nleft = getattr(consumer, "_BufferedStreamDataConsumer__already_written", None)
        if nleft is None:
            raise HarnessError("BufferedStreamDataConsumer.__already_written is gone")
        acct.packet(pkt, nleft)
        return True

    pos = 0
    i = 0
    try:
        while pos < len(stream):
            while pump(None):
                pass
            try:
                wbuf = consumer.get_write_buffer()
            except BaseException as exc:  # noqa: BLE001
                raise escaped(exc, "buffered", info) from exc
            with memoryview(wbuf) as buf:
                avail = buf.nbytes
                if avail <= 0:
                    raise Violation("zero-buffer", "get_write_buffer() returned an empty buffer", **info)
                n = min(max(1, fills[i % len(fills)]), avail, len(stream) - pos)
                buf[:n] = stream[pos : pos + n]
            i += 1
            pos += n
            pump(n)
        while pump(None):
            pass
    finally:
        consumer.clear()
    return acct.outputs


# ----------------------------------------------------------------------------------------------
# well-formed pickle opcode programs whose *execution* fails in assorted ways


def st_pickle_ops():  # noqa: ANN201
    """Pickle streams built from complete, well-formed opcodes (no globals, no persistent ids, no PUT with an explicit
    index: nothing that can import, call user code or allocate) whose execution mostly fails *inside the unpickler's stack
    machine*: TypeError (None called, None subscripted, unhashable key), AttributeError, IndexError (empty stack), KeyError /
    UnpicklingError (memo miss), ... - exception classes a too narrow `except` in a one-shot deserializer lets through."""
    from hypothesis import strategies as st

    values = st.one_of(
        st.sampled_from([b"N", b"]", b"}", b")", b"\x88", b"\x89", b"\x8f"]),
        st.integers(0, 255).map(lambda i: b"K" + bytes([i])),
        st.sampled_from([b"\x8c\x01a", b"C\x01x", b"G\x3f\xf0\x00\x00\x00\x00\x00\x00", b"\x8a\x01\x7f"]),
    )
    # statements respect the stack discipline (operands first), so that failures come from the operands' types rather than
    # from stack underflow; a minority of free-form opcodes keeps underflow / mark errors in the mix
    arity = {b"R": 2, b"s": 3, b"a": 2, b"b": 2, b"\x81": 2, b"\x92": 3, b"\x85": 1, b"\x86": 2, b"\x87": 3, b"0": 1, b"2": 1, b"\x94": 1}
    marked = [b"t", b"l", b"d", b"u", b"e", b"\x90", b"\x91", b"1"]

    def statement(op: bytes):  # noqa: ANN202
        return st.lists(values, min_size=arity[op], max_size=arity[op]).map(lambda vs: b"".join(vs) + op)

    def marked_statement(op: bytes):  # noqa: ANN202
        # target object (for u / e / \x90), mark, items, opcode
        return st.tuples(values, st.lists(values, max_size=4)).map(lambda t: t[0] + b"(" + b"".join(t[1]) + op)

    stmt = st.one_of(
        st.sampled_from(sorted(arity)).flatmap(statement),
        st.sampled_from(sorted(arity)).flatmap(statement),
        st.sampled_from(marked).flatmap(marked_statement),
        st.integers(0, 3).map(lambda i: b"h" + bytes([i])),
        st.sampled_from([b"R", b"s", b"a", b"b", b"0", b"(", b"t", b"u", b"e"]),
        values,
    )
    body = st.lists(stmt, min_size=1, max_size=5).map(b"".join)
    head = st.sampled_from([b"", b"\x80\x02", b"\x80\x04", b"\x80\x05"])
    curated = st.sampled_from([b"N)R.", b"NNNs.", b"}]Ns.", b"N]a.", b"NNb.", b"N)\x81.", b"h\x07.", b"0.", b"(NNu.", b"K\x01K\x02e.", b"]K\x01\x90.", b"}}Ns."])
    return st.one_of(curated, st.tuples(head, body).map(lambda t: t[0] + t[1] + b"."))
