"""C02 — parsing depends only on the bytes; one bad frame costs exactly one error (DESIGN.md section 3, C02).

A case is a stream built from complete frames (valid / undecodable / in-the-band / oversized), two partitions for the
copying path, fill sizes + size hint for the buffered path.  The oracle is the frame-by-frame reference decoder of
pbt/refdecode.py plus the decomposition matcher described in DESIGN C02.
"""

from __future__ import annotations

import json
import os
from typing import Any

from hypothesis import strategies as st

from .. import drivers, refdecode, tracedrv, zoo
from ..core import Check, HarnessError, Layer, Outcome, Violation

# Suspected defect D1 (DESIGN section 4): `_buffered_readuntil` hands the whole receive buffer to LimitOverrunError.
# When True, the generator replaces buffered-path fill schedules that produce the D1 shape (multi-byte separator,
# LimitOverrunError raised while the receive buffer is exactly one byte short of full) and counts them in the class
# `d1-shape-excluded`.  run_case itself never filters, so the saved replay keeps failing until /repo is repaired.
EXCLUDE_D1 = os.environ.get("VERIF_C02_EXCLUDE_D1", "0") == "1"  # D1 is repaired in /repo (1d6eae1): the shape is searched again; =1 re-enables the exclusion

FILLER = 0x7A  # 'z': in no separator of the zoo

# ----------------------------------------------------------------------------------------------
# specs

_LINE_INNER = {"kind": "line", "newline": "LF", "encoding": "utf-8", "keep_end": False}
_JSON_INNER = {"kind": "json", "use_lines": True, "ensure_ascii": True, "encoding": "utf-8"}


@st.composite
def st_spec(draw: st.DrawFn) -> dict:
    k = draw(
        st.sampled_from(
            ["line", "line", "line", "autosep", "autosep", "autosep", "jsonlines", "jsonraw", "base64", "base64", "fixed", "struct", "namedtuple", "hfile", "lenprefixed"]
        )
    )
    if k == "line":
        spec: dict = {
            "kind": "line",
            "newline": draw(st.sampled_from(["LF", "CR", "CRLF", "CRLF"])),
            "encoding": draw(st.sampled_from(["ascii", "utf-8", "latin-1"])),
            "keep_end": draw(st.booleans()),
        }
    elif k == "autosep":
        spec = {"kind": "autosep", "separator": draw(st.sampled_from(zoo.SEPARATORS_1_3)), "check": draw(st.booleans())}
    elif k in ("jsonlines", "jsonraw"):
        spec = {"kind": "json", "use_lines": k == "jsonlines", "ensure_ascii": True, "encoding": draw(st.sampled_from(["utf-8", "ascii"]))}
    elif k == "base64":
        spec = {
            "kind": "base64",
            "inner": draw(st.sampled_from([_LINE_INNER, _JSON_INNER])),
            "alphabet": draw(st.sampled_from(["standard", "urlsafe"])),
            "checksum": draw(st.sampled_from(["none", "none", "sha", "key"])),
            "separator": draw(st.sampled_from(zoo.B64_SEPARATORS)),
        }
    elif k == "fixed":
        spec = {"kind": "fixed", "size": draw(st.integers(1, 16))}
    elif k in ("struct", "namedtuple"):
        spec = {"kind": k, "endian": draw(st.sampled_from(["", "<", ">", "!", "=", "@"])), "fields": draw(zoo.st_struct_fields(named=(k == "namedtuple")))}
    elif k == "hfile":
        spec = {"kind": "hfile"}
    else:
        spec = {"kind": "lenprefixed"}
    if k in ("line", "autosep", "hfile") and draw(st.integers(0, 5)) == 0:
        spec = dict(spec, conv=True)
    return spec


# ----------------------------------------------------------------------------------------------
# payload builders (exact length, separator never inside: (payload + sep).find(sep) == len(payload))


def _fix_separator(p: bytes, sep: bytes) -> bytes:
    """keep the length, break every occurrence of sep that starts inside p"""
    b = bytearray(p)
    guard = 0
    while True:
        idx = (bytes(b) + sep).find(sep)
        if idx == len(b):
            return bytes(b)
        b[idx] = FILLER
        guard += 1
        if guard > len(p) + 4:
            raise HarnessError("separator fix loop")


def _atoms_to_length(atoms: list[bytes], n: int) -> bytes:
    out = bytearray()
    for a in atoms:
        if len(out) + len(a) > n:
            break
        out += a
    out += bytes([0x61]) * (n - len(out))
    return bytes(out)


@st.composite
def st_sep_payload(draw: st.DrawFn, spec: dict, entry: zoo.Entry, n: int, decodable: bool) -> bytes:
    """payload of exactly n bytes for a separator-framed serializer (without the separator)"""
    kind = refdecode.framing_kind(spec)
    sep = entry.separator
    assert sep is not None
    if kind == "line":
        enc = spec["encoding"]
        if spec.get("conv") and not decodable and n == 4:
            return b"!bad"
        atoms = [bytes([c]) for c in b'ab \t\r\n\\"0z']
        if enc == "utf-8":
            atoms += ["é".encode(), "€".encode(), "😀".encode()]
        elif enc == "latin-1":
            atoms += [b"\xe9", b"\xff"]
        p = _atoms_to_length(draw(st.lists(st.sampled_from(atoms), max_size=min(n, 24))), n)
        if not decodable and enc != "latin-1" and n >= 1:
            i = draw(st.integers(0, n - 1))
            p = p[:i] + b"\xff" + p[i + 1 :]
        return _fix_separator(p, sep)
    if kind == "autosep":
        if spec.get("conv") and not decodable and n == 4:
            return b"!bad"
        alphabet = sorted(set(sep)) + [0x61, 0x0A, 0x0D, 0x00, 0xFF, FILLER]
        head = bytes(draw(st.lists(st.sampled_from(alphabet), max_size=min(n, 24))))
        p = (head + bytes([0x61]) * n)[:n]
        if not decodable and n >= len(zoo.BAD_MARK):
            p = (zoo.BAD_MARK + p)[:n]
        return _fix_separator(p, sep)
    if kind == "jsonlines":
        return draw(st_json_doc(n, decodable))
    if kind == "base64":
        return draw(st_b64_payload(spec, entry, n, decodable))
    raise HarnessError(kind)


@st.composite
def st_json_doc(draw: st.DrawFn, n: int, valid: bool) -> bytes:
    """JSON text of exactly n bytes without white space outside strings and without a raw newline"""
    if n <= 0:
        return b""
    if valid:
        if n == 1:
            return draw(st.sampled_from([b"0", b"7"]))
        if n >= 4 and draw(st.integers(0, 3)) == 0:
            # a string (alone, or inside an array / object) whose body is made of escaped backslashes and escaped quotes:
            # runs of backslashes of either parity directly before a quote, including before the closing one
            units = draw(st.lists(st.sampled_from([b"a", b"\\\\", b'\\"']), max_size=min(n, 24)))
            wrap = draw(st.sampled_from([(b"", b""), (b"[", b"]"), (b'{"k":', b"}"), (b'{', b':0}')]))
            room = n - 2 - len(wrap[0]) - len(wrap[1])
            if room < 0:
                wrap, room = (b"", b""), n - 2
            body = b""
            for u in units:
                if len(body) + len(u) > room:
                    break
                body += u
            return wrap[0] + b'"' + b"a" * (room - len(body)) + body + b'"' + wrap[1]
        v = draw(zoo.st_json_value(ascii_only=True, max_leaves=4))
        d = json.dumps(v, separators=(",", ":")).encode("ascii")
        if len(d) == n:
            return d
        if n >= len(d) + 5:
            return b"[" + d + b',"' + b"a" * (n - len(d) - 5) + b'"]'
        shape = draw(st.integers(0, 2))
        if shape == 0 or n < 3:
            return b'"' + b"a" * (n - 2) + b'"'
        if shape == 1:
            return b"[" + b"1" * (n - 2) + b"]"
        return (b'{"k":' + b"1" * n)[: n - 1] + b"}" if n >= 7 else b"[" + b"1" * (n - 2) + b"]"
    shape = draw(st.integers(0, 4))
    if shape == 0 and n >= 3:
        return b"[" + b"," * (n - 2) + b"]"
    if shape == 1 and n >= 5:
        return b'{"' + b"a" * (n - 5) + b'":}'
    if shape == 2 and n >= 3:
        return b'"' + b"\xff" * (n - 2) + b'"'
    if shape == 3 and n >= 4:
        return b'"\\x' + b"a" * (n - 4) + b'"'
    return b"x" * n


@st.composite
def st_b64_payload(draw: st.DrawFn, spec: dict, entry: zoo.Entry, n: int, decodable: bool) -> bytes:
    csum = 0 if spec.get("checksum", "none") == "none" else 32
    inner_json = spec["inner"]["kind"] == "json"
    raw_len = (n // 4) * 3 - csum - (2 if inner_json else 0)
    if n % 4 == 0 and raw_len >= 1:
        text = "".join(draw(st.lists(st.sampled_from("ab01"), max_size=min(raw_len, 12))))
        text = (text + "a" * raw_len)[:raw_len]
        p = bytes(entry.serializer.serialize(text))
        if len(p) > n:
            p = p[:n]
        if not decodable:
            i = draw(st.integers(0, len(p) - 1))
            p = p[:i] + (b"B" if p[i : i + 1] != b"B" else b"C") + p[i + 1 :]
        if len(p) == n:
            return p
    return b"A" * n


# ----------------------------------------------------------------------------------------------
# frames

_JSONRAW_MAX_PAD = 2  # longest trailing padding drawn below


@st.composite
def st_sep_frame(draw: st.DrawFn, spec: dict, entry: zoo.Entry, limit: int) -> bytes:
    sep = entry.separator
    assert sep is not None
    seplen = len(sep)
    max_safe = limit - 2 * seplen - 1  # payload: T <= limit - seplen - 1
    tag = draw(st.sampled_from(["valid", "valid", "valid", "bad", "bad", "edge", "band", "band", "over1", "overfar"]))
    if max_safe < 0 and tag in ("valid", "bad", "edge"):
        tag = "band"
    if tag in ("valid", "bad"):
        n = draw(st.integers(0, max_safe))
    elif tag == "edge":
        n = max_safe
    elif tag == "band":
        n = draw(st.integers(max(0, limit - 2 * seplen), limit + seplen))
    elif tag == "over1":
        n = limit + seplen + 1
    else:
        n = draw(st.integers(limit + seplen + 2, limit + seplen + 2 + 3 * limit))
    decodable = tag == "valid" or (tag != "bad" and draw(st.booleans()))
    return draw(st_sep_payload(spec, entry, n, decodable)) + sep


@st.composite
def st_other_frame(draw: st.DrawFn, spec: dict, entry: zoo.Entry, limit: int | None, last: bool, first: bool = False) -> bytes:
    """self-delimiting formats: every frame safely under the limit, except (optionally) the last one — without a
    terminator nothing can be demanded after a size rejection"""
    kind = refdecode.framing_kind(spec)
    bad = draw(st.integers(0, 3)) == 0
    if kind == "jsonraw":
        assert limit is not None
        size = draw(st.integers(1, limit - 1))
        if last and draw(st.integers(0, 2)) == 0:
            size = draw(st.integers(limit, 3 * limit))
        # legal but unusual: white space around a document (a peer may pretty-print or separate documents by blank
        # lines).  Trailing white space that arrives in a later read is leading white space of the next parse, so the
        # size budget of a frame reserves room for its own padding and for the previous frame's trailing padding.
        # (white space between two documents is generated as the trailing padding of the first: that is how the
        # reference splitter attributes it; only the first frame of a stream can have leading padding of its own)
        lead = draw(st.sampled_from([b"", b"", b" ", b"\n", b"\r\n", b"\t "])) if first else b""
        trail = draw(st.sampled_from([b"", b"", b"", b" ", b"\n", b"\r\n", b" \t"]))
        plain = draw(st.integers(0, 3)) == 0
        if bad and draw(st.integers(0, 3)) == 0:
            # a stray closing bracket where the next document should start (e.g. the tail of a rejected document)
            return lead + draw(st.sampled_from([b"]", b"}", b"]", b"}", b"\x00", b"\x7f", b"\x80", b"\xef"])) + trail
        if size <= limit - 1:
            size = max(1, size - len(lead) - len(trail) - _JSONRAW_MAX_PAD)
        if plain:
            n = max(1, size - 1)
            body = (b"x" * n) if bad else draw(st.sampled_from([b"1", b"7", b"12"])) * n
            return lead + body[:n] + draw(st.sampled_from([b"\n", b"\n", b" ", b"\r\n", b"\t"])) + trail[:1]
        for _ in range(3):
            doc = draw(st_json_doc(max(size, 2), not bad))
            if doc[:1] in (b"{", b"[", b'"'):
                return lead + doc + trail
        return lead + b'"' + b"a" * max(size - 2, 0) + b'"' + trail
    if kind == "hfile":
        assert limit is not None
        size = draw(st.integers(2, max(2, limit - 1)))
        if last and draw(st.integers(0, 2)) == 0:
            size = draw(st.integers(limit, 3 * limit))
        n = size - 2
        if spec.get("conv") and bad and n == 4:
            payload = b"!bad"
        else:
            payload = (bytes(draw(st.lists(st.integers(0, 255), max_size=min(n, 12)))) + b"\x00" * n)[:n]
            if n >= 1:
                payload = (b"\xff" if bad else bytes([payload[0] if payload[0] != 0xFF else 0x01])) + payload[1:]
        return n.to_bytes(2, "big") + payload
    if kind == "lenprefixed":
        if bad and draw(st.booleans()):
            return draw(st.sampled_from([b"\n", b"xyz\n", b"-1\n", b"1 2\n", b"0x10\n", b"99999999\n", b"1\xb2\n"]))
        payload = draw(st.binary(max_size=40))
        trailer = sum(payload) & 0xFF
        if bad:
            trailer ^= draw(st.sampled_from([1, 0x80, 0xFF]))
        return b"%d\n" % len(payload) + payload + bytes([trailer])
    if kind == "fixed":
        n = spec["size"]
        p = draw(st.binary(min_size=n, max_size=n))
        if bad and n >= 2:
            p = (zoo.BAD_MARK + p)[:n]
        return p
    if kind in ("struct", "namedtuple"):
        n = entry.serializer.struct.size
        if bad or draw(st.booleans()):
            return draw(st.binary(min_size=n, max_size=n))
        return b"".join(entry.frame(draw(zoo.st_packet(spec))))
    raise HarnessError(kind)


def _boundaries(frames: list[bytes]) -> list[int]:
    out = []
    pos = 0
    for f in frames:
        pos += len(f)
        out.append(pos)
    return out


def d1_shape(entry: zoo.Entry, stream: bytes, fills: list[int], sizehint: int) -> bool:
    """does the buffered run raise LimitOverrunError while the receive buffer is exactly one byte short of full, with
    a multi-byte separator (the only situation in which D1's never-received byte takes part in the remainder)?"""
    sep = entry.separator
    if not entry.buffered or sep is None or len(sep) < 2:
        return False
    try:
        steps, _ = tracedrv.trace_b(entry.buffered_protocol(), stream, fills, sizehint)
    except Exception:  # noqa: BLE001 - whatever it is, run_case will meet it again and report it properly
        return False
    for s in steps:
        for idx, o in enumerate(s.outs):
            if o[0] == "err" and o[1] == "LimitOverrunError" and (idx > 0 or s.filled == s.bufsize - 1):
                return True
    return False


@st.composite
def st_case(draw: st.DrawFn, tier: str) -> dict:
    spec = draw(st_spec())
    kind = refdecode.framing_kind(spec)
    limit = None
    if kind in refdecode.SEPARATOR_KINDS + ("jsonraw", "hfile"):
        limit = draw(st.one_of(st.integers(8, 40), st.integers(8, 200)))
        spec = zoo.with_limit(spec, limit)
    entry = zoo.build(spec)
    nframes = draw(st.integers(1, 10 if tier == "thorough" else 7))
    frames: list[bytes] = []
    for i in range(nframes):
        if kind in refdecode.SEPARATOR_KINDS:
            assert limit is not None
            frames.append(draw(st_sep_frame(spec, entry, limit)))
        else:
            frames.append(draw(st_other_frame(spec, entry, limit, i == nframes - 1, i == 0)))
    stream = b"".join(frames)
    bounds = _boundaries(frames)
    seplen = zoo.seplen_for_limit(entry)
    interesting = set(bounds)
    start = 0
    for b in bounds:
        interesting.update(range(b - seplen - 1, b))
        if limit is not None:
            interesting.update(start + limit + d for d in range(-seplen - 2, seplen + 3))
        start = b
    pts = sorted(p for p in interesting if 0 < p < len(stream))
    cuts = draw(drivers.st_cuts(len(stream), pts))
    cuts2 = draw(drivers.st_cuts(len(stream), pts))
    near = [1, 2, 3] + ([max(1, limit + d) for d in (-3, -2, -1, 0, 1)] if limit is not None else [])
    fills = draw(st.one_of(drivers.st_fills(), st.lists(st.sampled_from(near), min_size=1, max_size=6)))
    case = {
        "spec": spec,
        "frames": frames,
        "cuts": cuts,
        "cuts2": cuts2,
        "fills": fills,
        "sizehint": draw(drivers.st_sizehint()),
        "path_b": True,
        "b_bytewise": len(stream) <= 4096,
    }
    if EXCLUDE_D1:
        if d1_shape(entry, stream, fills, case["sizehint"]):
            case["d1_excluded"] = True
            case["fills"] = [1 << 20]  # whole-buffer reads: the buffer is full when the limit is hit
            if d1_shape(entry, stream, case["fills"], case["sizehint"]):
                case["path_b"] = False
        if case["b_bytewise"] and d1_shape(entry, stream, [1], case["sizehint"]):
            case["d1_bytewise_excluded"] = True
            case["b_bytewise"] = False
    return case


# ----------------------------------------------------------------------------------------------
# oracle


def decompose(entry: zoo.Entry, infos: list[dict], outputs: list[tuple]) -> tuple[bool, int, int]:
    """Is there a decomposition of `outputs` against the frame list?  safe frame -> exactly its reference output;
    band frame -> that, or a junk segment; over frame -> a junk segment; junk segment = one or more outputs, at least
    one of them a LimitOverrunError, whose packets (raw-payload serializers) are substrings of the rejected frame.
    Returns (ok, furthest frame index reached, furthest output index reached)."""
    m = len(outputs)
    reach = {0}
    best = (0, 0)
    for i, info in enumerate(infos):
        nxt: set[int] = set()
        for j in reach:
            if info["cls"] != "over" and j < m and refdecode.same_output(outputs[j], info["ref"]):
                nxt.add(j + 1)
            if info["cls"] != "safe":
                seen_limit = False
                for k in range(j, m):
                    o = outputs[k]
                    if o[0] == "err":
                        if o[1] == "LimitOverrunError":
                            seen_limit = True
                    else:
                        raw = refdecode.raw_bytes_of_packet(entry, o[1])
                        if info["rawpkt"] and (raw is None or raw not in info["bytes"]):
                            break
                    if seen_limit:
                        nxt.add(k + 1)
        if not nxt:
            return False, i, max(reach)
        reach = nxt
        best = (i + 1, max(reach))
    return m in reach, best[0], best[1]


def _brief(outputs: list[tuple]) -> list:
    res = []
    for o in outputs[:16]:
        if o[0] == "pkt":
            res.append(("pkt", repr(o[1])[:40]))
        else:
            res.append(o)
    return res


def _check(entry: zoo.Entry, spec: dict, frames: list[refdecode.RefFrame], stream: bytes, limit: int | None, read_size: int,
           outputs: list[tuple], leftover_len: int | None, path: str) -> list[str]:
    rawpkt = refdecode.framing_kind(spec) in ("line", "autosep")
    infos = [
        {"cls": refdecode.classify(spec, f, limit, read_size), "ref": f.output, "bytes": stream[f.start : f.end], "rawpkt": rawpkt}
        for f in frames
    ]
    ok, fi, oi = decompose(entry, infos, outputs)
    classes = [i["cls"] for i in infos]
    if not ok:
        all_safe = all(c == "safe" for c in classes)
        raise Violation(
            "frame-sequence" if all_safe else "decomposition",
            f"path {path}: outputs do not match the frame-by-frame reference "
            f"({'all frames safely under the limit' if all_safe else 'no decomposition'}); stuck at frame #{fi} / output #{oi}: "
            f"classes={classes[:12]} expected={[i['ref'][0] for i in infos][:12]} got={_brief(outputs)}",
            path=path,
            serializer=refdecode.framing_kind(spec),
            seplen=frames[0].seplen if frames else 0,
            all_safe=all_safe,
            frame_index=fi,
        )
    if classes and classes[-1] == "safe" and leftover_len:
        raise Violation("leftover", f"path {path}: {leftover_len} bytes left over after the last (safe) frame", path=path,
                        serializer=refdecode.framing_kind(spec))
    return classes


def run_case(case: dict) -> Outcome:
    spec = case["spec"]
    entry = zoo.build(spec)
    stream = b"".join(case["frames"])
    frames, tail = refdecode.decode(entry, stream)
    if tail != len(stream) or [f.end for f in frames] != _boundaries(case["frames"]):
        raise HarnessError(f"C02 generator and reference decoder disagree on the frames of {spec['kind']}: "
                           f"{[f.end for f in frames]} tail={tail} vs {_boundaries(case['frames'])}")
    limit = refdecode.size_limit(spec)

    partitions = [("A1", case["cuts"]), ("A2", case["cuts2"])]
    if len(stream) <= 4096:
        partitions.append(("A-bytewise", list(range(1, len(stream)))))
    classes: list[str] = []
    for name, cuts in partitions:
        chunks = drivers.split_at(stream, cuts)
        outputs, leftover = drivers.drive_a(entry.stream_protocol(), chunks)
        classes = _check(entry, spec, frames, stream, limit, max((len(c) for c in chunks), default=1), outputs, len(leftover), name)

    labels = [f"kind-{refdecode.framing_kind(spec)}"]
    if entry.buffered and case.get("path_b", True):
        runs = [("B", case["fills"])]
        if case.get("b_bytewise") and case["fills"] != [1]:
            runs.append(("B-bytewise", [1]))
        for name, fills in runs:
            outputs, leftover, binfo = drivers.drive_b(entry.buffered_protocol(), stream, fills, case["sizehint"])
            _check(entry, spec, frames, stream, limit, max(1, min(max(fills), len(stream))), outputs,
                   len(leftover) if binfo["leftover_known"] else None, name)
        labels.append("path-B")
    if case.get("d1_excluded"):
        labels.append("d1-shape-excluded")
        if not case.get("path_b", True):
            labels.append("d1-path-b-dropped")
    if case.get("d1_bytewise_excluded"):
        labels.append("d1-shape-excluded-bytewise")

    # classes are those of the last copying-path run (only raw JSON / file-based depend on the read size)
    bad_idx = [i for i, f in enumerate(frames) if f.output[0] == "err" or classes[i] != "safe"]
    good_after = {i for i in bad_idx if any(frames[k].output[0] == "pkt" and classes[k] == "safe" for k in range(i + 1, len(frames)))}
    cutset = {c for c in list(case["cuts"]) + list(case["cuts2"]) if 0 < c < len(stream)}
    cut_in_bad = any(any(frames[i].start < c < frames[i].end for c in cutset) for i in good_after)
    for c in sorted(set(classes)):
        labels.append(f"has-{c}")
    if any(f.output[0] == "err" and classes[i] == "safe" for i, f in enumerate(frames)):
        labels.append("has-undecodable-safe")
    if good_after:
        labels.append("bad-then-good")
    if cut_in_bad:
        labels.append("cut-in-bad-frame")
    sl = frames[0].seplen if frames else 0
    if refdecode.framing_kind(spec) in refdecode.SEPARATOR_KINDS:
        labels.append(f"seplen-{sl}")
        if any(any(f.end - f.seplen < c < f.end for c in cutset) for f in frames):
            labels.append("cut-in-terminator")
    if spec.get("conv"):
        labels.append("converter")
    if all(c == "safe" for c in classes):
        labels.append("all-safe")
    return Outcome(nontrivial=bool(good_after) and cut_in_bad, classes=tuple(labels))


CHECK = Check(
    id="C02",
    level="exploration",
    rule=(
        "case = framed serializer (line / JSON lines / raw JSON / harness AutoSeparated with 1-3-byte separators / Base64 "
        "wrapper / fixed-size, struct, namedtuple / harness FileBased and length-prefixed, optional converter) x limit 8-200 "
        "x 1-10 complete frames drawn as valid, undecodable, at the safe edge, in the band, oversized by 1 or far "
        "x two generated partitions + byte-by-byte (copying path) x generated fill sizes + size hint + byte-by-byte "
        "(buffered path); oracle = frame-by-frame reference decoder + decomposition matcher; non-trivial = a malformed or "
        "size-rejected frame is followed by at least one good frame and a generated cut falls strictly inside that frame "
        "or its terminator; distinct = sha1 of the canonical case JSON"
    ),
    layers=[Layer("frames", st_case, run_case, {"quick": 2000, "thorough": 6000})],
    assumptions=[
        "payloads never contain the separator (documented precondition); streams end on a frame boundary",
        "self-delimiting formats (raw JSON, file-based, length-prefixed, fixed-size) have no terminator to resynchronise on, so "
        "band/oversized frames are only generated as the last frame of such a stream",
        "raw JSON documents are bracket-balanced, start with { [ \" or are plain values ended by one newline, with no other white "
        "space between documents (the parser attaches inter-document white space to either neighbour depending on chunking)",
        "junk left behind by a size-rejected frame is not prescribed beyond: contains a LimitOverrunError, ends at the frame's "
        "terminator, and (line / harness AutoSeparated) every junk packet is a substring of the rejected frame",
        "buffered-path leftover is read from the consumer's private re-injection counter",
    ],
)

# thorough tier: the same strategy and oracle driven by the coverage-guided engine (pbt/covfuzz.py)
from ..covfuzz import cov_layer  # noqa: E402

CHECK.layers.append(cov_layer("C02", CHECK.layer("frames"), runs=8000, time_s=100))
