"""C10 — cancelling or timing out a receive never loses data (DESIGN.md section 3, C10).

The schedule is data: a list of loop iterations, each an ordered list of actions (deliver k bytes through the
protocol's get_buffer/buffer_updated exactly as the selector transport does, task.cancel() of the reader, cancel of
the reader's timeout scope, EOF).  A conductor callback chain executes one list per loop iteration, so "cancel and
data in the same iteration, in either order" is an ordinary generated value."""

from __future__ import annotations

import asyncio
import logging
from typing import Any

from hypothesis import strategies as st

from easynetwork.lowlevel.api_async.backend._asyncio.backend import AsyncIOBackend
from easynetwork.lowlevel.api_async.backend._asyncio.stream.socket import AsyncioTransportStreamSocketAdapter, StreamReaderBufferedProtocol
from easynetwork.lowlevel.api_async.endpoints.stream import AsyncStreamEndpoint
from easynetwork.lowlevel.api_async.servers.stream import AsyncStreamServer
from easynetwork.lowlevel.api_async.transports.tls import AsyncTLSStreamTransport
from easynetwork.protocol import BufferedStreamProtocol, StreamProtocol
from easynetwork.serializers.line import StringLineSerializer

from .. import tlsharness, tlspeer
from ..core import Check, HarnessError, Layer, Outcome, Violation
from ..fakeasyncio import FakeAsyncioTransport
from ..memtransports import MemListener
from ..vloop import Deadlock, run_virtual
from . import c03

ACTIONS = ["data", "data", "data", "cancel", "expire", "nothing"]


def _stream_for(case: dict) -> bytes:
    if case["layer_kind"] in ("recv", "recv_into"):
        return bytes((i * 37 + 11) & 0xFF for i in range(case["total"]))
    # packet layers: lines "p<i>-xxxx"
    out = bytearray()
    i = 0
    while len(out) < case["total"]:
        out += f"p{i}-{'x' * (i % 7)}\n".encode()
        i += 1
    return bytes(out)


@st.composite
def st_schedule_case(draw: st.DrawFn, tier: str) -> dict:
    kind = draw(st.sampled_from(["recv", "recv_into", "endpoint-A", "endpoint-B", "server-A", "server-B"]))
    small_proto = kind in ("recv", "recv_into") and draw(st.integers(0, 1)) == 0
    nsteps = draw(st.integers(1, 12))
    steps = []
    ncancel = 0
    for _ in range(nsteps):
        acts = draw(st.lists(st.sampled_from(ACTIONS), min_size=1, max_size=3))
        step = []
        for a in acts:
            if a == "data":
                step.append(("data", draw(st.sampled_from([1, 2, 5, 5, 17, 300] + ([4096, 5000] if small_proto else [])))))
            elif a in ("cancel", "expire"):
                if ncancel < 6:
                    ncancel += 1
                    step.append((a,))
            else:
                step.append(("nothing",))
        steps.append({"acts": step, "pre": draw(st.booleans()), "idle_after": draw(st.sampled_from([0, 0, 0, 1, 3]))})
    if small_proto and draw(st.booleans()):
        # a delivery that fills the caller's whole buffer in the iteration of a cancellation, then more data
        steps.insert(draw(st.integers(0, len(steps))), {"acts": [("data", 5000), (draw(st.sampled_from(["cancel", "expire"])),)], "pre": draw(st.booleans()), "idle_after": 0})
        steps.append({"acts": [("data", 300)], "pre": False, "idle_after": draw(st.sampled_from([0, 1]))})
    total = sum(a[1] for s in steps for a in s["acts"] if a[0] == "data") + draw(st.integers(0, 20))
    return {
        "layer_kind": kind,
        "steps": steps,
        "total": max(total, 1),
        "bufsize": draw(st.sampled_from([4096, 4096, 8192, 1024])) if small_proto else draw(st.sampled_from([1, 3, 16, 1024, 65536])),
        "proto_max_size": 4096 if small_proto else None,
        "max_recv": draw(st.sampled_from([None, None, 1, 4])),
        "eof_in_same_step_as_last": draw(st.booleans()),
        "poll_after_request": draw(st.booleans()),
    }


async def _run_schedule(case: dict) -> dict:
    loop = asyncio.get_running_loop()
    backend = AsyncIOBackend()
    proto_cls: Any = StreamReaderBufferedProtocol
    if case.get("proto_max_size"):
        # the protocol's internal buffer size is a class attribute (256 KiB): a small value makes "internal buffer full"
        # (read flow control, put-back of a whole caller buffer) reachable with small streams
        proto_cls = type("SmallBufferProtocol", (StreamReaderBufferedProtocol,), {"max_size": int(case["proto_max_size"]), "__slots__": ()})
    protocol = proto_cls(loop=loop)
    transport = FakeAsyncioTransport(loop, protocol, kernel_capacity=None, max_recv=case["max_recv"])
    adapter = AsyncioTransportStreamSocketAdapter(backend, transport, protocol)
    stream = _stream_for(case)
    kind = case["layer_kind"]
    received = bytearray()
    state: dict[str, Any] = {"scope": None, "done": False, "cancels": 0, "cancels_seen": 0, "near": 0}
    fed = {"n": 0}

    ser = StringLineSerializer()
    endpoint: Any = None
    if kind.startswith("endpoint"):
        proto: Any = BufferedStreamProtocol(ser) if kind.endswith("B") else StreamProtocol(ser)
        endpoint = AsyncStreamEndpoint(adapter, proto, max_recv_size=case["bufsize"])

    async def recv_once() -> bytes | None:
        """one receive; returns bytes-equivalent of what was delivered, b'' at EOF"""
        if kind == "recv":
            return await adapter.recv(case["bufsize"])
        if kind == "recv_into":
            buf = bytearray(case["bufsize"])
            n = await adapter.recv_into(buf)
            return bytes(buf[:n])
        try:
            pkt = await endpoint.recv_packet()
        except ConnectionAbortedError:
            return b""
        return (pkt + "\n").encode()

    async def reader() -> None:
        task = asyncio.current_task()
        assert task is not None
        while True:
            try:
                with backend.open_cancel_scope() as scope:
                    state["scope"] = scope
                    chunk = await recv_once()
                state["scope"] = None
                if scope.cancelled_caught():
                    state["cancels_seen"] += 1
                    continue
            except asyncio.CancelledError:
                state["scope"] = None
                if state.get("stopping"):
                    raise
                state["cancels_seen"] += 1
                while task.uncancel() > 0:
                    pass
                continue
            if chunk == b"":
                break
            received.extend(chunk)
        state["done"] = True

    server_log: list[Any] = []
    if kind.startswith("server"):
        # low-level stream server: the handler yields a timeout; the conductor makes it expire (cancel of the request
        # receiver's scope is internal, so here 'expire'/'cancel' are mapped onto yielded timeouts that end at the
        # step where the action sits: see run_server_schedule)
        raise HarnessError("server kinds are handled by run_server_case")

    reader_task = asyncio.create_task(reader())
    await asyncio.sleep(0)
    steps = list(case["steps"])
    finished = loop.create_future()

    def do_step(i: int) -> None:
        if i >= len(steps):
            # final drain: everything that is left, then EOF
            rest = stream[fed["n"] :]
            if rest:
                transport.feed(rest)
                fed["n"] = len(stream)
            transport.feed_eof()
            finished.set_result(None)
            return
        step = steps[i]
        if step["pre"]:
            loop.call_soon(do_step_after_idle, i)
        kinds_here = [a[0] for a in step["acts"]]
        if "data" in kinds_here and ("cancel" in kinds_here or "expire" in kinds_here):
            state["near"] += 1
        for act in step["acts"]:
            if act[0] == "data":
                k = min(act[1], len(stream) - fed["n"])
                if k > 0:
                    transport.feed(stream[fed["n"] : fed["n"] + k])
                    fed["n"] += k
            elif act[0] == "cancel":
                if not reader_task.done():
                    reader_task.cancel()
                    state["cancels"] += 1
            elif act[0] == "expire":
                scope = state["scope"]
                if scope is not None:
                    scope.cancel()
                    state["cancels"] += 1
        if not step["pre"]:
            loop.call_soon(do_step_after_idle, i)

    def do_step_after_idle(i: int) -> None:
        n = steps[i]["idle_after"]
        if n <= 0:
            do_step(i + 1)
        else:
            steps[i] = dict(steps[i], idle_after=n - 1)
            loop.call_soon(do_step_after_idle, i)

    loop.call_soon(do_step, 0)
    try:
        await finished
        await asyncio.shield(reader_task)  # a stuck reader becomes a Deadlock of the virtual loop
    finally:
        state["stopping"] = True
        if not reader_task.done():
            reader_task.cancel()
            await asyncio.gather(reader_task, return_exceptions=True)
    await adapter.aclose()
    return {"received": bytes(received), "stream": stream, "near": state["near"], "cancels": state["cancels"], "cancels_seen": state["cancels_seen"]}


def _judge(received: bytes, stream: bytes, what: str, **details: Any) -> None:
    if received != stream:
        i = next((j for j, (x, y) in enumerate(zip(received, stream)) if x != y), min(len(received), len(stream)))
        kind = "data-lost" if len(received) < len(stream) else ("data-duplicated" if len(received) > len(stream) else "data-reordered")
        raise Violation(
            kind,
            f"{what}: receives returned {len(received)} bytes in total, the peer wrote {len(stream)}; first difference at offset {i} "
            f"(got {received[i:i+12]!r}, sent {stream[i:i+12]!r})",
            **details,
        )


def run_schedule_case(case: dict) -> Outcome:
    logging.disable(logging.CRITICAL)
    if case["layer_kind"].startswith("server"):
        return run_server_case(case)
    try:
        r = run_virtual(_run_schedule, case)
    except Deadlock as exc:
        raise Violation("reader-stuck", f"schedule did not complete: {exc}", receive_layer=case["layer_kind"]) from exc
    same_step = _same_step_shape(case)
    _judge(r["received"], r["stream"], case["layer_kind"], receive_layer=case["layer_kind"], same_iteration_cancel_and_data=same_step)
    classes = [case["layer_kind"], f"cancels-{min(r['cancels'], 3)}"]
    if case.get("proto_max_size"):
        classes.append("small-internal-buffer")
    if same_step:
        classes.append("cancel-and-data-same-iteration")
    return Outcome(nontrivial=r["cancels"] > 0 and (same_step or _adjacent(case)), classes=tuple(classes))


def _same_step_shape(case: dict) -> bool:
    for s in case["steps"]:
        kinds = [a[0] for a in s["acts"]]
        if "data" in kinds and ("cancel" in kinds or "expire" in kinds):
            return True
    return False


def _adjacent(case: dict) -> bool:
    steps = case["steps"]
    for i in range(len(steps) - 1):
        a = {x[0] for x in steps[i]["acts"]}
        b = {x[0] for x in steps[i + 1]["acts"]}
        if steps[i]["idle_after"] == 0 and (("data" in a and b & {"cancel", "expire"}) or ("data" in b and a & {"cancel", "expire"})):
            return True
    return False


# ----------------------------------------------------------------------------------------------
# low-level stream server: request receiver with a yielded timeout that expires around a delivery


async def _run_server(case: dict) -> dict:
    loop = asyncio.get_running_loop()
    backend = AsyncIOBackend()
    ser = StringLineSerializer()
    proto: Any = BufferedStreamProtocol(ser) if case["layer_kind"].endswith("B") else StreamProtocol(ser)
    listener = MemListener(backend)
    server = AsyncStreamServer(listener, proto, max_recv_size=case["bufsize"])
    stream = _stream_for(case)
    protocol = StreamReaderBufferedProtocol(loop=loop)
    transport = FakeAsyncioTransport(loop, protocol, kernel_capacity=None, max_recv=case["max_recv"])
    adapter = AsyncioTransportStreamSocketAdapter(backend, transport, protocol)
    got: list[str] = []
    timeouts = {"n": 0}
    ended = loop.create_future()
    # yielded timeouts: one per step that contains a cancel/expire action, equal to the virtual time of that step
    step_times = []
    t = 0.0
    for s in case["steps"]:
        t += 1.0
        step_times.append(t)
    expiries = [step_times[i] for i, s in enumerate(case["steps"]) if any(a[0] in ("cancel", "expire") for a in s["acts"])]

    async def handler(client: Any):  # noqa: ANN202
        t0 = loop.time()
        pending = list(expiries)
        poll = False
        try:
            while True:
                now = loop.time() - t0
                nxt = next((e for e in pending if e > now - 1e-9), None)
                timeout = None if nxt is None else max(nxt - now, 0.0)
                if poll:
                    # right after a request: poll once with a zero timeout for a pipelined one (a request that is already
                    # buffered must be delivered, not lost to the expired wait)
                    timeout = 0.0
                was_poll, poll = poll, False
                try:
                    req = yield timeout
                except TimeoutError:
                    timeouts["n"] += 1
                    if not was_poll:
                        pending = [e for e in pending if e > (loop.time() - t0) + 1e-9]
                    continue
                got.append(req)
                poll = bool(case.get("poll_after_request", True))
        finally:
            if not ended.done():
                ended.set_result(None)

    async def serve() -> None:
        await server.serve(handler)

    serve_task = asyncio.create_task(serve())
    await asyncio.sleep(0)
    listener.connect(adapter)  # type: ignore[arg-type]
    await asyncio.sleep(0)
    fed = 0
    base = loop.time()
    for i, s in enumerate(case["steps"]):
        target = base + step_times[i]
        # deliver this step's data at exactly the instant the yielded timeout expires (same loop iteration as the timer)
        data_n = sum(a[1] for a in s["acts"] if a[0] == "data")
        k = min(data_n, len(stream) - fed)
        if k > 0:
            chunk = stream[fed : fed + k]
            fed += k
            if s["pre"]:
                loop.call_at(target, transport.feed, chunk)
            else:
                loop.call_at(target + 1e-9, transport.feed, chunk)
    await asyncio.sleep(step_times[-1] + 2.0 if step_times else 1.0)
    rest = stream[fed:]
    if rest:
        transport.feed(rest)
    transport.feed_eof()
    await asyncio.shield(ended)  # a stuck handler becomes a Deadlock of the virtual loop
    await listener.aclose()
    serve_task.cancel()
    await asyncio.gather(serve_task, return_exceptions=True)
    return {"received": "".join(r + "\n" for r in got).encode(), "stream": stream, "timeouts": timeouts["n"]}


def run_server_case(case: dict) -> Outcome:
    try:
        r = run_virtual(_run_server, case)
    except Deadlock as exc:
        raise Violation("reader-stuck", f"server schedule did not complete: {exc}", receive_layer=case["layer_kind"]) from exc
    _judge(r["received"], r["stream"], case["layer_kind"], receive_layer=case["layer_kind"], same_iteration_cancel_and_data=True)
    return Outcome(nontrivial=r["timeouts"] > 0, classes=(case["layer_kind"], f"timeouts-{min(r['timeouts'], 3)}"))


# ----------------------------------------------------------------------------------------------
# TLS receive cancelled at generated loop ticks (over the in-memory transport, against the stdlib peer)


@st.composite
def st_tls_case(draw: st.DrawFn, tier: str) -> dict:
    return {
        "sut_role": draw(st.sampled_from(["client", "server"])),
        "version": draw(st.sampled_from(["1.2", "1.3"])),
        "peer_writes": draw(st.lists(st.sampled_from([1, 10, 100, 3000, 17000]), min_size=1, max_size=4)),
        "cancel_every": draw(st.lists(st.integers(1, 9), min_size=1, max_size=6)),
        "recv_sizes": draw(st.lists(st.sampled_from([1, 16, 1024, 65536]), min_size=1, max_size=3)),
        "frag_to_sut": draw(st.sampled_from([[1], [3, 1, 7], [100], [1 << 20]])),
        "frag_to_peer": [1 << 20],
        "delays": draw(st.sampled_from([[0.0], [0.0, 0.001]])),
        "mem_script": {"recv_max": draw(st.sampled_from([[1 << 30], [1, 5, 1 << 30]]))},
        # full duplex: another task's send_all() is parked on backpressure (holding the transport send lock) while the
        # reader is being cancelled
        "blocked_sender": draw(st.sampled_from([False, True, True])),
        "unblock_after": draw(st.integers(1, 30)),
        "sender_start_ticks": draw(st.integers(0, 12)),
        "reader_gaps": draw(st.lists(st.sampled_from([0, 1, 1, 2]), min_size=1, max_size=4)),
    }


async def _tls_session(case: dict) -> dict:
    backend, mem, peer, wire = tlsharness.new_session(case)
    conductor = asyncio.create_task(wire.conductor())
    payloads = [tlspeer.payload("peer", i, n) for i, n in enumerate(case["peer_writes"])]
    expected = b"".join(payloads)
    received = bytearray()
    cancels = {"n": 0}
    try:
        tls = await tlsharness.wrap_sut(case, mem)
        for p in payloads:
            peer.write(p)
        wire.kick()

        async def reader() -> None:
            task = asyncio.current_task()
            assert task is not None
            sizes = case["recv_sizes"]
            gaps = case.get("reader_gaps") or [0]
            i = 0
            while len(received) < len(expected):
                try:
                    data = await tls.recv(sizes[i % len(sizes)])
                except asyncio.CancelledError:
                    if cancels.get("stopping"):
                        raise
                    while task.uncancel() > 0:
                        pass
                    continue
                i += 1
                if not data:
                    break
                received.extend(data)
                # the application does something else between two receives (without this the reader drains everything the
                # SSL object holds in one task step and nothing can interleave)
                for _ in range(gaps[i % len(gaps)]):
                    try:
                        await asyncio.sleep(0)
                    except asyncio.CancelledError:
                        if cancels.get("stopping"):
                            raise
                        while task.uncancel() > 0:
                            pass

        sender = None
        rt = asyncio.create_task(reader())
        if case.get("blocked_sender"):
            # let the reader pull some ciphertext in first (several records may then sit decrypted-but-unread in the
            # SSL object), then park a sender on backpressure: it keeps the transport send lock
            for _ in range(case.get("sender_start_ticks", 3)):
                await asyncio.sleep(0)
            mem.set_writable(False)
            sender = asyncio.create_task(tls.send_all(tlspeer.payload("sut", 0, 40000)))
            for _ in range(3):
                await asyncio.sleep(0)
        every = case["cancel_every"]
        j = 0
        budget = 80
        while not rt.done() and cancels["n"] < budget:
            for _ in range(every[j % len(every)]):
                await asyncio.sleep(0)
            if j % 7 == 6:
                await asyncio.sleep(0.002)  # let virtual time pass so delayed deliveries happen between cancels
            j += 1
            if not rt.done():
                rt.cancel()
                cancels["n"] += 1
            if sender is not None and cancels["n"] == case.get("unblock_after", 10):
                mem.set_writable(True)
        if sender is not None:
            mem.set_writable(True)
            await sender
        await rt
        await tls.aclose()
    finally:
        cancels["stopping"] = True  # type: ignore[assignment]
        if "rt" in locals() and not rt.done():
            rt.cancel()
            await asyncio.gather(rt, return_exceptions=True)
        wire.stop = True
        wire.kick()
        conductor.cancel()
        await asyncio.gather(conductor, return_exceptions=True)
    return {"received": bytes(received), "stream": expected, "cancels": cancels["n"]}


def run_tls_case(case: dict) -> Outcome:
    try:
        r = run_virtual(_tls_session, case)
    except Deadlock as exc:
        raise Violation("reader-stuck", f"TLS session did not complete: {exc}", receive_layer="tls") from exc
    _judge(r["received"], r["stream"], "tls-recv", receive_layer="tls", sender_parked=bool(case.get("blocked_sender")))
    return Outcome(
        nontrivial=r["cancels"] > 0,
        classes=("tls", f"cancels-{min(r['cancels'] // 10, 5)}0+") + (("sender-parked-on-backpressure",) if case.get("blocked_sender") else ()),
    )


# ----------------------------------------------------------------------------------------------
# blocking receives that end with TimeoutError: judged by C03's history oracle, with timeout-heavy histories


@st.composite
def st_blocking_case(draw: st.DrawFn, tier: str) -> dict:
    case = draw(c03.st_case(tier, asynchronous=False))
    n = draw(st.integers(2, 8))
    case["calls"] = [("recv", draw(st.sampled_from([0, 0.3, 0.7, 1.1]))) for _ in range(n)]
    if not case["groups"]:
        return case
    case["gaps"] = [draw(st.sampled_from([0.0, 0.5, 1.0])) for _ in case["gaps"]]
    return case


def run_blocking_case(case: dict) -> Outcome:
    out = c03.run_sync_case(case)
    return Outcome(nontrivial=out.nontrivial and len(case["groups"]) >= 2, classes=("blocking",) + tuple(out.classes))


CHECK = Check(
    id="C10",
    level="exploration",
    rule=(
        "schedule layer: list of <= 12 loop iterations, each an ordered list of actions from {deliver k bytes via "
        "get_buffer/buffer_updated of the real StreamReaderBufferedProtocol under a fake selector transport, task.cancel() of "
        "the reader, cancel of the reader's scope, nothing}, + idle iterations, + whether the next conductor step is queued "
        "before or after the actions; receive layer in {adapter recv, adapter recv_into, AsyncStreamEndpoint.recv_packet with "
        "copying / buffered consumer, low-level stream server request receiver whose yielded timeout expires in the very "
        "instant data arrives}; tls layer: AsyncTLSStreamTransport.recv cancelled every few loop iterations against the "
        "stdlib peer; blocking layer: recv_packet calls ending in TimeoutError under the fake selector. Oracle: concatenation "
        "of everything returned == bytes written. non-trivial = a cancellation in the same or the adjacent loop iteration as "
        "a delivery; distinct = sha1(case)"
    ),
    layers=[
        Layer("schedule", st_schedule_case, run_schedule_case, {"quick": 1500, "thorough": 8000}),
        Layer("tls", st_tls_case, run_tls_case, {"quick": 200, "thorough": 1000}),
        Layer("blocking", st_blocking_case, run_blocking_case, {"quick": 400, "thorough": 2000}),
    ],
    assumptions=[
        "the asyncio selector transport is replaced by FakeAsyncioTransport (same callback order as CPython 3.12's _SelectorSocketTransport); the protocol, adapter, endpoints and server are the real code",
        "the reader re-issues a receive after every cancellation and un-cancels its task",
    ],
)
