"""C17 — one client's failure (handler or connection set-up) never affects the others (DESIGN.md section 3, C17).

Layer "faults" (virtual time, in-memory listeners, unmodified AsyncTCPNetworkServer / AsyncUDPNetworkServer, plain TCP, TLS
and UDP): one *faulty* client whose fault is data - an exception class name x a hook position (or a connection set-up
fault: TLS handshake garbage / stall until the handshake timeout / reset / EOF, or an accepted socket that is already
disconnected) - interpreted by one generic request handler, next to K healthy echo clients whose requests take virtual
time to answer, so that the fault fires while healthy requests are in flight.

Layer "rst" (real asyncio loop, real loopback sockets): clients that connect and reset the connection at once
(SO_LINGER 0) while healthy clients ping-pong.  Wall-clock waits only ever produce `Inconclusive`.
"""

from __future__ import annotations

import asyncio
import logging
import socket
import struct
from typing import Any

from hypothesis import strategies as st

from ..core import Check, HarnessError, Inconclusive, Layer, Outcome, Violation

SETTLE_S = 200.0  # virtual; longer than the largest handshake timeout (60 s) plus the TLS shutdown timeout (30 s)

# exception classes that can be injected (all Exception subclasses, as in the statement)
EXC_NAMES = [
    "ValueError",
    "CustomError",
    "RuntimeError",
    "KeyError",
    "AssertionError",
    "OSError",
    "ConnectionResetError",
    "BrokenPipeError",
    "ConnectionAbortedError",
    "ClientClosedError",
    "TimeoutError",
    "ParseError",
    "ExceptionGroup",
    "ExceptionGroupConn",
    "ExceptionGroupClosed",
    "ExceptionGroupClosedOnly",
    "ExceptionGroupNested",
    "ExceptionGroupUnsplittable",
]

TCP_HOOKS = [
    "onconn_coro",
    "onconn_gen_before",
    "onconn_gen_after",
    "onconn_gen_thrown_parse",
    "onconn_gen_thrown_timeout",
    "handle_before",
    "handle_after",
    "handle_thrown_parse",
    "handle_thrown_timeout",
    "on_disconnection",
    "on_disconnection_handler_closes",
    "send_fail",
    "recv_fail",
    "no_peername",
]
TLS_SETUP = ["hs_garbage", "hs_stall", "hs_reset", "hs_eof"]
UDP_HOOKS = ["handle_before", "handle_after", "handle_thrown_parse", "handle_thrown_timeout"]

ONCONN_KINDS = ("onconn_coro", "onconn_gen_before", "onconn_gen_after", "onconn_gen_thrown_parse", "onconn_gen_thrown_timeout")
SETUP_KINDS = ("no_peername", *TLS_SETUP)

BAD_FRAME = b"\xff\xfe"


class CustomError(Exception):
    pass


# ----------------------------------------------------------------------------------------------
# generator

QUARTERS = [0.0, 0.25, 0.5, 0.75, 1.0]


# for TLS "send_fail" is a connection that breaks for writing while the handler is busy (every later write of the wrapped
# transport fails, including the close_notify of the server's own graceful close)
_TLS_HOOKS = TLS_SETUP + [h for h in TCP_HOOKS if h not in ("no_peername",)]
_PAIRS = [("tcp", h) for h in TCP_HOOKS] + [("tls", h) for h in _TLS_HOOKS] + [("udp", h) for h in UDP_HOOKS] * 2


def _nominal_fault_time(proto: str, f: dict, hs_timeout: float | None) -> float:
    """when the fault is expected to fire (virtual seconds from the start); only used to aim a healthy request at it"""
    kind = f["kind"]
    npre = f["n"] + (1 if f.get("onconn") == "gen" else 0)
    t = f["t0"] + npre * f["gap"]
    if kind == "hs_stall":
        return f["t0"] + (60.0 if hs_timeout is None else hs_timeout)
    if kind in SETUP_KINDS:
        return f["t0"] + (0.0 if kind == "no_peername" else f["gap"])
    if kind.endswith("thrown_timeout"):
        return t + f["timeout"] + f["pre_sleep"]
    if kind in ("onconn_coro", "onconn_gen_before", "on_disconnection_handler_closes") or (kind == "handle_before" and proto != "udp"):
        return t + f["pre_sleep"]
    return t + f["gap"] + f["pre_sleep"]


@st.composite
def st_case(draw: st.DrawFn, tier: str) -> dict:
    proto, kind = draw(st.sampled_from(_PAIRS))
    k = draw(st.integers(1, 3))
    healthy = []
    for _ in range(k):
        healthy.append(
            {
                "start": draw(st.sampled_from(QUARTERS)),
                "gap": draw(st.sampled_from([0.25, 0.5, 1.0])),
                "n": draw(st.integers(1, 4)),
                "work": draw(st.sampled_from([0.0, 0.25, 0.5, 1.0, 1.0, 2.0])),
                "style": draw(st.sampled_from(["loop", "per"])),
                "onconn": draw(st.sampled_from(["default", "default", "gen"])) if proto != "udp" else "default",
                "y": draw(st.sampled_from([0, 0, 1, 2])),
            }
        )
    exc = draw(st.sampled_from(EXC_NAMES))
    if kind.endswith(("thrown_parse", "thrown_timeout")):
        exc = draw(st.sampled_from(EXC_NAMES + ["reraise"] * 4))
    if kind == "send_fail":
        exc = draw(st.sampled_from(["BrokenPipeError", "ConnectionResetError", "OSError"]))
    if kind == "recv_fail":
        exc = draw(st.sampled_from(["ConnectionResetError", "OSError", "TimeoutError", "ConnectionAbortedError"]))
    style = draw(st.sampled_from(["loop", "per"]))
    if kind == "handle_before":
        style = "per"
    n = draw(st.integers(0, 3))
    if kind in ONCONN_KINDS or kind in SETUP_KINDS:
        n = 0
    faulty = {
        "kind": kind,
        "exc": exc,
        "n": n,
        "style": style,
        "t0": draw(st.sampled_from(QUARTERS)),
        "gap": draw(st.sampled_from([0.25, 0.5, 1.0])),
        "pre_sleep": draw(st.sampled_from([0.0, 0.0, 0.25, 0.5, 1.0])),
        "timeout": draw(st.sampled_from([0.5, 1.5, 2.5])),
        "onconn": draw(st.sampled_from(["default", "gen"])) if proto != "udp" and kind not in ONCONN_KINDS and kind not in SETUP_KINDS else "default",
        "y": draw(st.sampled_from([0, 0, 1, 2, 3])),
        "later": draw(st.lists(st.sampled_from([0.0, 0.25, 0.5, 1.0, 3.0]), max_size=2)),
        "hello_prefix": draw(st.sampled_from([0, 0, 1, 5, 50, 10_000])),
        "garbage": draw(st.sampled_from([b"GET / HTTP/1.1\r\n\r\n", b"\x16\x03\x01\x00\x05hello", b"\x00" * 64, b"\x16\x03\x03\xff\xff" + b"A" * 40])),
    }
    hs_timeout = draw(st.sampled_from([0.5, 2.5, None]))
    # aim one healthy request at the fault (two thirds of the cases): it is fed `lead` before the nominal fault time and takes
    # at least that long to answer (lead == service time gives the tie: the answer is due in the very instant of the fault)
    if draw(st.sampled_from([True, True, False])):
        tf = _nominal_fault_time(proto, faulty, hs_timeout)
        lead = draw(st.sampled_from([0.0, 0.25, 0.5, 1.0]))
        h = healthy[0]
        j = draw(st.integers(0, h["n"] - 1))
        start = tf - lead - (j + 1) * h["gap"]
        if start >= 0:
            h["start"] = start
            h["work"] = lead + draw(st.sampled_from([0.0, 0.25, 0.25, 1.0, 2.0]))
    return {
        "proto": proto,
        "buffered": draw(st.booleans()),
        "healthy": healthy,
        "faulty": faulty,
        "late_work": draw(st.sampled_from([0.0, 0.5])),
        "hs_timeout": hs_timeout,
        "ssl_shutdown_timeout": draw(st.sampled_from([None, 1.5])),
        "standard_compatible": draw(st.sampled_from([True, True, False])),
        "peer_answers_close": draw(st.booleans()),
    }


# ----------------------------------------------------------------------------------------------
# exceptions from data


class UnsplittableGroup(ExceptionGroup):  # type: ignore[type-arg]
    def derive(self):  # type: ignore[no-untyped-def,override]  # noqa: ANN201 - wrong signature on purpose
        return UnsplittableGroup(self.message, [])


def make_exc(name: str, proto: str) -> BaseException:
    from easynetwork.exceptions import (
        ClientClosedError,
        DatagramProtocolParseError,
        DeserializeError,
        IncrementalDeserializeError,
        StreamProtocolParseError,
    )

    match name:
        case "ValueError":
            return ValueError("injected")
        case "CustomError":
            return CustomError("injected")
        case "RuntimeError":
            return RuntimeError("injected")
        case "KeyError":
            return KeyError("injected")
        case "AssertionError":
            return AssertionError("injected")
        case "OSError":
            return OSError(5, "injected I/O error")
        case "ConnectionResetError":
            return ConnectionResetError(104, "injected")
        case "BrokenPipeError":
            return BrokenPipeError(32, "injected")
        case "ConnectionAbortedError":
            return ConnectionAbortedError(103, "injected")
        case "ClientClosedError":
            return ClientClosedError("injected")
        case "TimeoutError":
            return TimeoutError("injected")
        case "ParseError":
            if proto == "udp":
                return DatagramProtocolParseError(DeserializeError("injected"))
            return StreamProtocolParseError(b"", IncrementalDeserializeError("injected", b""))
        case "ExceptionGroupUnsplittable":
            # an application-defined group whose derive() cannot be called the way split() calls it: "an exception of any
            # class raised by a request handler" - the server has to survive whatever happens when it inspects it
            return UnsplittableGroup("injected", [ValueError("a"), CustomError("b")])
        case "ExceptionGroup":
            return ExceptionGroup("injected", [ValueError("a"), CustomError("b")])
        case "ExceptionGroupConn":
            return ExceptionGroup("injected", [ConnectionResetError(104, "a"), ValueError("b")])
        case "ExceptionGroupClosed":
            return ExceptionGroup("injected", [ClientClosedError("a"), CustomError("b")])
        case "ExceptionGroupClosedOnly":
            return ExceptionGroup("injected", [ClientClosedError("a"), ClientClosedError("b")])
        case "ExceptionGroupNested":
            return ExceptionGroup("injected", [ExceptionGroup("inner", [BrokenPipeError(32, "a"), KeyError("k")]), TimeoutError("t")])
    raise HarnessError(f"unknown exception name {name!r}")


# ----------------------------------------------------------------------------------------------
# the generic handler: everything it does is looked up in the case by the client's port


class _State:
    def __init__(self) -> None:
        self.conn_started = 0
        self.conn_done = 0
        self.disc = 0
        self.gens = 0
        self.saw: list[str] = []  # anything thrown into a healthy handler other than the GeneratorExit of a disconnect
        self.fired = False
        self.fired_gen: int | None = None


class _Script:
    """shared between the handler and the harness"""

    def __init__(self, case: dict) -> None:
        self.case = case
        self.proto = case["proto"]
        self.by_port: dict[int, dict] = {}
        self.state: dict[int, _State] = {}
        self.on_fire: Any = None
        self.teardown = False

    def add(self, port: int, script: dict) -> None:
        self.by_port[port] = script
        self.state[port] = _State()

    def fire(self, port: int) -> None:
        stt = self.state[port]
        if not stt.fired:
            stt.fired = True
            stt.fired_gen = stt.gens - 1
            if self.on_fire is not None:
                self.on_fire()


def _port_of(client: Any) -> int:
    from easynetwork.servers.handlers import INETClientAttribute

    return int(client.extra(INETClientAttribute.remote_address).port)


def _thrown_types() -> tuple[type[BaseException], ...]:
    from easynetwork.exceptions import BaseProtocolParseError

    return (BaseProtocolParseError, TimeoutError)


class _Logic:
    """handler logic common to the stream and the datagram handler"""

    sc: _Script

    async def _raise(self, port: int, f: dict, thrown: BaseException | None = None) -> None:
        if f["pre_sleep"]:
            await asyncio.sleep(f["pre_sleep"])
        self.sc.fire(port)
        if f["exc"] == "reraise" and thrown is not None:
            raise thrown
        raise make_exc(f["exc"] if f["exc"] != "reraise" else "ValueError", self.sc.proto)

    async def _echo(self, client: Any, port: int, script: dict, request: Any) -> None:
        if script.get("work"):
            await asyncio.sleep(script["work"])
        await client.send_packet(request)

    async def _healthy_handle(self, client: Any, port: int, script: dict) -> Any:
        stt = self.sc.state[port]
        try:
            while True:
                request = yield
                await self._echo(client, port, script, request)
                if script["style"] == "per":
                    return
        except GeneratorExit:
            raise
        except BaseException as exc:
            if not self.sc.teardown:
                stt.saw.append(type(exc).__name__)
            raise

    async def _faulty_handle(self, client: Any, port: int, f: dict) -> Any:
        stt = self.sc.state[port]
        gi = stt.gens - 1
        kind, n, style = f["kind"], f["n"], f["style"]
        if stt.fired:
            # (UDP) a fresh generator after the fault: plain echo of one request
            request = yield
            await client.send_packet(request)
            return
        if style == "per" and gi < n:
            request = yield
            await client.send_packet(request)
            return
        if style == "loop":
            for _ in range(n):
                request = yield
                await client.send_packet(request)
        if kind == "handle_before":
            await self._raise(port, f)
        elif kind == "handle_after":
            request = yield
            await self._raise(port, f)
        elif kind in ("handle_thrown_parse", "handle_thrown_timeout"):
            while True:
                try:
                    request = yield (f["timeout"] if kind == "handle_thrown_timeout" else None)
                except _thrown_types() as thrown:
                    await self._raise(port, f, thrown)  # raised while handling the thrown error
                else:
                    await client.send_packet(request)  # a request came instead: answer and wait again
        elif kind == "on_disconnection_handler_closes":
            await client.aclose()
            return
        else:
            # on_disconnection / send_fail / recv_fail: a plain echo loop; the failure comes from elsewhere
            while True:
                try:
                    request = yield
                except GeneratorExit:
                    raise
                except Exception:
                    self.sc.fire(port)  # recv_fail with a non-connection error is thrown in here
                    raise
                try:
                    await client.send_packet(request)
                except OSError:
                    self.sc.fire(port)  # send_fail
                    raise


def _make_stream_handler(sc: _Script) -> Any:
    from easynetwork.servers.handlers import AsyncStreamRequestHandler

    class Handler(_Logic, AsyncStreamRequestHandler):  # type: ignore[type-arg,misc]
        def __init__(self) -> None:
            self.sc = sc

        def on_connection(self, client: Any) -> Any:
            port = _port_of(client)
            script = sc.by_port[port]
            sc.state[port].conn_started += 1
            kind = script.get("kind")
            if kind == "onconn_coro":
                return self._conn_faulty_coro(port, script)
            if kind in ("onconn_gen_before", "onconn_gen_after", "onconn_gen_thrown_parse", "onconn_gen_thrown_timeout"):
                return self._conn_faulty_gen(client, port, script)
            if script.get("onconn") == "gen":
                return self._conn_gen(client, port, script)
            return self._conn_coro(port)

        async def _conn_coro(self, port: int) -> None:
            sc.state[port].conn_done += 1

        async def _conn_gen(self, client: Any, port: int, script: dict) -> Any:
            request = yield
            await self._echo(client, port, script, request)
            sc.state[port].conn_done += 1

        async def _conn_faulty_coro(self, port: int, f: dict) -> None:
            await self._raise(port, f)

        async def _conn_faulty_gen(self, client: Any, port: int, f: dict) -> Any:
            kind = f["kind"]
            if kind == "onconn_gen_before":
                await self._raise(port, f)
            elif kind == "onconn_gen_after":
                request = yield
                await self._raise(port, f)
            else:
                while True:
                    try:
                        request = yield (f["timeout"] if kind == "onconn_gen_thrown_timeout" else None)
                    except _thrown_types() as thrown:
                        await self._raise(port, f, thrown)
                    else:
                        await client.send_packet(request)

        def handle(self, client: Any) -> Any:
            port = _port_of(client)
            script = sc.by_port[port]
            sc.state[port].gens += 1
            if script.get("kind") is None:
                return self._healthy_handle(client, port, script)
            return self._faulty_handle(client, port, script)

        async def on_disconnection(self, client: Any) -> None:
            port = _port_of(client)
            script = sc.by_port[port]
            sc.state[port].disc += 1
            if script.get("kind") in ("on_disconnection", "on_disconnection_handler_closes"):
                await self._raise(port, script)

    return Handler()


def _make_datagram_handler(sc: _Script) -> Any:
    from easynetwork.servers.handlers import AsyncDatagramRequestHandler

    class Handler(_Logic, AsyncDatagramRequestHandler):  # type: ignore[type-arg,misc]
        def __init__(self) -> None:
            self.sc = sc

        def handle(self, client: Any) -> Any:
            port = _port_of(client)
            script = sc.by_port[port]
            sc.state[port].gens += 1
            if script.get("kind") is None:
                return self._healthy_handle(client, port, script)
            return self._faulty_handle(client, port, script)

    return Handler()


# ----------------------------------------------------------------------------------------------
# clients (harness side)


class _StreamClient:
    """a client of the in-memory TCP listener; with `tls` the bytes go through an independent stdlib TLS peer"""

    def __init__(self, backend: Any, port: int, tls: bool, *, peername_ok: bool = True, answers_close: bool = True, script: dict | None = None) -> None:
        from ..memtransports import MemStreamTransport

        self.port = port
        self.tr = MemStreamTransport(backend, peername=("127.0.0.1", port) if peername_ok else None, script=script)
        self.fed = 0
        self.tls = tls
        self.peer: Any = None
        self.answers_close = answers_close
        self.raw_mode = False
        if tls:
            from .. import tlspeer

            self.peer = tlspeer.TLSPeer("client")
            self.tr.on_send = self._on_send

    def _on_send(self, data: bytes) -> None:
        if self.raw_mode:
            return
        self.peer.feed(data)
        self._pump()

    def _pump(self) -> None:
        peer = self.peer
        for _ in range(8):
            out = peer.pump()
            if peer.zero_return and self.answers_close and not peer.want_close:
                peer.close()
                out += peer.pump()
            if out and not self.tr.eof and not self.tr.closed:
                self.tr.feed(out)
            if not out:
                break

    def connect(self, listener: Any) -> None:
        listener.connect(self.tr)
        if self.tls and not self.raw_mode:
            self._pump()

    def client_hello(self) -> bytes:
        return self.peer.pump()

    def send(self, line: bytes) -> None:
        if self.tr.closed or self.tr.eof:
            return
        if self.tls:
            self.peer.write(line)
            self._pump()
        else:
            self.tr.feed(line)

    def send_eof(self) -> None:
        if self.tr.closed or self.tr.eof:
            return
        if self.tls and self.peer.handshaken:
            self.peer.close()
            self._pump()
        if not self.tr.closed and not self.tr.eof:
            self.tr.feed_eof()

    def received_lines(self) -> list[bytes]:
        data = bytes(self.peer.plain_in) if self.tls else bytes(self.tr.sent)
        return data.split(b"\n")[:-1]


# ----------------------------------------------------------------------------------------------
# one case on the virtual loop

_SERVER_CTX: dict[str, Any] = {}


def _server_ctx() -> Any:
    if "ctx" not in _SERVER_CTX:
        from .. import tlspeer

        _SERVER_CTX["ctx"] = tlspeer.server_context()
    return _SERVER_CTX["ctx"]


async def _faults_main(case: dict) -> dict:
    from easynetwork.protocol import BufferedStreamProtocol, DatagramProtocol, StreamProtocol
    from easynetwork.serializers import StringLineSerializer
    from easynetwork.servers.async_tcp import AsyncTCPNetworkServer
    from easynetwork.servers.async_udp import AsyncUDPNetworkServer

    from ..memtransports import VerifBackend, make_error

    loop = asyncio.get_running_loop()
    proto = case["proto"]
    tls = proto == "tls"
    udp = proto == "udp"
    f = dict(case["faulty"])
    kind = f["kind"]
    sc = _Script(case)
    backend = VerifBackend()
    serializer = StringLineSerializer(encoding="ascii")
    if udp:
        srv = AsyncUDPNetworkServer(None, 0, DatagramProtocol(serializer), _make_datagram_handler(sc), backend)
    else:
        sproto = BufferedStreamProtocol(serializer) if case.get("buffered") else StreamProtocol(serializer)
        kwargs: dict[str, Any] = {}
        if tls:
            kwargs = {
                "ssl": _server_ctx(),
                "ssl_handshake_timeout": case.get("hs_timeout"),
                "ssl_shutdown_timeout": case.get("ssl_shutdown_timeout"),
                "ssl_standard_compatible": bool(case.get("standard_compatible", True)),
            }
        srv = AsyncTCPNetworkServer(None, 0, sproto, _make_stream_handler(sc), backend, **kwargs)

    up = asyncio.Event()
    serve_task = asyncio.create_task(srv.serve_forever(is_up_event=up), name="c17-serve")
    await up.wait()
    listener = backend.udp_listeners[-1] if udp else backend.tcp_listeners[-1]

    # ---- clients
    FAULTY_PORT = 41000
    healthy_ports = [42001 + i for i in range(len(case["healthy"]))]
    LATE_PORT = 43000
    for port, h in zip(healthy_ports, case["healthy"]):
        sc.add(port, dict(h, kind=None))
    sc.add(FAULTY_PORT, f)
    sc.add(LATE_PORT, {"kind": None, "work": case.get("late_work", 0.0), "style": "per", "onconn": "default"})

    sclients: dict[int, _StreamClient] = {}
    fed: dict[int, int] = {p: 0 for p in healthy_ports}
    expected: dict[int, list[bytes]] = {p: [] for p in [*healthy_ports, LATE_PORT, FAULTY_PORT]}

    def echoes(port: int) -> list[bytes]:
        if udp:
            return [d for d, a in listener.sent if a[1] == port]
        return sclients[port].received_lines()

    info: dict[str, Any] = {"inflight_at_fault": None, "fault_time": None}

    def on_fire() -> None:
        if info["fault_time"] is None:
            info["fault_time"] = loop.time()
            info["inflight_at_fault"] = sum(fed[p] - len(echoes(p)) for p in healthy_ports)
            info["serving_at_fault"] = not serve_task.done()

    sc.on_fire = on_fire

    events: list[tuple[float, int, int, Any]] = []  # (time, seq, extra yields, fn)

    def at(t: float, y: int, fn: Any) -> None:
        events.append((t, len(events), y, fn))

    def send_to(port: int, payload: bytes, *, count: bool = False) -> Any:
        def fn() -> None:
            if count:
                fed[port] += 1
            if udp:
                listener.deliver(payload, ("127.0.0.1", port))
            else:
                sclients[port].send(payload + b"\n")

        return fn

    for port, h in zip(healthy_ports, case["healthy"]):
        if not udp:
            c = _StreamClient(backend, port, tls, answers_close=case.get("peer_answers_close", True))
            sclients[port] = c
            at(h["start"], 0, lambda c=c: c.connect(listener))
        for j in range(h["n"]):
            payload = f"h{port}-{j}".encode()
            expected[port].append(payload)
            at(h["start"] + (j + 1) * h["gap"], h["y"], send_to(port, payload, count=True))

    # ---- the faulty client
    t0, gap, y = f["t0"], f["gap"], f["y"]
    fc: _StreamClient | None = None
    if not udp:
        fscript = None
        if kind == "send_fail" and not tls:
            idx = f["n"] + (1 if f["onconn"] == "gen" else 0)
            fscript = {"fail": {"send_all_from_iterable": {str(idx): f["exc"]}}}
        fc = _StreamClient(
            backend, FAULTY_PORT, tls, peername_ok=(kind != "no_peername"), answers_close=case.get("peer_answers_close", True), script=fscript
        )
        sclients[FAULTY_PORT] = fc
        if kind in SETUP_KINDS:
            fc.tr.on_close = on_fire  # the moment the server gives the connection up
        if kind in TLS_SETUP:
            fc.raw_mode = True
            hello = fc.client_hello()
            prefix = hello[: f["hello_prefix"]]
            if kind == "hs_stall" and len(prefix) >= len(hello):
                prefix = hello[:-1]

            def start_raw() -> None:
                assert fc is not None
                fc.connect(listener)
                if prefix:
                    fc.tr.feed(prefix)

            at(t0, 0, start_raw)
            tt = t0 + gap
            if kind == "hs_garbage":
                at(tt, y, lambda: None if fc.tr.closed else fc.tr.feed(f["garbage"]))
            elif kind == "hs_reset":
                at(tt, y, lambda: fc.tr.feed_error(make_error("ConnectionResetError")))
            elif kind == "hs_eof":
                at(tt, y, lambda: None if fc.tr.closed else fc.tr.feed_eof())
        else:
            at(t0, 0, lambda: fc.connect(listener))
    npre = f["n"] + (1 if f.get("onconn") == "gen" else 0)
    tcur = t0
    if kind not in SETUP_KINDS:
        for j in range(npre):
            tcur += gap
            payload = f"f-{j}".encode()
            expected[FAULTY_PORT].append(payload)
            at(tcur, 0, send_to(FAULTY_PORT, payload))
        tcur += gap
        if kind == "send_fail" and tls:

            def break_for_writing() -> None:
                assert fc is not None
                fc.tr.send_error = make_error(f["exc"])

            at(tcur, 0, break_for_writing)
        if kind in ("onconn_gen_after", "handle_after", "send_fail") or (udp and kind == "handle_before"):
            at(tcur, y, send_to(FAULTY_PORT, b"f-trigger"))
        elif kind in ("onconn_gen_thrown_parse", "handle_thrown_parse"):
            at(tcur, y, send_to(FAULTY_PORT, BAD_FRAME))
        elif kind == "on_disconnection":
            at(tcur, y, lambda: fc.send_eof())
        elif kind == "recv_fail":

            def recv_fail() -> None:
                assert fc is not None
                if f["exc"] in ("ConnectionResetError", "ConnectionAbortedError"):
                    on_fire()  # a disconnect as far as the server is concerned: nothing is thrown into the handler
                fc.tr.feed_error(make_error(f["exc"]))

            at(tcur, y, recv_fail)
        # datagrams / requests sent by the faulty peer shortly after the trigger (UDP: queued behind the failing handler)
        if udp:
            base = tcur + (f["timeout"] if kind == "handle_thrown_timeout" else 0.0)
            for j, d in enumerate(f["later"]):
                payload = f"f-later-{j}".encode()
                expected[FAULTY_PORT].append(payload)
                at(base + d, 0, send_to(FAULTY_PORT, payload))

    # ---- run the timeline
    events.sort(key=lambda e: (e[0], e[1]))
    start = loop.time()
    for t, _seq, yy, fn in events:
        dt = start + t - loop.time()
        if dt > 0:
            await asyncio.sleep(dt)
        for _ in range(yy):
            await asyncio.sleep(0)
        fn()
    await asyncio.sleep(SETTLE_S)

    info["serve_done_after_settle"] = serve_task.done()
    if serve_task.done():
        info["serve_exc"] = _describe_task(serve_task)
    info["is_serving"] = bool(srv.is_serving())

    # ---- a client that arrives after the fault must be served; UDP: the faulty address starts a fresh handler
    if not serve_task.done():
        if udp:
            gens_before = sc.state[FAULTY_PORT].gens
            listener.deliver(b"f-final", ("127.0.0.1", FAULTY_PORT))
            expected[FAULTY_PORT].append(b"f-final")
        late = None
        if not udp:
            late = _StreamClient(backend, LATE_PORT, tls, answers_close=True)
            sclients[LATE_PORT] = late
            late.connect(listener)
        expected[LATE_PORT].append(b"late-0")
        send_to(LATE_PORT, b"late-0")()
        await asyncio.sleep(SETTLE_S)
        if udp:
            info["faulty_gens_before_final"] = gens_before
            info["faulty_gens_after_final"] = sc.state[FAULTY_PORT].gens
    info["echoes"] = {p: echoes(p) for p in [*healthy_ports, LATE_PORT] if udp or p in sclients}
    info["faulty_echoes"] = echoes(FAULTY_PORT) if (udp or FAULTY_PORT in sclients) else []
    info["saw"] = {p: list(sc.state[p].saw) for p in [*healthy_ports, LATE_PORT]}
    info["fired"] = sc.state[FAULTY_PORT].fired or info["fault_time"] is not None
    info["fired_gen"] = sc.state[FAULTY_PORT].fired_gen
    info["serve_done_before_eof"] = serve_task.done()
    if serve_task.done() and "serve_exc" not in info:
        info["serve_exc"] = _describe_task(serve_task)

    # ---- everybody leaves
    if not udp:
        for c in sclients.values():
            c.send_eof()
        await asyncio.sleep(SETTLE_S)
        info["closed"] = {p: bool(c.tr.closed) for p, c in sclients.items()}
    info["hooks"] = {
        p: {"conn_started": s.conn_started, "conn_done": s.conn_done, "disc": s.disc, "gens": s.gens} for p, s in sc.state.items()
    }
    info["serve_done_at_end"] = serve_task.done()
    if serve_task.done() and "serve_exc" not in info:
        info["serve_exc"] = _describe_task(serve_task)
    info["is_serving_at_end"] = bool(srv.is_serving())
    info["expected"] = expected
    info["ports"] = {"healthy": healthy_ports, "faulty": FAULTY_PORT, "late": LATE_PORT}

    sc.teardown = True
    await srv.shutdown()
    try:
        await serve_task
    except BaseException as exc:  # noqa: BLE001 - already described above when it matters
        info.setdefault("serve_exc", repr(exc))
    await srv.server_close()
    return info


def _describe_task(task: asyncio.Task[Any]) -> str:
    import traceback

    if task.cancelled():
        return "cancelled"
    exc = task.exception()
    if exc is None:
        return "returned normally"
    return "".join(traceback.format_exception(exc))[-3000:]


def run_faults_case(case: dict) -> Outcome:
    from ..vloop import Deadlock, run_virtual

    logging.disable(logging.CRITICAL)
    f = case["faulty"]
    kind = f["kind"]
    proto = case["proto"]
    ctx = {"proto": proto, "hook": kind, "exc": f["exc"]}
    try:
        info = run_virtual(_faults_main, case, max_ticks=3_000_000)
    except Deadlock as exc:
        raise Violation("deadlock", f"the virtual loop could not make progress: {exc}", **ctx) from exc

    ports = info["ports"]
    details = dict(ctx, hooks=info["hooks"], fault_time=info["fault_time"], inflight_at_fault=info["inflight_at_fault"])

    # 1. the server keeps running
    for key in ("serve_done_after_settle", "serve_done_before_eof", "serve_done_at_end"):
        if info.get(key):
            raise Violation("server-died", f"serve_forever() ended after the fault ({key}): {info.get('serve_exc', '')[-1800:]}", **details)
    if not info["is_serving"] or not info["is_serving_at_end"]:
        raise Violation("server-not-serving", "is_serving() is False after the fault", **details)

    # 2. no healthy handler was disturbed (a task group that cancels its siblings shows up here first)
    for p, saw in info["saw"].items():
        if saw:
            raise Violation("sibling-disturbed", f"healthy handler of client {p} had {saw} thrown into it", client=p, **details)

    # 3. every healthy client (and the one that arrives afterwards) receives all its echoes, in order
    for p in [*ports["healthy"], ports["late"]]:
        got = info["echoes"].get(p, [])
        want = info["expected"][p]
        if got != want:
            raise Violation("healthy-not-served", f"client {p} expected echoes {want} but received {got}", client=p, **details)

    fp = ports["faulty"]
    fh = info["hooks"][fp]
    if not info["fired"]:
        raise HarnessError(f"C17: the fault never fired for {ctx} (hooks {fh})")
    classes = [proto, f"hook={kind}", f"exc={f['exc']}", f"K={len(ports['healthy'])}"]

    if proto == "udp":
        # 4u. later datagrams from the faulty address start a fresh handler and are answered
        if info["faulty_gens_after_final"] <= (info["fired_gen"] or 0):
            raise Violation("no-fresh-handler", "no new handler generator was started for the faulty address after the fault", **details)
        got = info["faulty_echoes"]
        if b"f-final" not in got:
            raise Violation("faulty-address-not-served", f"the datagram sent from the faulty address after the fault was not answered (answers: {got})", **details)
        want_later = [e for e in info["expected"][fp] if e.startswith(b"f-later")]
        missing = [e for e in want_later if e not in got]
        if missing:
            raise Violation("faulty-address-not-served", f"datagrams {missing} queued behind the failing handler were never answered (answers: {got})", **details)
        if want_later:
            classes.append("udp-queued-behind-fault")
        # the datagram whose handler failed is consumed by that failure: it must not come back to a later handler
        # (a server that does not drop it re-feeds it to every fresh generator)
        unexpected = [e for e in got if e not in info["expected"][fp]]
        if unexpected:
            raise Violation(
                "stale-datagram-redelivered",
                f"the faulty address received answers {unexpected} to datagrams whose handling had failed (expected answers: {info['expected'][fp]})",
                **details,
            )
    else:
        # 4t. the failing connection is closed and the disconnection hook ran iff on_connection had completed
        if not info["closed"].get(fp):
            raise Violation("faulty-connection-open", "the failing client's connection is still open at quiescence", **details)
        if fh["disc"] != fh["conn_done"]:
            raise Violation(
                "disconnection-hook",
                f"faulty client: on_connection completed {fh['conn_done']} time(s) but on_disconnection ran {fh['disc']} time(s)",
                **details,
            )
        if kind in SETUP_KINDS and fh["conn_started"]:
            raise Violation("hook-after-setup-failure", "on_connection ran for a connection whose set-up failed", **details)
        for p in [*ports["healthy"], ports["late"]]:
            h = info["hooks"][p]
            if (h["conn_started"], h["conn_done"], h["disc"]) != (1, 1, 1):
                raise Violation("disconnection-hook", f"healthy client {p}: hook counts {h} (expected one connection, one disconnection)", client=p, **details)
            if not info["closed"].get(p):
                raise Violation("healthy-connection-open", f"healthy client {p} sent EOF but its connection is still open", client=p, **details)

    inflight = info["inflight_at_fault"] or 0
    if inflight:
        classes.append("fault-while-inflight")
    if inflight >= 2:
        classes.append("inflight>=2")
    if case.get("buffered") and proto != "udp":
        classes.append("buffered-path")
    if kind in ONCONN_KINDS:
        classes.append("disconnection-hook-must-not-run")
    return Outcome(nontrivial=inflight >= 1, classes=tuple(classes))


# ----------------------------------------------------------------------------------------------
# layer "rst": real loopback sockets reset right after being accepted (real asyncio loop, real time)

RST_WAIT_S = 10.0


@st.composite
def st_rst_case(draw: st.DrawFn, tier: str) -> dict:
    return {
        "k": draw(st.integers(1, 3)),
        "rounds": draw(st.integers(2, 6)),
        "resets": draw(
            st.lists(
                st.fixed_dictionaries(
                    {
                        "send": st.sampled_from([b"", b"", b"partial", b"full\n", b"\xff\xfe\n"]),
                        "delay_ms": st.sampled_from([0, 0, 0, 1, 3]),
                    }
                ),
                min_size=1,
                max_size=6,
            )
        ),
        "work_ms": draw(st.sampled_from([0, 1, 5])),
        "tls": draw(st.sampled_from([False, False, True])),
    }


def run_rst_case(case: dict) -> Outcome:
    from easynetwork.protocol import StreamProtocol
    from easynetwork.serializers import StringLineSerializer
    from easynetwork.servers.async_tcp import AsyncTCPNetworkServer
    from easynetwork.servers.handlers import AsyncStreamRequestHandler

    logging.disable(logging.CRITICAL)
    work = case["work_ms"] / 1000.0
    counts: dict[str, Any] = {"conn": 0, "disc": 0, "saw": []}

    class Echo(AsyncStreamRequestHandler):  # type: ignore[type-arg]
        async def on_connection(self, client: Any) -> None:
            counts["conn"] += 1

        async def on_disconnection(self, client: Any) -> None:
            counts["disc"] += 1

        async def handle(self, client: Any) -> Any:
            try:
                request = yield
            except asyncio.CancelledError:
                # nobody cancels a handler before the final shutdown: a cancellation means the task group was torn down
                if not counts.get("teardown"):
                    counts["saw"].append("CancelledError")
                raise
            if work:
                await asyncio.sleep(work)
            await client.send_packet(request)

    result: dict[str, Any] = {}

    async def main() -> None:
        loop = asyncio.get_running_loop()
        kwargs: dict[str, Any] = {}
        client_ctx = None
        if case["tls"]:
            from .. import tlspeer

            kwargs = {"ssl": _server_ctx(), "ssl_handshake_timeout": 5.0, "ssl_shutdown_timeout": 1.0}
            client_ctx = tlspeer.client_context()
        srv = AsyncTCPNetworkServer("127.0.0.1", 0, StreamProtocol(StringLineSerializer(encoding="ascii")), Echo(), "asyncio", **kwargs)
        up = asyncio.Event()
        serve_task = asyncio.create_task(srv.serve_forever(is_up_event=up))
        try:
            try:
                await asyncio.wait_for(up.wait(), RST_WAIT_S)
            except TimeoutError:
                result["inconclusive"] = "server did not come up in time"
                return
            addr = srv.get_addresses()[0]
            target = (addr.host, addr.port)

            async def healthy(i: int, rounds: int) -> None:
                r, w = await asyncio.open_connection(*target, ssl=client_ctx, server_hostname="localhost" if client_ctx else None)
                try:
                    for j in range(rounds):
                        line = f"h{i}-{j}\n".encode()
                        w.write(line)
                        await w.drain()
                        got = await r.readline()
                        if got != line:
                            result.setdefault("wrong", []).append((i, j, got))
                            return
                finally:
                    w.close()
                    try:
                        await w.wait_closed()
                    except Exception:  # noqa: BLE001 - TLS close races are not the subject
                        pass

            async def resetter() -> None:
                for r in case["resets"]:
                    s = socket.socket(socket.AF_INET, socket.SOCK_STREAM)
                    s.setblocking(False)
                    try:
                        await loop.sock_connect(s, target)
                        if r["send"]:
                            await loop.sock_sendall(s, r["send"])
                        if r["delay_ms"]:
                            await asyncio.sleep(r["delay_ms"] / 1000.0)
                        s.setsockopt(socket.SOL_SOCKET, socket.SO_LINGER, struct.pack("ii", 1, 0))
                    finally:
                        s.close()  # RST

            try:
                await asyncio.wait_for(
                    asyncio.gather(resetter(), *(healthy(i, case["rounds"]) for i in range(case["k"]))),
                    RST_WAIT_S,
                )
            except TimeoutError:
                result["timeout"] = "healthy clients / resetter did not finish in time"
            except OSError as exc:
                result["client_oserror"] = repr(exc)
            if not serve_task.done() and "timeout" not in result:
                try:
                    await asyncio.wait_for(healthy(99, 1), RST_WAIT_S)
                except TimeoutError:
                    result["timeout"] = "late healthy client did not finish in time"
                except OSError as exc:
                    result["client_oserror"] = repr(exc)
            await asyncio.sleep(0.02)
            result["serve_done"] = serve_task.done()
            if serve_task.done():
                result["serve_exc"] = _describe_task(serve_task)
            result["is_serving"] = bool(srv.is_serving())
        finally:
            counts["teardown"] = True
            try:
                await asyncio.wait_for(srv.shutdown(), RST_WAIT_S)
            except TimeoutError:
                result["inconclusive"] = "shutdown did not return in time"
                serve_task.cancel()
            try:
                await serve_task
            except BaseException:  # noqa: BLE001
                pass
            await srv.server_close()

    asyncio.run(main())
    ctx = {"resets": len(case["resets"]), "k": case["k"], "tls": case["tls"], "counts": dict(counts)}
    if result.get("serve_done"):
        raise Violation("server-died", f"serve_forever() ended after a connection reset: {result.get('serve_exc', '')[-1800:]}", **ctx)
    if counts["saw"]:
        raise Violation("sibling-disturbed", f"a handler had {counts['saw']} thrown into it", **ctx)
    if result.get("wrong"):
        raise Violation("healthy-not-served", f"healthy client received a wrong echo: {result['wrong']}", **ctx)
    if result.get("inconclusive") or result.get("timeout") or result.get("client_oserror"):
        raise Inconclusive(str(result.get("inconclusive") or result.get("timeout") or result.get("client_oserror")))
    if not result.get("is_serving"):
        raise Violation("server-not-serving", "is_serving() is False after the resets", **ctx)
    classes = [f"K={case['k']}", "tls" if case["tls"] else "plain"]
    if counts["conn"] < case["k"] + 1 + len(case["resets"]):
        classes.append("reset-before-handler")
    if counts["conn"] > case["k"] + 1:
        classes.append("reset-seen-by-handler")
    return Outcome(nontrivial=True, classes=tuple(classes))


# ----------------------------------------------------------------------------------------------
# ----------------------------------------------------------------------------------------------
# layer "dead-connection": one client's connection dies with an error that is *not* a ConnectionError (ETIMEDOUT after
# failed keep-alive probes - a TimeoutError! -, EHOSTUNREACH, ENETDOWN): from then on every read of that transport raises
# at once.  Its handler is an ordinary tolerant one (idle-timeout loop `except TimeoutError: continue`, or catch-all and
# go on).  Whatever the server makes of that client, the event loop must keep running between two errors thrown into
# the handler, so that the healthy clients are still served.

DEAD_ERRNOS = {"ETIMEDOUT": 110, "EHOSTUNREACH": 113, "ENETDOWN": 100, "ENETUNREACH": 101}
# connection errors proper: the documented behaviour is a disconnection (generator closed, on_disconnection() runs, nothing
# is thrown into the handler)
DISCONNECT_ERRORS = {"ECONNRESET": ConnectionResetError, "ECONNABORTED": ConnectionAbortedError, "EPIPE": BrokenPipeError}
EXCLUDE_D44 = True  # known finding: a TLS client sending one frame per record has its whole backlog handled in one loop iteration
STARVE_LIMIT = 50  # errors thrown into one handler without the event loop running in between


class _Starved(Exception):
    pass


async def _dead_connection_main(case: dict) -> dict:
    from easynetwork.exceptions import StreamProtocolParseError
    from easynetwork.protocol import BufferedStreamProtocol, StreamProtocol
    from easynetwork.serializers.line import StringLineSerializer
    from easynetwork.servers.async_tcp import AsyncTCPNetworkServer
    from easynetwork.servers.handlers import AsyncStreamRequestHandler, INETClientAttribute

    from ..memtransports import MemStreamTransport, VerifBackend

    loop = asyncio.get_running_loop()
    backend = VerifBackend()
    res: dict[str, Any] = {"thrown": 0, "thrown_injected": 0, "parse_errors": 0, "valid_requests": 0, "run": 0, "last_tick": -1, "starved": False, "max_run": 0, "disconnected": [], "handler_errors": []}
    FAULTY = 41000

    class Handler(AsyncStreamRequestHandler):  # type: ignore[type-arg]
        async def handle(self, client: Any) -> Any:
            port = int(client.extra(INETClientAttribute.remote_address).port)
            if port != FAULTY:
                while True:
                    request = yield
                    await client.send_packet(request)
            # (the counters live outside the generator: a handler that *returns* on an error is restarted by the server)
            def resumed(what: BaseException | None) -> None:
                tick = loop.ticks  # type: ignore[attr-defined]
                res["run"] = res["run"] + 1 if tick == res["last_tick"] else 1
                res["last_tick"] = tick
                res["max_run"] = max(res["max_run"], res["run"])
                if res["run"] >= STARVE_LIMIT:
                    res["starved"] = True
                    raise _Starved(f"{res['run']} requests/errors delivered to the handler within one event-loop iteration") from what

            while True:
                try:
                    if case.get("poll_style") == "own-scope" and case["idle_timeout"] == 0:
                        # the handler bounds the wait with a scope of its own instead of yielding the timeout
                        with client.backend().timeout(0):
                            request = yield
                    else:
                        request = yield case["idle_timeout"]
                except GeneratorExit:
                    raise
                except BaseException as exc:  # noqa: BLE001
                    tolerated = isinstance(exc, TimeoutError) if case["handler"] == "idle-timeout" else isinstance(exc, Exception)
                    if not tolerated:
                        res["handler_errors"].append(type(exc).__name__)
                        raise
                    res["thrown"] += 1
                    if getattr(exc, "errno", None) is not None:  # (an idle time-out of the yielded timeout carries no errno)
                        res["thrown_injected"] += 1
                    if isinstance(exc, StreamProtocolParseError):
                        res["parse_errors"] += 1
                    resumed(exc)
                    if case["idle_timeout"] == 0 and isinstance(exc, TimeoutError):
                        # a polling handler does something else for a moment between two empty polls (a handler polling in a
                        # closed loop always has an expired scope's cancellation pending: known finding D5 would swallow the
                        # harness's own shutdown)
                        await asyncio.sleep(0)
                    if case["handler"] == "return-on-error":
                        return  # "this request failed": the server starts a fresh generator for the next one
                    continue
                res["valid_requests"] += 1
                resumed(None)
                if case["errno"] != "VALID":
                    await client.send_packet(request)

        async def on_disconnection(self, client: Any) -> None:
            res["disconnected"].append(int(client.extra(INETClientAttribute.remote_address).port))

    proto: Any = BufferedStreamProtocol(StringLineSerializer()) if case["buffered"] else StreamProtocol(StringLineSerializer())
    tls = bool(case.get("tls"))
    skw: dict[str, Any] = {"ssl": _server_ctx()} if tls else {}
    srv = AsyncTCPNetworkServer(None, 0, proto, Handler(), backend, **skw)
    up = asyncio.Event()
    serve_task = asyncio.create_task(srv.serve_forever(is_up_event=up))
    await up.wait()
    listener = backend.tcp_listeners[-1]
    clients: dict[int, _StreamClient] = {}
    mems: dict[int, MemStreamTransport] = {}
    for port in [FAULTY] + [42001 + i for i in range(case["healthy"])]:
        c = _StreamClient(backend, port, tls)
        clients[port] = c
        mems[port] = c.tr
        c.connect(listener)
    expected: dict[int, list[bytes]] = {p: [] for p in mems if p != FAULTY}
    t = 0.25
    for j, gap in enumerate(case["request_gaps"]):
        t += gap
        for p in expected:
            payload = f"h{p}-{j}\n".encode()
            expected[p].append(payload)
            loop.call_at(t, clients[p].send, payload)
    if case["faulty_request_first"]:
        loop.call_at(0.125, clients[FAULTY].send, b"hello\n")
    exc: BaseException
    if case["errno"] in ("PARSE", "VALID"):
        # not a dead connection but a hostile / greedy one: a burst of malformed (or valid) frames, in one segment or
        # - over TLS - one frame per record
        frame = b"\xff\n" if case["errno"] == "PARSE" else b"ok\n"

        def burst() -> None:
            if tls and case.get("per_record"):
                for _ in range(case["malformed"]):
                    clients[FAULTY].send(frame)
            else:
                clients[FAULTY].send(frame * case["malformed"])

        loop.call_at(case["fault_at"], burst)
        exc = None  # type: ignore[assignment]
    elif case["errno"] in DISCONNECT_ERRORS:
        exc = DISCONNECT_ERRORS[case["errno"]](104, case["errno"])
    elif case["errno"] == "ETIMEDOUT":
        exc = TimeoutError(DEAD_ERRNOS["ETIMEDOUT"], "Connection timed out")
    else:
        exc = OSError(DEAD_ERRNOS[case["errno"]], case["errno"])
    if exc is not None:
        loop.call_at(case["fault_at"], mems[FAULTY].feed_error, exc)
    await asyncio.sleep(t + 2.0)
    res["serving"] = not serve_task.done()
    res["echoes"] = {p: b"".join(line + b"\n" for line in clients[p].received_lines()) for p in expected}
    res["expected"] = {p: b"".join(v) for p, v in expected.items()}
    res["faulty_closed"] = mems[FAULTY].closed
    res["disconnected_before_shutdown"] = list(res["disconnected"])
    if not serve_task.done():
        await srv.shutdown()
    await asyncio.gather(serve_task, return_exceptions=True)
    await srv.server_close()
    return res


def run_dead_connection_case(case: dict) -> Outcome:
    from ..vloop import Deadlock, run_virtual

    logging.disable(logging.CRITICAL)
    try:
        r = run_virtual(_dead_connection_main, case, max_ticks=3_000_000)
    except Deadlock as exc:
        raise Violation("deadlock", f"server with a dead connection does not make progress: {str(exc)[:800]}") from exc
    detail = {"errno": case["errno"], "handler": case["handler"], "thrown": r["thrown"], "max_run": r["max_run"]}
    # known finding D44: over TLS with one frame per record, recv() never suspends while the SSL object holds further records
    shape_d44 = bool(case.get("tls")) and bool(case.get("per_record")) and case["errno"] in ("PARSE", "VALID")
    if r["starved"] and shape_d44 and EXCLUDE_D44 and not case.get("no_exclude"):
        return Outcome(nontrivial=False, classes=("excluded-D44", f"errno-{case['errno']}", "tls"), note="starved over TLS (known finding D44): not judged")
    if shape_d44:
        detail["shape_d44"] = True
    if r["starved"]:
        raise Violation(
            "event-loop-starved",
            (
                f"{case.get('malformed')} {'malformed' if case['errno'] == 'PARSE' else 'valid'} frames of one client ({'TLS, ' + ('one per record' if case.get('per_record') else 'one write') if case.get('tls') else 'plain'}) were "
                f"delivered to its handler, {STARVE_LIMIT} of them in a row without the event loop running in between: every other client is starved for as long as that client keeps sending"
                if case["errno"] in ("PARSE", "VALID")
                else f"the dead connection's error ({case['errno']}) was thrown into its (tolerant) handler {STARVE_LIMIT} times in a row without the "
                "event loop running in between: every other client is starved for as long as that handler keeps going"
            ),
            **detail,
        )
    if not r["serving"]:
        raise Violation("server-stopped", "serve_forever() ended because of one dead connection", **detail)
    if case["errno"] in DEAD_ERRNOS and not r["thrown_injected"] and not r["faulty_closed"]:
        raise Violation(
            "connection-error-masked",
            f"the dead connection's error ({case['errno']}) was never thrown into its handler (idle timeout {case['idle_timeout']!r}: {r['thrown']} other errors, "
            "i.e. time-outs, instead) and the connection was not closed either: the application never learns that the peer is gone",
            **detail,
        )
    if case["errno"] in DISCONNECT_ERRORS:
        if r["thrown_injected"]:
            raise Violation(
                "disconnect-thrown-into-handler",
                f"{case['errno']} on the client's connection was thrown into its request handler {r['thrown_injected']} time(s) instead of ending the connection",
                **detail,
            )
        if FAULTY_PORT_DEAD not in r["disconnected_before_shutdown"] or not r["faulty_closed"]:
            raise Violation("disconnection-hook", f"{case['errno']}: on_disconnection() did not run / the connection was not closed", **detail)
    if case["errno"] == "VALID" and r["valid_requests"] < case["malformed"]:
        raise Violation("requests-missing", f"{case['malformed']} valid frames sent by the greedy client, {r['valid_requests']} reached its handler", **detail)
    if case["errno"] == "PARSE" and case["handler"] != "idle-timeout" and r["parse_errors"] != case["malformed"]:
        raise Violation("parse-errors-miscounted", f"{case['malformed']} malformed frames sent, {r['parse_errors']} parse errors reached the tolerant handler", **detail)
    for p, exp in r["expected"].items():
        if r["echoes"][p] != exp:
            raise Violation("healthy-client-affected", f"healthy client {p} got {len(r['echoes'][p])} of {len(exp)} echoed bytes", **detail)
    classes = [f"errno-{case['errno']}", "tls" if case.get("tls") else "plain", f"handler-{case['handler']}", "handler-left" if r["handler_errors"] or FAULTY_PORT_DEAD in r["disconnected"] else "handler-kept-going"]
    return Outcome(nontrivial=r["thrown"] >= 2, classes=tuple(classes), note=f"thrown={r['thrown']} longest run within one loop iteration={r['max_run']}")


FAULTY_PORT_DEAD = 41000


@st.composite
def st_dead_connection_case(draw: st.DrawFn, tier: str) -> dict:
    case = draw(_st_dead_connection_case_raw(tier))
    if case["idle_timeout"] == 0 and (case["errno"] in ("PARSE", "VALID") or case["handler"] != "idle-timeout"):
        # a polling handler whose connection stays open until the harness shuts the server down: every poll has an expired
        # scope's cancellation pending, and the known finding D5 then swallows the shutdown of the harness itself with
        # probability ~1/2 - polling handlers are only generated where the fault ends the connection
        case["idle_timeout"] = 0.5
    return case


@st.composite
def _st_dead_connection_case_raw(draw: st.DrawFn, tier: str) -> dict:
    return {
        "errno": draw(st.sampled_from(sorted(DEAD_ERRNOS) + sorted(DISCONNECT_ERRORS) + ["PARSE", "PARSE", "PARSE", "VALID", "VALID"])),
        "tls": draw(st.booleans()),
        "per_record": draw(st.sampled_from([True, True, False])),
        "poll_style": draw(st.sampled_from(["yield", "own-scope"])),
        "malformed": draw(st.sampled_from([3, 60, 500, 3000])),
        "handler": draw(st.sampled_from(["idle-timeout", "catch-all", "return-on-error"])),
        "idle_timeout": draw(st.sampled_from([None, 0.5, 5.0, 0.0])),  # 0: a polling handler
        "buffered": draw(st.booleans()),
        "healthy": draw(st.integers(1, 2)),
        "request_gaps": draw(st.lists(st.sampled_from([0.25, 0.5, 1.0]), min_size=1, max_size=4)),
        "fault_at": draw(st.sampled_from([0.375, 0.625, 1.125, 2.125])),
        "faulty_request_first": draw(st.booleans()),
    }



CHECK = Check(
    id="C17",
    level="exploration",
    rule=(
        "case = one faulty client (exception class name x hook position, or a connection set-up fault: TLS handshake garbage / stall "
        "until the virtual handshake timeout / reset / EOF, or an accepted socket that is already disconnected; or a transport-level "
        "send/recv failure) interpreted by one generic request handler, x 1-3 healthy echo clients with generated request times and "
        "virtual service times, x TCP plain | TCP TLS | UDP, on the virtual-time loop over in-memory listeners (layer faults); real "
        "loopback connections reset with SO_LINGER 0 next to healthy ping-pong clients (layer rst); layer dead-connection: the faulty "
        "client's transport raises a persistent ETIMEDOUT/EHOSTUNREACH/ENETDOWN/ENETUNREACH or ECONNRESET/ECONNABORTED/EPIPE from a generated "
        "time on, or (fault PARSE) it sends a burst of 3-3000 malformed frames in one segment, while its handler is a tolerant idle-timeout or catch-all loop, next to 1-2 healthy echo clients, non-trivial = the error "
        "was thrown into the handler at least twice; otherwise non-trivial = the fault fires while "
        "at least one healthy client has a request fed and not yet answered; distinct = sha1 of the canonical case JSON"
    ),
    layers=[
        Layer("faults", st_case, run_faults_case, {"quick": 2000, "thorough": 8000}),
        Layer("rst", st_rst_case, run_rst_case, {"quick": 20, "thorough": 40}, case_timeout_s=120.0),
        Layer("dead-connection", st_dead_connection_case, run_dead_connection_case, {"quick": 250, "thorough": 1200}),
    ],
    assumptions=[
        "only Exception subclasses are injected (BaseExceptions such as KeyboardInterrupt are designed to stop the server)",
        "layer faults: listeners and connections are in-memory objects handed out by a backend subclass; the servers, the TLS listener/transport, task groups and timeouts are the unmodified library on the real asyncio backend with a virtual clock; TLS peers are independent stdlib SSLObjects",
        "the 'reset right after accept' sub-domain is covered twice: deterministically as an accepted transport without a peer name (what the server sees when the RST wins the race) and with real loopback sockets, where timing is not owned and a timeout is inconclusive, never a violation",
        "on_disconnection is expected iff on_connection completed (documented conditions); the failing connection must be closed at quiescence",
    ],
)
