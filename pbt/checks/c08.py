"""C08 — the TLS transport is a transparent, encrypted byte stream (DESIGN.md section 3, C08)."""

from __future__ import annotations

import asyncio
from typing import Any

from hypothesis import strategies as st

from .. import tlsharness, tlspeer
from ..core import Check, Layer, Outcome, Violation
from ..vloop import Deadlock, run_virtual

SIZES = st.one_of(st.integers(1, 64), st.sampled_from([1, 100, 1000, 16383, 16384, 16385, 20000, 50000]))
FRAGS = st.one_of(
    st.just([1]),
    st.just([1 << 20]),
    st.lists(st.integers(1, 40), min_size=1, max_size=6),
    st.lists(st.sampled_from([1, 2, 5, 7, 100, 1000, 5000, 16384, 20000]), min_size=1, max_size=6),
)
DELAYS = st.lists(st.sampled_from([0.0, 0.0, 0.0, 0.001, 0.01, 0.5]), min_size=1, max_size=5)


@st.composite
def st_async_case(draw: st.DrawFn, tier: str) -> dict:
    big = tier == "thorough"
    sut_writes = draw(st.lists(SIZES, min_size=0, max_size=6))
    peer_writes = draw(st.lists(SIZES, min_size=0, max_size=6))
    if not sut_writes and not peer_writes:
        sut_writes = [draw(SIZES)]
    if draw(st.integers(0, 7)) == 0:
        # one write of several hundred KiB: its ciphertext is larger than the 256 KiB buffers of the TLS transport
        sut_writes = [draw(st.sampled_from([300000, 700000]))] + sut_writes[:2]
        peer_writes = peer_writes[:2]
    frag_to_sut = draw(FRAGS)
    frag_to_peer = draw(FRAGS)
    total = sum(sut_writes) + sum(peer_writes)
    # byte-by-byte delivery of hundreds of KiB is slow without adding schedule diversity: cap the volume in that class
    if max(sut_writes + peer_writes) > 100000:
        # a write of several hundred KiB (ciphertext larger than the transport's 256 KiB buffers): keep deliveries coarse
        frag_to_sut = [1 << 20]
        frag_to_peer = [1 << 20]
    if (frag_to_sut == [1] or frag_to_peer == [1] or max(frag_to_sut) <= 40 or max(frag_to_peer) <= 40) and total > (60000 if big else 20000):
        sut_writes = [min(s, 3000) for s in sut_writes]
        peer_writes = [min(s, 3000) for s in peer_writes]
    return {
        "sut_role": draw(st.sampled_from(["client", "server"])),
        "version": draw(st.sampled_from(["1.2", "1.3"])),
        "sut_writes": sut_writes,
        "peer_writes": peer_writes,
        # request/response dependency: the peer sends write j only after it has received this fraction of the SUT's bytes
        "peer_after": draw(st.lists(st.sampled_from([0, 0, 1, 2]), min_size=1, max_size=4)),
        "peer_write_times": draw(st.lists(st.sampled_from([0.0, 0.0, 0.001, 0.02, 0.3]), min_size=1, max_size=4)),
        "sut_write_gaps": draw(st.lists(st.sampled_from([0.0, 0.0, 0.001, 0.02]), min_size=1, max_size=4)),
        "send_mode": draw(st.sampled_from(["send_all", "iterable"])),
        "iter_split": draw(st.integers(1, 5)),
        "recv_mode": draw(st.sampled_from(["recv", "recv_into"])),
        "recv_sizes": draw(st.lists(st.sampled_from([1, 2, 7, 100, 1024, 16384, 65536]), min_size=1, max_size=4)),
        "frag_to_sut": frag_to_sut,
        "frag_to_peer": frag_to_peer,
        "delays": draw(DELAYS),
        "n_writers": draw(st.sampled_from([1, 1, 2, 3])),
        "mem_script": {
            "send_yield": draw(st.lists(st.integers(0, 3), min_size=1, max_size=4)),
            "send_split": draw(st.sampled_from([[0], [0], [0, 700], [64], [1000, 0, 5]])),
            "recv_max": draw(st.one_of(st.just([1 << 30]), st.lists(st.sampled_from([1, 3, 50, 1000, 1 << 30]), min_size=1, max_size=4))),
        },
    }


async def _session(case: dict) -> dict:
    backend, mem, peer, wire = tlsharness.new_session(case)
    # each SUT write is one framed message (4-byte length + payload) so that the peer's stream can be parsed back into
    # messages when several writer tasks send concurrently
    sut_payloads = [len(p).to_bytes(4, "big") + p for p in (tlspeer.payload("sut", i, n) for i, n in enumerate(case["sut_writes"]))]
    peer_payloads = [tlspeer.payload("peer", i, n) for i, n in enumerate(case["peer_writes"])]
    expected_from_peer = b"".join(peer_payloads)
    expected_from_sut = b"".join(sut_payloads)
    received = bytearray()
    conductor = asyncio.create_task(wire.conductor())
    result: dict[str, Any] = {}
    try:
        tls = await tlsharness.wrap_sut(case, mem)
        result["handshake_cipher_to_sut"] = wire.delivered_to_sut

        nw = max(1, int(case.get("n_writers", 1)))

        async def writer(w: int = 0) -> None:
            gaps = case["sut_write_gaps"]
            for i, data in enumerate(sut_payloads):
                if i % nw != w:
                    continue
                g = gaps[i % len(gaps)]
                if g:
                    await asyncio.sleep(g)
                if case["send_mode"] == "send_all":
                    await tls.send_all(data)
                else:
                    k = case["iter_split"]
                    step = max(1, len(data) // k)
                    await tls.send_all_from_iterable([data[j : j + step] for j in range(0, len(data), step)])

        async def reader() -> None:
            sizes = case["recv_sizes"]
            i = 0
            while len(received) < len(expected_from_peer):
                size = sizes[i % len(sizes)]
                i += 1
                if case["recv_mode"] == "recv":
                    data = await tls.recv(size)
                    if not data:
                        raise Violation("premature-eof", "recv() returned b'' before all peer data arrived", got=len(received))
                    if len(data) > size:
                        raise Violation("recv-size", f"recv({size}) returned {len(data)} bytes")
                    received.extend(data)
                else:
                    buf = bytearray(size)
                    n = await tls.recv_into(buf)
                    if n <= 0:
                        raise Violation("premature-eof", "recv_into() returned 0 before all peer data arrived", got=len(received))
                    if n > size:
                        raise Violation("recv-size", f"recv_into(buffer of {size}) returned {n}")
                    received.extend(buf[:n])

        async def peer_writer() -> None:
            times = case["peer_write_times"]
            for i, data in enumerate(peer_payloads):
                t = times[i % len(times)]
                if t:
                    await asyncio.sleep(t)
                else:
                    await asyncio.sleep(0)
                need = case.get("peer_after", [0])[i % len(case.get("peer_after", [0]))] * len(expected_from_sut) // 2
                if need:
                    await wire.wait_until(lambda: len(peer.plain_in) >= need or peer.error is not None)
                peer.write(data)
                wire.kick()

        tasks = [asyncio.create_task(writer(w)) for w in range(nw)] + [asyncio.create_task(reader()), asyncio.create_task(peer_writer())]
        try:
            await asyncio.gather(*tasks)
        except BaseException:
            for t in tasks:
                t.cancel()
            await asyncio.gather(*tasks, return_exceptions=True)
            raise
        await wire.wait_until(lambda: len(peer.plain_in) >= len(expected_from_sut) or peer.error is not None)
        result["records_to_sut"] = wire.deliveries_to_sut
        # close: standard-compatible close sends close_notify; the peer answers
        await tls.aclose()
        await wire.wait_until(lambda: not wire.to_peer)
        wire.peer.pump()
        result["closed"] = mem.closed
        result["peer_saw_close_notify"] = peer.zero_return
    finally:
        wire.stop = True
        wire.kick()
        conductor.cancel()
        await asyncio.gather(conductor, return_exceptions=True)
    result.update(
        received=bytes(received),
        expected_from_peer=expected_from_peer,
        expected_from_sut=expected_from_sut,
        peer_plain=bytes(peer.plain_in),
        peer_error=repr(peer.error) if peer.error else None,
        cipher_from_sut=bytes(wire.all_from_sut),
        deliveries_to_sut=wire.deliveries_to_sut,
        cipher_to_sut_len=len(wire.all_from_peer),
        sut_payloads=sut_payloads,
        n_writers=nw,
    )
    return result


def _parse_messages(stream: bytes) -> list[bytes] | None:
    out = []
    pos = 0
    while pos < len(stream):
        if pos + 4 > len(stream):
            return None
        n = int.from_bytes(stream[pos : pos + 4], "big")
        if pos + 4 + n > len(stream):
            return None
        out.append(stream[pos : pos + 4 + n])
        pos += 4 + n
    return out


def run_async_case(case: dict) -> Outcome:
    try:
        r = run_virtual(_session, case)
    except Deadlock as exc:
        raise Violation("deadlock", f"TLS session did not complete: {exc}") from exc
    if r["peer_error"]:
        raise Violation("peer-error", f"independent peer failed to decrypt/handle the SUT's stream: {r['peer_error']}")
    if r["received"] != r["expected_from_peer"]:
        raise Violation(
            "data-mismatch",
            f"SUT read {len(r['received'])} bytes, peer wrote {len(r['expected_from_peer'])}; first diff at "
            f"{_first_diff(r['received'], r['expected_from_peer'])}",
            direction="peer->sut",
        )
    if r["n_writers"] == 1:
        if r["peer_plain"] != r["expected_from_sut"]:
            raise Violation(
                "data-mismatch",
                f"peer read {len(r['peer_plain'])} bytes, SUT wrote {len(r['expected_from_sut'])}; first diff at "
                f"{_first_diff(r['peer_plain'], r['expected_from_sut'])}",
                direction="sut->peer",
            )
    else:
        # several writer tasks: each send_all is one framed message; the peer must see every message intact exactly once,
        # and each writer's messages in its own order
        msgs = _parse_messages(r["peer_plain"])
        if msgs is None or sorted(msgs) != sorted(r["sut_payloads"]):
            raise Violation(
                "data-mismatch",
                f"peer stream ({len(r['peer_plain'])} bytes) is not a sequence of exactly the {len(r['sut_payloads'])} messages written by {r['n_writers']} concurrent writers",
                direction="sut->peer",
            )
        index = {m: i for i, m in enumerate(r["sut_payloads"])}
        for w in range(r["n_writers"]):
            mine = [index[m] for m in msgs if index[m] % r["n_writers"] == w]
            if mine != sorted(mine):
                raise Violation("data-mismatch", f"messages of writer {w} arrived out of order", direction="sut->peer")
    cipher = r["cipher_from_sut"]
    for p in r["sut_payloads"] + [b"localhost"[:0]]:
        if len(p) >= 20 and p[4:20] in cipher:
            raise Violation("plaintext-on-wire", "application bytes reached the underlying transport unencrypted")
    if not r["closed"]:
        raise Violation("not-closed", "wrapped transport not closed after aclose()")
    if not r["peer_saw_close_notify"]:
        raise Violation("no-close-notify", "standard-compatible aclose() did not send close_notify")
    classes = [f"role-{case['sut_role']}", f"tls-{case['version']}", case["send_mode"], case["recv_mode"]]
    both = bool(case["sut_writes"]) and bool(case["peer_writes"])
    # a TLS record split across >= 2 deliveries: more deliveries to the SUT than records is implied by small fragments
    app_cipher = r["cipher_to_sut_len"]
    split = r["deliveries_to_sut"] >= 2 and min(case["frag_to_sut"]) < 1000 and app_cipher > min(case["frag_to_sut"])
    if both:
        classes.append("full-duplex")
    if r["n_writers"] > 1:
        classes.append("concurrent-writers")
    if both and any(case.get("peer_after", [0])):
        classes.append("peer-waits-for-sut")
    if split:
        classes.append("record-split")
    if case["frag_to_sut"] == [1]:
        classes.append("bytewise-to-sut")
    if max(case["sut_writes"] + [0]) > 16384:
        classes.append("multi-record-write")
    if max(case["sut_writes"] + [0]) > 262144:
        classes.append("write-larger-than-256KiB")
    return Outcome(nontrivial=both and split, classes=tuple(classes))


def _first_diff(a: bytes, b: bytes) -> int:
    for i, (x, y) in enumerate(zip(a, b)):
        if x != y:
            return i
    return min(len(a), len(b))


# ----------------------------------------------------------------------------------------------
# layer "sync": blocking SSLStreamTransport over a real socketpair, single-threaded (selector-as-scheduler)


@st.composite
def st_sync_case(draw: st.DrawFn, tier: str) -> dict:
    steps = draw(
        st.lists(
            st.tuples(st.sampled_from(["sut_send", "peer_send", "sut_recv"]), st.sampled_from([1, 7, 100, 1000, 16384, 16385, 40000])),
            min_size=1,
            max_size=8,
        )
    )
    sizes = st.sampled_from([1, 7, 100, 1000, 16384, 16385, 40000])
    if not any(op == "peer_send" for op, _ in steps) and draw(st.integers(0, 4)) > 0:
        steps.insert(draw(st.integers(0, len(steps))), ("peer_send", draw(sizes)))
    if not any(op == "sut_send" for op, _ in steps) and draw(st.integers(0, 4)) > 0:
        steps.insert(draw(st.integers(0, len(steps))), ("sut_send", draw(sizes)))
    return {
        "sut_role": draw(st.sampled_from(["client", "server"])),
        "version": draw(st.sampled_from(["1.2", "1.3"])),
        "steps": steps,
        "iterable": draw(st.booleans()),
        "recv_mode": draw(st.sampled_from(["recv", "recv_into"])),
        "recv_sizes": draw(st.lists(st.sampled_from([1, 7, 1024, 65536]), min_size=1, max_size=3)),
        "frag_to_sut": draw(st.one_of(FRAGS, st.lists(st.sampled_from([1, 5, 64, 300]), min_size=1, max_size=4))),
        "retry_interval": draw(st.sampled_from([0.5, "inf"])),
    }


def run_sync_case(case: dict) -> Outcome:
    import math

    from easynetwork.lowlevel.api_sync.transports.socket import SSLStreamTransport

    from ..synctls import TLSPipe, selector_factory_for
    from ..syncworld import HarnessHang, SpinGuard, World, virtual_clock

    world = World()
    peer = tlspeer.TLSPeer("server" if case["sut_role"] == "client" else "client", case["version"])
    frag = case["frag_to_sut"]
    total = sum(n for _, n in case["steps"])
    if min(frag) < 40 and total > 20000:
        frag = [5000]
    pipe = TLSPipe(world, peer, frag)
    ctx, kw = tlsharness.make_sut_kwargs(case["sut_role"], case["version"])
    retry = math.inf if case["retry_interval"] == "inf" else float(case["retry_interval"])
    sut_sent = bytearray()
    peer_sent = bytearray()
    received = bytearray()
    transport = None
    try:
        with virtual_clock(world):
            try:
                transport = SSLStreamTransport(
                    pipe.sut_sock, ctx, retry, handshake_timeout=1e7, shutdown_timeout=1e7, selector_factory=selector_factory_for(pipe), **kw
                )
                si = pi = 0

                def read_until(target: int) -> None:
                    sizes = case["recv_sizes"]
                    i = 0
                    while len(received) < target:
                        size = sizes[i % len(sizes)]
                        i += 1
                        if case["recv_mode"] == "recv":
                            data = transport.recv(size, math.inf)
                        else:
                            buf = bytearray(size)
                            n = transport.recv_into(buf, math.inf)
                            data = bytes(buf[:n])
                        if not data:
                            raise Violation("premature-eof", "blocking TLS recv returned EOF before all peer data arrived", got=len(received))
                        if len(data) > size:
                            raise Violation("recv-size", f"recv({size}) returned {len(data)} bytes")
                        received.extend(data)

                for op, n in case["steps"]:
                    if op == "sut_send":
                        data = tlspeer.payload("sut", si, n)
                        si += 1
                        sut_sent += data
                        if case["iterable"]:
                            third = max(1, n // 3)
                            transport.send_all_from_iterable([data[:third], data[third:]], math.inf)
                        else:
                            transport.send_all(data, math.inf)
                    elif op == "peer_send":
                        data = tlspeer.payload("peer", pi, n)
                        pi += 1
                        peer_sent += data
                        peer.write(data)
                    else:
                        read_until(len(peer_sent))
                read_until(len(peer_sent))
                for _ in range(200000):
                    if not pipe.pump():
                        break
                transport.close()
                for _ in range(1000):
                    if not pipe.pump():
                        break
            except HarnessHang as exc:
                raise Violation("deadlock", f"blocking TLS transport deadlocks: {exc}") from exc
            except SpinGuard as exc:
                raise Violation("deadlock", f"blocking TLS transport spins: {exc}") from exc
        if peer.error is not None:
            raise Violation("peer-error", f"independent peer failed on the SUT's stream: {peer.error!r}")
        if bytes(received) != bytes(peer_sent):
            raise Violation("data-mismatch", f"SUT read {len(received)} bytes, peer wrote {len(peer_sent)}", direction="peer->sut")
        if bytes(peer.plain_in) != bytes(sut_sent):
            raise Violation("data-mismatch", f"peer read {len(peer.plain_in)} bytes, SUT wrote {len(sut_sent)}", direction="sut->peer")
        cipher = bytes(pipe.all_from_sut)
        i = 0
        for op, n in case["steps"]:
            if op == "sut_send":
                p = tlspeer.payload("sut", i, n)
                i += 1
                if n >= 16 and p[:16] in cipher:
                    raise Violation("plaintext-on-wire", "application bytes were written to the socket unencrypted")
        if not peer.zero_return:
            raise Violation("no-close-notify", "standard-compatible close() did not send close_notify")
        if not transport.is_closed():
            raise Violation("not-closed", "transport not closed after close()")
        both = bool(sut_sent) and bool(peer_sent)
        split = pipe.deliveries >= 3 and min(frag) < 1000
        classes = [f"role-{case['sut_role']}", f"tls-{case['version']}", case["recv_mode"]]
        if both:
            classes.append("both-directions")
        if split:
            classes.append("record-split")
        return Outcome(nontrivial=both and split, classes=tuple(classes))
    finally:
        if transport is not None:
            try:
                pipe.sut_sock.close()
            except OSError:
                pass
        pipe.close()


CHECK = Check(
    id="C08",
    level="exploration",
    rule=(
        "case = SUT role (client/server) x TLS 1.2/1.3 x write sizes per direction (1..50000, several records) x "
        "ciphertext fragment sizes per direction (down to 1 byte) x virtual delivery delays x writer/reader/peer-writer "
        "interleaving x send_all vs send_all_from_iterable x recv vs recv_into sizes; non-trivial = both directions carry "
        "data and ciphertext to the SUT is fragmented below record size over >= 2 deliveries; distinct = sha1(case)"
    ),
    layers=[
        Layer("async", st_async_case, run_async_case, {"quick": 350, "thorough": 2000}),
        Layer("sync", st_sync_case, run_sync_case, {"quick": 150, "thorough": 1000}),
    ],
    assumptions=[
        "peer is the stdlib ssl.SSLObject (OpenSSL) driven over MemoryBIO by the harness; the wrapped transport is the in-memory MemStreamTransport on the real asyncio backend with a virtual clock",
        "plaintext search uses the first 16 bytes of each SHA-256-derived payload of at least 16 bytes",
    ],
)
