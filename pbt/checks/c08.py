"""C08 — the TLS transport is a transparent, encrypted byte stream (DESIGN.md section 3, C08)."""

from __future__ import annotations

import asyncio
from typing import Any

from hypothesis import strategies as st

from .. import tlsharness, tlspeer
from ..core import Check, Layer, Outcome, Violation
from ..vloop import Deadlock, run_virtual

SIZES = st.one_of(st.integers(1, 64), st.sampled_from([1, 100, 1000, 16383, 16384, 16385, 20000, 50000]))
FRAGS = st.one_of(
    st.just([1]),
    st.just([1 << 20]),
    st.lists(st.integers(1, 40), min_size=1, max_size=6),
    st.lists(st.sampled_from([1, 2, 5, 7, 100, 1000, 5000, 16384, 20000]), min_size=1, max_size=6),
)
DELAYS = st.lists(st.sampled_from([0.0, 0.0, 0.0, 0.001, 0.01, 0.5]), min_size=1, max_size=5)


@st.composite
def st_async_case(draw: st.DrawFn, tier: str) -> dict:
    big = tier == "thorough"
    sut_writes = draw(st.lists(SIZES, min_size=0, max_size=6))
    peer_writes = draw(st.lists(SIZES, min_size=0, max_size=6))
    if not sut_writes and not peer_writes:
        sut_writes = [draw(SIZES)]
    if draw(st.integers(0, 7)) == 0:
        # one write of several hundred KiB: its ciphertext is larger than the 256 KiB buffers of the TLS transport
        sut_writes = [draw(st.sampled_from([300000, 700000]))] + sut_writes[:2]
        peer_writes = peer_writes[:2]
    frag_to_sut = draw(FRAGS)
    frag_to_peer = draw(FRAGS)
    total = sum(sut_writes) + sum(peer_writes)
    # byte-by-byte delivery of hundreds of KiB is slow without adding schedule diversity: cap the volume in that class
    if max(sut_writes + peer_writes) > 100000:
        # a write of several hundred KiB (ciphertext larger than the transport's 256 KiB buffers): keep deliveries coarse
        frag_to_sut = [1 << 20]
        frag_to_peer = [1 << 20]
    if (frag_to_sut == [1] or frag_to_peer == [1] or max(frag_to_sut) <= 40 or max(frag_to_peer) <= 40) and total > (60000 if big else 20000):
        sut_writes = [min(s, 3000) for s in sut_writes]
        peer_writes = [min(s, 3000) for s in peer_writes]
    return {
        "sut_role": draw(st.sampled_from(["client", "server"])),
        "version": draw(st.sampled_from(["1.2", "1.3"])),
        "sut_writes": sut_writes,
        "peer_writes": peer_writes,
        # request/response dependency: the peer sends write j only after it has received this fraction of the SUT's bytes
        "peer_after": draw(st.lists(st.sampled_from([0, 0, 1, 2]), min_size=1, max_size=4)),
        "peer_write_times": draw(st.lists(st.sampled_from([0.0, 0.0, 0.001, 0.02, 0.3]), min_size=1, max_size=4)),
        "sut_write_gaps": draw(st.lists(st.sampled_from([0.0, 0.0, 0.001, 0.02]), min_size=1, max_size=4)),
        "send_mode": draw(st.sampled_from(["send_all", "iterable"])),
        "iter_split": draw(st.integers(1, 5)),
        "recv_mode": draw(st.sampled_from(["recv", "recv_into"])),
        "recv_sizes": draw(st.lists(st.sampled_from([1, 2, 7, 100, 1024, 16384, 65536]), min_size=1, max_size=4)),
        "frag_to_sut": frag_to_sut,
        "frag_to_peer": frag_to_peer,
        "delays": draw(DELAYS),
        "n_writers": draw(st.sampled_from([1, 1, 2, 3])),
        "mem_script": {
            "send_yield": draw(st.lists(st.integers(0, 3), min_size=1, max_size=4)),
            "send_split": draw(st.sampled_from([[0], [0], [0, 700], [64], [1000, 0, 5]])),
            "recv_max": draw(st.one_of(st.just([1 << 30]), st.lists(st.sampled_from([1, 3, 50, 1000, 1 << 30]), min_size=1, max_size=4))),
        },
    }


async def _session(case: dict) -> dict:
    backend, mem, peer, wire = tlsharness.new_session(case)
    # each SUT write is one framed message (4-byte length + payload) so that the peer's stream can be parsed back into
    # messages when several writer tasks send concurrently
    sut_payloads = [len(p).to_bytes(4, "big") + p for p in (tlspeer.payload("sut", i, n) for i, n in enumerate(case["sut_writes"]))]
    peer_payloads = [tlspeer.payload("peer", i, n) for i, n in enumerate(case["peer_writes"])]
    expected_from_peer = b"".join(peer_payloads)
    expected_from_sut = b"".join(sut_payloads)
    received = bytearray()
    conductor = asyncio.create_task(wire.conductor())
    result: dict[str, Any] = {}
    try:
        tls = await tlsharness.wrap_sut(case, mem)
        result["handshake_cipher_to_sut"] = wire.delivered_to_sut

        nw = max(1, int(case.get("n_writers", 1)))

        async def writer(w: int = 0) -> None:
            gaps = case["sut_write_gaps"]
            for i, data in enumerate(sut_payloads):
                if i % nw != w:
                    continue
                g = gaps[i % len(gaps)]
                if g:
                    await asyncio.sleep(g)
                if case["send_mode"] == "send_all":
                    await tls.send_all(data)
                else:
                    k = case["iter_split"]
                    step = max(1, len(data) // k)
                    await tls.send_all_from_iterable([data[j : j + step] for j in range(0, len(data), step)])

        async def reader() -> None:
            sizes = case["recv_sizes"]
            i = 0
            while len(received) < len(expected_from_peer):
                size = sizes[i % len(sizes)]
                i += 1
                if case["recv_mode"] == "recv":
                    data = await tls.recv(size)
                    if not data:
                        raise Violation("premature-eof", "recv() returned b'' before all peer data arrived", got=len(received))
                    if len(data) > size:
                        raise Violation("recv-size", f"recv({size}) returned {len(data)} bytes")
                    received.extend(data)
                else:
                    buf = bytearray(size)
                    n = await tls.recv_into(buf)
                    if n <= 0:
                        raise Violation("premature-eof", "recv_into() returned 0 before all peer data arrived", got=len(received))
                    if n > size:
                        raise Violation("recv-size", f"recv_into(buffer of {size}) returned {n}")
                    received.extend(buf[:n])

        async def peer_writer() -> None:
            times = case["peer_write_times"]
            for i, data in enumerate(peer_payloads):
                t = times[i % len(times)]
                if t:
                    await asyncio.sleep(t)
                else:
                    await asyncio.sleep(0)
                need = case.get("peer_after", [0])[i % len(case.get("peer_after", [0]))] * len(expected_from_sut) // 2
                if need:
                    await wire.wait_until(lambda: len(peer.plain_in) >= need or peer.error is not None)
                peer.write(data)
                wire.kick()

        tasks = [asyncio.create_task(writer(w)) for w in range(nw)] + [asyncio.create_task(reader()), asyncio.create_task(peer_writer())]
        try:
            await asyncio.gather(*tasks)
        except BaseException:
            for t in tasks:
                t.cancel()
            await asyncio.gather(*tasks, return_exceptions=True)
            raise
        await wire.wait_until(lambda: len(peer.plain_in) >= len(expected_from_sut) or peer.error is not None)
        result["records_to_sut"] = wire.deliveries_to_sut
        # close: standard-compatible close sends close_notify; the peer answers
        await tls.aclose()
        await wire.wait_until(lambda: not wire.to_peer)
        wire.peer.pump()
        result["closed"] = mem.closed
        result["peer_saw_close_notify"] = peer.zero_return
    finally:
        wire.stop = True
        wire.kick()
        conductor.cancel()
        await asyncio.gather(conductor, return_exceptions=True)
    result.update(
        received=bytes(received),
        expected_from_peer=expected_from_peer,
        expected_from_sut=expected_from_sut,
        peer_plain=bytes(peer.plain_in),
        peer_error=repr(peer.error) if peer.error else None,
        cipher_from_sut=bytes(wire.all_from_sut),
        deliveries_to_sut=wire.deliveries_to_sut,
        cipher_to_sut_len=len(wire.all_from_peer),
        sut_payloads=sut_payloads,
        n_writers=nw,
    )
    return result


def _parse_messages(stream: bytes) -> list[bytes] | None:
    out = []
    pos = 0
    while pos < len(stream):
        if pos + 4 > len(stream):
            return None
        n = int.from_bytes(stream[pos : pos + 4], "big")
        if pos + 4 + n > len(stream):
            return None
        out.append(stream[pos : pos + 4 + n])
        pos += 4 + n
    return out


def run_async_case(case: dict) -> Outcome:
    try:
        r = run_virtual(_session, case, spin_n=100_000)
    except Deadlock as exc:
        raise Violation("deadlock", f"TLS session did not complete: {exc}") from exc
    if r["peer_error"]:
        raise Violation("peer-error", f"independent peer failed to decrypt/handle the SUT's stream: {r['peer_error']}")
    if r["received"] != r["expected_from_peer"]:
        raise Violation(
            "data-mismatch",
            f"SUT read {len(r['received'])} bytes, peer wrote {len(r['expected_from_peer'])}; first diff at "
            f"{_first_diff(r['received'], r['expected_from_peer'])}",
            direction="peer->sut",
        )
    if r["n_writers"] == 1:
        if r["peer_plain"] != r["expected_from_sut"]:
            raise Violation(
                "data-mismatch",
                f"peer read {len(r['peer_plain'])} bytes, SUT wrote {len(r['expected_from_sut'])}; first diff at "
                f"{_first_diff(r['peer_plain'], r['expected_from_sut'])}",
                direction="sut->peer",
            )
    else:
        # several writer tasks: each send_all is one framed message; the peer must see every message intact exactly once,
        # and each writer's messages in its own order
        msgs = _parse_messages(r["peer_plain"])
        if msgs is None or sorted(msgs) != sorted(r["sut_payloads"]):
            raise Violation(
                "data-mismatch",
                f"peer stream ({len(r['peer_plain'])} bytes) is not a sequence of exactly the {len(r['sut_payloads'])} messages written by {r['n_writers']} concurrent writers",
                direction="sut->peer",
            )
        index = {m: i for i, m in enumerate(r["sut_payloads"])}
        for w in range(r["n_writers"]):
            mine = [index[m] for m in msgs if index[m] % r["n_writers"] == w]
            if mine != sorted(mine):
                raise Violation("data-mismatch", f"messages of writer {w} arrived out of order", direction="sut->peer")
    cipher = r["cipher_from_sut"]
    for p in r["sut_payloads"] + [b"localhost"[:0]]:
        if len(p) >= 20 and p[4:20] in cipher:
            raise Violation("plaintext-on-wire", "application bytes reached the underlying transport unencrypted")
    if not r["closed"]:
        raise Violation("not-closed", "wrapped transport not closed after aclose()")
    if not r["peer_saw_close_notify"]:
        raise Violation("no-close-notify", "standard-compatible aclose() did not send close_notify")
    classes = [f"role-{case['sut_role']}", f"tls-{case['version']}", case["send_mode"], case["recv_mode"]]
    both = bool(case["sut_writes"]) and bool(case["peer_writes"])
    # a TLS record split across >= 2 deliveries: more deliveries to the SUT than records is implied by small fragments
    app_cipher = r["cipher_to_sut_len"]
    split = r["deliveries_to_sut"] >= 2 and min(case["frag_to_sut"]) < 1000 and app_cipher > min(case["frag_to_sut"])
    if both:
        classes.append("full-duplex")
    if r["n_writers"] > 1:
        classes.append("concurrent-writers")
    if both and any(case.get("peer_after", [0])):
        classes.append("peer-waits-for-sut")
    if split:
        classes.append("record-split")
    if case["frag_to_sut"] == [1]:
        classes.append("bytewise-to-sut")
    if max(case["sut_writes"] + [0]) > 16384:
        classes.append("multi-record-write")
    if max(case["sut_writes"] + [0]) > 262144:
        classes.append("write-larger-than-256KiB")
    return Outcome(nontrivial=both and split, classes=tuple(classes))


def _first_diff(a: bytes, b: bytes) -> int:
    for i, (x, y) in enumerate(zip(a, b)):
        if x != y:
            return i
    return min(len(a), len(b))


# ----------------------------------------------------------------------------------------------
# layer "sync": blocking SSLStreamTransport over a real socketpair, single-threaded (selector-as-scheduler)


@st.composite
def st_sync_case(draw: st.DrawFn, tier: str) -> dict:
    steps = draw(
        st.lists(
            st.tuples(st.sampled_from(["sut_send", "peer_send", "sut_recv"]), st.sampled_from([1, 7, 100, 1000, 16384, 16385, 40000])),
            min_size=1,
            max_size=8,
        )
    )
    sizes = st.sampled_from([1, 7, 100, 1000, 16384, 16385, 40000])
    if not any(op == "peer_send" for op, _ in steps) and draw(st.integers(0, 4)) > 0:
        steps.insert(draw(st.integers(0, len(steps))), ("peer_send", draw(sizes)))
    if not any(op == "sut_send" for op, _ in steps) and draw(st.integers(0, 4)) > 0:
        steps.insert(draw(st.integers(0, len(steps))), ("sut_send", draw(sizes)))
    return {
        "sut_role": draw(st.sampled_from(["client", "server"])),
        "version": draw(st.sampled_from(["1.2", "1.3"])),
        "steps": steps,
        "iterable": draw(st.booleans()),
        "recv_mode": draw(st.sampled_from(["recv", "recv_into"])),
        "recv_sizes": draw(st.lists(st.sampled_from([1, 7, 1024, 65536]), min_size=1, max_size=3)),
        "frag_to_sut": draw(st.one_of(FRAGS, st.lists(st.sampled_from([1, 5, 64, 300]), min_size=1, max_size=4))),
        "retry_interval": draw(st.sampled_from([0.5, "inf"])),
    }


def run_sync_case(case: dict) -> Outcome:
    import math

    from easynetwork.lowlevel.api_sync.transports.socket import SSLStreamTransport

    from ..synctls import TLSPipe, selector_factory_for
    from ..syncworld import HarnessHang, SpinGuard, World, virtual_clock

    world = World()
    peer = tlspeer.TLSPeer("server" if case["sut_role"] == "client" else "client", case["version"])
    frag = case["frag_to_sut"]
    total = sum(n for _, n in case["steps"])
    if min(frag) < 40 and total > 20000:
        frag = [5000]
    pipe = TLSPipe(world, peer, frag)
    ctx, kw = tlsharness.make_sut_kwargs(case["sut_role"], case["version"])
    retry = math.inf if case["retry_interval"] == "inf" else float(case["retry_interval"])
    sut_sent = bytearray()
    peer_sent = bytearray()
    received = bytearray()
    transport = None
    try:
        with virtual_clock(world):
            try:
                transport = SSLStreamTransport(
                    pipe.sut_sock, ctx, retry, handshake_timeout=1e7, shutdown_timeout=1e7, selector_factory=selector_factory_for(pipe), **kw
                )
                si = pi = 0

                def read_until(target: int) -> None:
                    sizes = case["recv_sizes"]
                    i = 0
                    while len(received) < target:
                        size = sizes[i % len(sizes)]
                        i += 1
                        if case["recv_mode"] == "recv":
                            data = transport.recv(size, math.inf)
                        else:
                            buf = bytearray(size)
                            n = transport.recv_into(buf, math.inf)
                            data = bytes(buf[:n])
                        if not data:
                            raise Violation("premature-eof", "blocking TLS recv returned EOF before all peer data arrived", got=len(received))
                        if len(data) > size:
                            raise Violation("recv-size", f"recv({size}) returned {len(data)} bytes")
                        received.extend(data)

                for op, n in case["steps"]:
                    if op == "sut_send":
                        data = tlspeer.payload("sut", si, n)
                        si += 1
                        sut_sent += data
                        if case["iterable"]:
                            third = max(1, n // 3)
                            transport.send_all_from_iterable([data[:third], data[third:]], math.inf)
                        else:
                            transport.send_all(data, math.inf)
                    elif op == "peer_send":
                        data = tlspeer.payload("peer", pi, n)
                        pi += 1
                        peer_sent += data
                        peer.write(data)
                    else:
                        read_until(len(peer_sent))
                read_until(len(peer_sent))
                for _ in range(200000):
                    if not pipe.pump():
                        break
                transport.close()
                for _ in range(1000):
                    if not pipe.pump():
                        break
            except HarnessHang as exc:
                raise Violation("deadlock", f"blocking TLS transport deadlocks: {exc}") from exc
            except SpinGuard as exc:
                raise Violation("deadlock", f"blocking TLS transport spins: {exc}") from exc
        if peer.error is not None:
            raise Violation("peer-error", f"independent peer failed on the SUT's stream: {peer.error!r}")
        if bytes(received) != bytes(peer_sent):
            raise Violation("data-mismatch", f"SUT read {len(received)} bytes, peer wrote {len(peer_sent)}", direction="peer->sut")
        if bytes(peer.plain_in) != bytes(sut_sent):
            raise Violation("data-mismatch", f"peer read {len(peer.plain_in)} bytes, SUT wrote {len(sut_sent)}", direction="sut->peer")
        cipher = bytes(pipe.all_from_sut)
        i = 0
        for op, n in case["steps"]:
            if op == "sut_send":
                p = tlspeer.payload("sut", i, n)
                i += 1
                if n >= 16 and p[:16] in cipher:
                    raise Violation("plaintext-on-wire", "application bytes were written to the socket unencrypted")
        if not peer.zero_return:
            raise Violation("no-close-notify", "standard-compatible close() did not send close_notify")
        if not transport.is_closed():
            raise Violation("not-closed", "transport not closed after close()")
        both = bool(sut_sent) and bool(peer_sent)
        split = pipe.deliveries >= 3 and min(frag) < 1000
        classes = [f"role-{case['sut_role']}", f"tls-{case['version']}", case["recv_mode"]]
        if both:
            classes.append("both-directions")
        if split:
            classes.append("record-split")
        return Outcome(nontrivial=both and split, classes=tuple(classes))
    finally:
        if transport is not None:
            try:
                pipe.sut_sock.close()
            except OSError:
                pass
        pipe.close()

# ----------------------------------------------------------------------------------------------
# layer "echo-backpressure": both directions active at once against a peer with *finite* buffers.  The peer is an
# echo-style application: it reads a piece of the SUT's stream, writes the answer (k times the bytes it read), and does
# not read again before that answer is fully written; its writes block when the SUT-bound pipe is full.  The SUT side
# runs a writer task and a reader task concurrently.  Over a transparent full-duplex byte stream this always completes
# (the reader keeps draining, so the peer's writes always finish, so it reads again, so the writer gets going again);
# a TLS layer that makes the reader wait for the writer turns exactly this into a deadlock.


class _BackpressureWire:
    def __init__(self, mem: Any, peer: tlspeer.TLSPeer, case: dict) -> None:
        self.mem = mem
        self.peer = peer
        self.cap_up = case["cap_up"]
        self.cap_down = case["cap_down"]
        self.echo_factor = case["echo_factor"]
        self.frag = case["frag"]
        self.to_peer = bytearray()
        self.resp_queue = bytearray()  # plaintext the peer application still has to write (it is "blocked in write")
        self.limited = False
        self.activity = asyncio.Event()
        self.stop = False
        self.echoed = 0
        self.peer_blocked_writes = 0
        self.sut_blocked_writes = 0
        mem.on_send = self._on_sut_send

    def _on_sut_send(self, data: bytes) -> None:
        self.to_peer += data
        self._update_writable()
        self.activity.set()

    def _update_writable(self) -> None:
        ok = (not self.limited) or len(self.to_peer) < self.cap_up
        if not ok and self.mem.writable:
            self.sut_blocked_writes += 1
        self.mem.set_writable(ok)

    def kick(self) -> None:
        self.activity.set()

    async def conductor(self) -> None:
        zero_run = 0
        seen = 0
        while not self.stop:
            moved = False
            peer, mem = self.peer, self.mem
            # the peer application reads only when it is not in the middle of writing an answer
            if self.to_peer and not self.resp_queue and not mem.closed:
                n = len(self.to_peer) if not self.limited else min(len(self.to_peer), self.frag)
                peer.feed(bytes(self.to_peer[:n]))
                del self.to_peer[:n]
                self._update_writable()
                moved = True
            out = peer.pump()
            if len(peer.plain_in) > seen:
                new = bytes(peer.plain_in[seen:])
                seen = len(peer.plain_in)
                self.resp_queue += new * self.echo_factor
                moved = True
            # the peer's write proceeds as far as the SUT-bound pipe has room (the pipe = bytes the SUT has not consumed yet)
            if self.resp_queue and not mem.closed:
                room = (1 << 30) if not self.limited else self.cap_down - len(mem.inbox)
                if room > 0:
                    piece = bytes(self.resp_queue[: min(room, self.frag)])
                    del self.resp_queue[: len(piece)]
                    peer.write(piece)
                    self.echoed += len(piece)
                    out += peer.pump()
                    moved = True
                else:
                    self.peer_blocked_writes += 1
            if out and not mem.closed:
                mem.feed(out)
                moved = True
            if moved:
                zero_run += 1
                if zero_run >= 40:
                    zero_run = 0
                    await asyncio.sleep(1e-9)
                else:
                    await asyncio.sleep(0)
                continue
            self.activity.clear()
            await self.activity.wait()


class _DrainAwareMem(tlsharness.MemStreamTransport):
    """tells the wire when the SUT consumed bytes (room for the peer's blocked write)"""

    wire: Any = None

    async def recv_into(self, buffer: Any) -> int:
        n = await super().recv_into(buffer)
        if self.wire is not None:
            self.wire.kick()
        return n


async def _echo_session(case: dict) -> dict:
    from easynetwork.lowlevel.api_async.backend._asyncio.backend import AsyncIOBackend

    backend = AsyncIOBackend()
    mem = _DrainAwareMem(backend, script={"send_split": [case["send_split"]]} if case["send_split"] else None)
    peer = tlspeer.TLSPeer("server" if case["sut_role"] == "client" else "client", case["version"])
    wire = _BackpressureWire(mem, peer, case)
    mem.wire = wire
    conductor = asyncio.create_task(wire.conductor())
    requests = [tlspeer.payload("sut", i, n) for i, n in enumerate(case["requests"])]
    sent_all = b"".join(requests)
    res: dict[str, Any] = {}
    try:
        tls = await tlsharness.wrap_sut(case, mem)
        wire.limited = True
        wire._update_writable()
        want = len(sent_all) * case["echo_factor"]
        received = bytearray()

        async def writer() -> None:
            for req in requests:
                await tls.send_all(req)

        async def reader() -> None:
            sizes = case["recv_sizes"]
            i = 0
            gaps = case.get("reader_gaps") or [0]
            while len(received) < want:
                data = await tls.recv(sizes[i % len(sizes)])
                if not data:
                    break
                received.extend(data)
                g = gaps[i % len(gaps)]
                i += 1
                if g:
                    await asyncio.sleep(g)  # a consumer that is sometimes slower than the network

        await asyncio.gather(writer(), reader())
        res["received"] = bytes(received)
        res["peer_plain"] = bytes(peer.plain_in)
        wire.limited = False
        wire._update_writable()
        await tls.aclose()
    finally:
        wire.stop = True
        wire.kick()
        conductor.cancel()
        await asyncio.gather(conductor, return_exceptions=True)
    res["sent_all"] = sent_all
    res["peer_blocked_writes"] = wire.peer_blocked_writes
    res["sut_blocked_writes"] = wire.sut_blocked_writes
    res["peer_error"] = repr(peer.error) if peer.error else None
    return res


def run_echo_case(case: dict) -> Outcome:
    try:
        r = run_virtual(_echo_session, case, spin_n=100_000)
    except Deadlock as exc:
        raise Violation(
            "deadlock",
            "full-duplex session against an echo-style peer with finite buffers never completes (over a transparent byte "
            f"stream it always does): {str(exc)[:1500]}",
            cap_up=case["cap_up"],
            cap_down=case["cap_down"],
        ) from exc
    if r["peer_error"]:
        raise Violation("peer-tls-error", f"the peer's TLS engine failed: {r['peer_error']}")
    if r["peer_plain"] != r["sent_all"]:
        raise Violation("data-mismatch", f"peer read {len(r['peer_plain'])} bytes, SUT wrote {len(r['sent_all'])}")
    # the echo stream is the concatenation of (chunk * k) for the chunks the peer happened to read: compare as multiset per
    # position is not possible, but with k == 1 it is the stream itself, and its length is exact for every k
    if len(r["received"]) != len(r["sent_all"]) * case["echo_factor"]:
        raise Violation("data-lost", f"SUT received {len(r['received'])} of {len(r['sent_all']) * case['echo_factor']} echoed bytes")
    if case["echo_factor"] == 1 and r["received"] != r["sent_all"]:
        raise Violation("data-mismatch", "echoed stream differs from what was sent")
    both = r["peer_blocked_writes"] > 0 and r["sut_blocked_writes"] > 0
    classes = [f"role-{case['sut_role']}", f"tls-{case['version']}", f"echo-x{case['echo_factor']}"]
    if r["peer_blocked_writes"]:
        classes.append("peer-write-blocked")
    if r["sut_blocked_writes"]:
        classes.append("sut-write-blocked")
    return Outcome(nontrivial=both, classes=tuple(classes), note=f"peer blocked {r['peer_blocked_writes']}x, SUT blocked {r['sut_blocked_writes']}x")


@st.composite
def st_echo_case(draw: st.DrawFn, tier: str) -> dict:
    return {
        "sut_role": draw(st.sampled_from(["client", "server"])),
        "version": draw(st.sampled_from(["1.2", "1.3"])),
        "requests": draw(st.lists(st.sampled_from([100, 3000, 20000, 70000]), min_size=1, max_size=5)),
        "echo_factor": draw(st.sampled_from([1, 1, 2])),
        "cap_up": draw(st.sampled_from([512, 4096, 16384, 65536])),
        "cap_down": draw(st.sampled_from([512, 4096, 16384, 65536])),
        "frag": draw(st.sampled_from([256, 1500, 8192])),
        "send_split": draw(st.sampled_from([0, 1024, 8192])),
        "recv_sizes": draw(st.lists(st.sampled_from([64, 1024, 16384, 65536]), min_size=1, max_size=3)),
        "reader_gaps": draw(st.lists(st.sampled_from([0, 0, 0.001, 0.01]), min_size=1, max_size=4)),
        "standard_compatible": True,
    }



CHECK = Check(
    id="C08",
    level="exploration",
    rule=(
        "case = SUT role (client/server) x TLS 1.2/1.3 x write sizes per direction (1..50000, several records) x "
        "ciphertext fragment sizes per direction (down to 1 byte) x virtual delivery delays x writer/reader/peer-writer "
        "interleaving x send_all vs send_all_from_iterable x recv vs recv_into sizes; non-trivial = both directions carry "
        "data and ciphertext to the SUT is fragmented below record size over >= 2 deliveries; layer echo-backpressure: 1-5 requests of "
        "100..70000 bytes x pipe capacities 512..65536 each way x echo factor 1-2 x consumer pauses against an echo-style peer that "
        "does not read while its answer is unwritten, non-trivial = the peer's and the SUT's writes were both blocked at least once; "
        "distinct = sha1(case)"
    ),
    layers=[
        Layer("async", st_async_case, run_async_case, {"quick": 350, "thorough": 2000}),
        Layer("sync", st_sync_case, run_sync_case, {"quick": 150, "thorough": 1000}),
        Layer("echo-backpressure", st_echo_case, run_echo_case, {"quick": 150, "thorough": 1000}),
    ],
    assumptions=[
        "peer is the stdlib ssl.SSLObject (OpenSSL) driven over MemoryBIO by the harness; the wrapped transport is the in-memory MemStreamTransport on the real asyncio backend with a virtual clock",
        "plaintext search uses the first 16 bytes of each SHA-256-derived payload of at least 16 bytes",
    ],
)
