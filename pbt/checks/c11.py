"""C11 — a timeout is a budget for the whole blocking operation (DESIGN.md section 3, C11).

Everything runs single-threaded under the fake selector (the scheduler) and a virtual perf_counter, so the oracle is
exact: the operation succeeds at the virtual time its last byte arrives iff that is before the deadline, otherwise it
raises TimeoutError having waited exactly T (never more, never giving up early); T = 0 never enters select()."""

from __future__ import annotations

import math
import socket
import types
from collections import deque
from typing import Any

from hypothesis import strategies as st

import easynetwork.lowlevel.api_sync.transports.base_selector as en_base_selector
from easynetwork.clients.tcp import TCPNetworkClient
from easynetwork.clients.udp import UDPNetworkClient
from easynetwork.lowlevel.api_sync.endpoints.datagram import DatagramEndpoint
from easynetwork.lowlevel.api_sync.endpoints.stream import StreamEndpoint
from easynetwork.lowlevel.api_sync.transports.socket import SocketDatagramTransport, SocketStreamTransport
from easynetwork.protocol import BufferedStreamProtocol, DatagramProtocol, StreamProtocol
from easynetwork.serializers.line import StringLineSerializer

from ..core import Check, HarnessError, Layer, Outcome, Violation
from ..syncworld import FakeSocket, HarnessHang, SpinGuard, World, make_selector_factory, virtual_clock

EPS = 1e-9


class PeeredFakeSocket(FakeSocket):
    """FakeSocket that looks connected (the high-level clients check getpeername())"""

    def getpeername(self) -> Any:  # type: ignore[override]
        return ("127.0.0.1", 45678)

    def getsockname(self) -> Any:  # type: ignore[override]
        return ("127.0.0.1", 34567)


class _patched_default_selector:
    """the high-level clients do not expose selector_factory: replace the module-level default the transports look up"""

    def __init__(self, factory: Any) -> None:
        self.factory = factory

    def __enter__(self) -> None:
        self.real = en_base_selector.selectors
        ns = types.SimpleNamespace(**{k: getattr(self.real, k) for k in dir(self.real) if not k.startswith("__")})
        ns.PollSelector = self.factory
        ns.SelectSelector = self.factory
        en_base_selector.selectors = ns  # type: ignore[assignment]

    def __exit__(self, *a: Any) -> None:
        en_base_selector.selectors = self.real


# ----------------------------------------------------------------------------------------------
# strategies

TIMEOUTS = [0, 0, 1, 2, 3, 5, 8, "inf"]
RETRY = [0.3, 1.0, 7.0, "inf"]


def st_times(n: int) -> st.SearchStrategy[list[float]]:
    """n strictly increasing arrival times with fractional part .25/.5/.75 (never an integer: no tie with a deadline
    that is an integer offset from an integer/fractional start is still possible after a previous wait, so the model
    treats |t - deadline| < 1e-6 as a tie and such cases are discarded by construction below)"""
    return st.lists(st.tuples(st.integers(0, 9), st.sampled_from([0.25, 0.5, 0.75])), min_size=n, max_size=n).map(
        lambda xs: sorted({a + b for a, b in xs})
    )


@st.composite
def st_recv_case(draw: st.DrawFn, tier: str) -> dict:
    npk = draw(st.integers(1, 4))
    packets = [draw(st.text(st.sampled_from("abcxyz"), min_size=1, max_size=9)) for _ in range(npk)]
    stream = "".join(p + "\n" for p in packets).encode()
    ncuts = draw(st.integers(0, min(6, len(stream) - 1)))
    cuts = sorted(draw(st.lists(st.integers(1, max(1, len(stream) - 1)), min_size=ncuts, max_size=ncuts, unique=True))) if len(stream) > 1 else []
    groups = []
    prev = 0
    for c in cuts + [len(stream)]:
        if c > prev:
            groups.append(stream[prev:c])
            prev = c
    times = draw(st_times(len(groups)))
    while len(times) < len(groups):  # duplicates removed by the set: extend deterministically
        times.append(times[-1] + 1.0 if times else 0.5)
    first_immediate = draw(st.booleans())
    if first_immediate:
        times[0] = 0.0
    api = draw(st.sampled_from(["endpoint", "endpoint-buffered", "client", "client-iter"]))
    ncalls = draw(st.integers(1, npk + 1))
    return {
        "api": api,
        "packets": packets,
        "groups": [(t, g) for t, g in zip(times, groups)],
        "eof_at": draw(st.sampled_from([None, None, None, times[-1] + 0.125 + draw(st.integers(0, 3))])),
        "timeouts": [draw(st.sampled_from(TIMEOUTS)) for _ in range(ncalls)],
        "iter_timeout": draw(st.sampled_from(TIMEOUTS)),
        "retry_interval": draw(st.sampled_from(RETRY)),
        "max_recv_size": draw(st.sampled_from([1, 3, 16, 1024])),
        "spurious_at": sorted(set(draw(st.lists(st.sampled_from([0.1, 0.6, 1.1, 1.6, 2.2, 3.3, 4.4, 6.6]), max_size=4)))),
        "recv_script": draw(st.lists(st.sampled_from([("eintr",), ("block",)]), max_size=3)),
    }


# ----------------------------------------------------------------------------------------------
# reference model for receives


def completion_times(case: dict) -> list[float]:
    """virtual arrival time of the last byte of each packet"""
    out = []
    need = 0
    cum = []
    total = 0
    for t, g in case["groups"]:
        total += len(g)
        cum.append((t, total))
    for p in case["packets"]:
        need += len(p.encode()) + 1
        out.append(next(t for t, c in cum if c >= need))
    return out


def _tie(a: float, b: float) -> bool:
    return abs(a - b) < 1e-6


def run_recv_case(case: dict) -> Outcome:
    world = World()
    sock = PeeredFakeSocket(world, socket.SOCK_STREAM)
    try:
        for t, g in case["groups"]:
            world.at(t, lambda g=g: sock.env_arrive(g))
        if case["eof_at"] is not None:
            world.at(case["eof_at"], sock.env_eof)
        world.spurious_at = list(case["spurious_at"])
        sock.recv_script = deque(tuple(x) for x in case["recv_script"])
        world.run_due()
        retry = math.inf if case["retry_interval"] == "inf" else float(case["retry_interval"])
        factory = make_selector_factory(world, sock)
        api = case["api"]
        proto: Any = StreamProtocol(StringLineSerializer())
        if api == "endpoint-buffered":
            proto = BufferedStreamProtocol(StringLineSerializer())
        comp = completion_times(case)
        eof_at = case["eof_at"]
        classes = [api]
        nt = False
        with virtual_clock(world):
            if api in ("endpoint", "endpoint-buffered"):
                transport = SocketStreamTransport(sock, retry, selector_factory=factory)
                obj: Any = StreamEndpoint(transport, proto, max_recv_size=case["max_recv_size"])
            else:
                with _patched_default_selector(factory):
                    obj = TCPNetworkClient(sock, proto, max_recv_size=case["max_recv_size"], retry_interval=retry)
            delivered = 0
            if api == "client-iter":
                T = case["iter_timeout"]
                budget = math.inf if T == "inf" else float(T)
                if budget == math.inf and eof_at is None:
                    return Outcome(classes=("iter-inf-without-eof-skipped",))
                it = obj.iter_received_packets(timeout=None if T == "inf" else float(T))
                start = world.now
                got = []
                try:
                    for pkt in it:
                        got.append((pkt, world.now))
                        if len(got) > len(case["packets"]):
                            raise Violation("extra-packet", "iterator yielded more packets than were sent")
                except (HarnessHang, SpinGuard) as exc:
                    raise Violation("hang", f"iterator blocks: {exc}", api=api) from exc
                end = world.now
                # model
                expect = []
                deadline = start + budget
                tie = False
                for i, c in enumerate(comp):
                    if eof_at is not None and c > eof_at:
                        break
                    if _tie(c, deadline):
                        tie = True
                        break
                    if c <= deadline:
                        expect.append((case["packets"][i], max(start, c)))
                    else:
                        break
                if tie:
                    return Outcome(classes=("tie-discarded",))
                if [p for p, _ in got] != [p for p, _ in expect]:
                    raise Violation(
                        "iterator-budget",
                        f"iter_received_packets(timeout={T}) from t={start}: yielded {[p for p, _ in got]} expected {[p for p, _ in expect]} "
                        f"(completions {comp}, eof {eof_at})",
                        api=api,
                    )
                for (p, t_got), (_, t_exp) in zip(got, expect):
                    if abs(t_got - t_exp) > 1e-6:
                        raise Violation("late-or-early", f"packet {p!r} yielded at t={t_got}, data complete at t={t_exp}", api=api)
                if budget != math.inf and end - start > budget + EPS:
                    raise Violation("overrun", f"iterator waited {end - start} with timeout {T}", api=api)
                if budget == 0 and world.select_calls:
                    raise Violation("zero-timeout-blocked", "timeout=0 entered select()", api=api)
                nt = len(case["groups"]) >= 3 and budget not in (0, math.inf)
                classes.append(f"yielded-{len(got)}")
            else:
                for T in case["timeouts"]:
                    budget = math.inf if T == "inf" else float(T)
                    start = world.now
                    sel0 = world.select_calls
                    if budget == math.inf and eof_at is None and delivered >= len(comp):
                        break  # would legitimately block forever
                    outcome: str
                    value = None
                    try:
                        value = obj.recv_packet(timeout=None if T == "inf" else float(T))
                        outcome = "packet"
                    except TimeoutError:
                        outcome = "timeout"
                    except ConnectionAbortedError:
                        outcome = "eof"
                    except (HarnessHang, SpinGuard) as exc:
                        raise Violation("hang", f"recv_packet(timeout={T}) blocks: {exc}", api=api) from exc
                    end = world.now
                    waited = end - start
                    # model
                    deadline = start + budget
                    c = comp[delivered] if delivered < len(comp) else None
                    avail = c is not None and (eof_at is None or c < eof_at)
                    if avail and _tie(c, deadline) or (eof_at is not None and _tie(eof_at, deadline)):
                        return Outcome(classes=("tie-discarded",))
                    if avail and c <= deadline:
                        exp, t_exp = "packet", max(start, c)
                    elif eof_at is not None and eof_at <= deadline and (c is None or c > eof_at):
                        exp, t_exp = "eof", max(start, eof_at)
                    else:
                        exp, t_exp = "timeout", deadline
                    detail = {"api": api, "timeout": T, "start": start, "end": end, "completion": c, "eof_at": eof_at, "retry_interval": case["retry_interval"]}
                    if outcome != exp:
                        kind = "gave-up-early" if outcome == "timeout" else ("overrun" if exp == "timeout" else "wrong-outcome")
                        raise Violation(kind, f"recv_packet(timeout={T}) at t={start}: got {outcome} at t={end}, expected {exp} at t={t_exp}", **detail)
                    if abs(end - t_exp) > 1e-6:
                        raise Violation(
                            "overrun" if end > t_exp else "gave-up-early",
                            f"recv_packet(timeout={T}) at t={start}: {outcome} at t={end}, expected at t={t_exp}",
                            **detail,
                        )
                    if budget == 0 and world.select_calls != sel0:
                        raise Violation("zero-timeout-blocked", "timeout=0 entered select()", **detail)
                    if outcome == "packet":
                        if value != case["packets"][delivered]:
                            raise Violation("wrong-packet", f"got {value!r} expected {case['packets'][delivered]!r}", **detail)
                        delivered += 1
                    if budget not in (0, math.inf) and c is not None and abs(c - deadline) <= 0.25 * budget + 0.5:
                        nt = nt or len(case["groups"]) >= 3 or bool(case["spurious_at"])
                    classes.append(f"end-{outcome}")
                    if outcome == "eof":
                        break
        if case["spurious_at"]:
            classes.append("spurious-wakeups")
        if len(case["groups"]) >= 3:
            classes.append("drip-feed")
        return Outcome(nontrivial=nt, classes=tuple(classes))
    finally:
        sock.close()


# ----------------------------------------------------------------------------------------------
# sends


@st.composite
def st_send_case(draw: st.DrawFn, tier: str) -> dict:
    size = draw(st.sampled_from([2, 10, 100, 5000]))
    ndr = draw(st.integers(0, 5))
    times = draw(st_times(ndr)) if ndr else []
    return {
        "api": draw(st.sampled_from(["endpoint", "client", "transport-iterable"])),
        "size": size,
        "capacity": draw(st.sampled_from([0, 0, 1, 7, 64, None])),
        "drains": [(t, draw(st.sampled_from([1, 5, 50, 5000, None]))) for t in times],
        "timeout": draw(st.sampled_from(TIMEOUTS)),
        "retry_interval": draw(st.sampled_from(RETRY)),
        "send_script": draw(st.lists(st.sampled_from([("ok",), ("partial", 1), ("partial", 3), ("eintr",), ("block",)]), max_size=6)),
        "spurious_at": sorted(set(draw(st.lists(st.sampled_from([0.1, 0.6, 1.1, 2.2, 3.3, 4.4]), max_size=3)))),
    }


def run_send_case(case: dict) -> Outcome:
    world = World()
    sock = PeeredFakeSocket(world, socket.SOCK_STREAM)
    try:
        packet = "x" * (case["size"] - 1)
        nbytes = case["size"]
        sock.tx_capacity = case["capacity"]
        for t, n in case["drains"]:
            world.at(t, lambda n=n: sock.env_drain(n))
        sock.send_script = deque(tuple(x) for x in case["send_script"])
        world.spurious_at = list(case["spurious_at"])
        retry = math.inf if case["retry_interval"] == "inf" else float(case["retry_interval"])
        factory = make_selector_factory(world, sock)
        T = case["timeout"]
        budget = math.inf if T == "inf" else float(T)
        # model: earliest time the kernel has accepted nbytes
        t_done: float | None
        cap = case["capacity"]
        if cap is None or cap >= nbytes:
            t_done = 0.0
        else:
            t_done = None
            total = cap
            for t, n in sorted(case["drains"]):
                if n is None:
                    t_done = t
                    break
                total += n
                if total >= nbytes:
                    t_done = t
                    break
        proto = StreamProtocol(StringLineSerializer())
        if t_done is None and budget == math.inf:
            return Outcome(classes=("never-drains-infinite-timeout",))  # legitimately blocks forever
        with virtual_clock(world):
            if case["api"] == "client":
                with _patched_default_selector(factory):
                    obj: Any = TCPNetworkClient(sock, proto, retry_interval=retry)
                call = lambda: obj.send_packet(packet, timeout=None if T == "inf" else float(T))  # noqa: E731
            elif case["api"] == "endpoint":
                obj = StreamEndpoint(SocketStreamTransport(sock, retry, selector_factory=factory), proto, max_recv_size=1024)
                call = lambda: obj.send_packet(packet, timeout=None if T == "inf" else float(T))  # noqa: E731
            else:
                tr = SocketStreamTransport(sock, retry, selector_factory=factory)
                data = (packet + "\n").encode()
                third = max(1, len(data) // 3)
                call = lambda: tr.send_all_from_iterable([data[:third], data[third : 2 * third], data[2 * third :]], budget)  # noqa: E731
            start = world.now
            try:
                call()
                outcome = "returned"
            except TimeoutError:
                outcome = "timeout"
            except HarnessHang as exc:
                if t_done is None and budget == math.inf:
                    return Outcome(classes=("never-drains-infinite-timeout",))
                raise Violation("hang", f"send blocks although the kernel would accept the data at t={t_done}: {exc}") from exc
            except SpinGuard as exc:
                raise Violation("hang", f"send spins: {exc}") from exc
            end = world.now
        deadline = start + budget
        if t_done is not None and _tie(t_done, deadline):
            return Outcome(classes=("tie-discarded",))
        exp, t_exp = ("returned", max(start, t_done)) if (t_done is not None and t_done <= deadline) else ("timeout", deadline)
        detail = {"api": case["api"], "timeout": T, "t_done": t_done, "end": end, "retry_interval": case["retry_interval"]}
        if outcome != exp:
            kind = "gave-up-early" if outcome == "timeout" else "overrun"
            raise Violation(kind, f"send(timeout={T}): {outcome} at t={end}, expected {exp} at t={t_exp}", **detail)
        if abs(end - t_exp) > 1e-6:
            raise Violation("overrun" if end > t_exp else "gave-up-early", f"send(timeout={T}): {outcome} at t={end}, expected at t={t_exp}", **detail)
        if budget == 0 and world.select_calls:
            raise Violation("zero-timeout-blocked", "timeout=0 entered select()", **detail)
        if outcome == "returned" and bytes(sock.tx) != (packet + "\n").encode():
            raise Violation("bytes-mismatch", "send returned with wrong bytes on the wire", **detail)
        nt = budget not in (0, math.inf) and len(case["drains"]) >= 2 and t_done is not None
        return Outcome(nontrivial=nt, classes=(case["api"], f"end-{outcome}") + (("spurious-wakeups",) if case["spurious_at"] else ()))
    finally:
        sock.close()


# ----------------------------------------------------------------------------------------------
# datagrams


@st.composite
def st_dgram_case(draw: st.DrawFn, tier: str) -> dict:
    n = draw(st.integers(1, 4))
    times = draw(st_times(n))
    while len(times) < n:
        times.append(times[-1] + 1.0)
    ncalls = draw(st.integers(1, n + 1))
    return {
        "api": draw(st.sampled_from(["endpoint", "client", "client-iter"])),
        "arrivals": [(t, f"dg{i}") for i, t in enumerate(times)],
        "timeouts": [draw(st.sampled_from(TIMEOUTS)) for _ in range(ncalls)],
        "iter_timeout": draw(st.sampled_from(TIMEOUTS)),
        "retry_interval": draw(st.sampled_from(RETRY)),
        "spurious_at": sorted(set(draw(st.lists(st.sampled_from([0.1, 0.6, 1.1, 2.2, 3.3, 4.4]), max_size=3)))),
        "recv_script": draw(st.lists(st.sampled_from([("eintr",), ("block",)]), max_size=3)),
    }


def run_dgram_case(case: dict) -> Outcome:
    world = World()
    sock = PeeredFakeSocket(world, socket.SOCK_DGRAM)
    try:
        for t, p in case["arrivals"]:
            world.at(t, lambda p=p: sock.env_arrive_dgram(p.encode()))
        world.spurious_at = list(case["spurious_at"])
        sock.recv_script = deque(tuple(x) for x in case["recv_script"])
        world.run_due()
        retry = math.inf if case["retry_interval"] == "inf" else float(case["retry_interval"])
        factory = make_selector_factory(world, sock)
        proto = DatagramProtocol(StringLineSerializer())
        comp = [t for t, _ in case["arrivals"]]
        names = [p for _, p in case["arrivals"]]
        nt = False
        with virtual_clock(world):
            if case["api"] == "endpoint":
                obj: Any = DatagramEndpoint(SocketDatagramTransport(sock, retry, selector_factory=factory), proto)
            else:
                with _patched_default_selector(factory):
                    obj = UDPNetworkClient(sock, proto, retry_interval=retry)
            if case["api"] == "client-iter":
                T = case["iter_timeout"]
                if T == "inf":
                    return Outcome(classes=("iter-inf-skipped",))
                budget = float(T)
                start = world.now
                try:
                    got = list(obj.iter_received_packets(timeout=budget))
                except (HarnessHang, SpinGuard) as exc:
                    raise Violation("hang", f"datagram iterator blocks: {exc}") from exc
                end = world.now
                if any(_tie(c, start + budget) for c in comp):
                    return Outcome(classes=("tie-discarded",))
                expect = [p for c, p in zip(comp, names) if c <= start + budget]
                if got != expect:
                    raise Violation("iterator-budget", f"udp iter_received_packets(timeout={T}): got {got} expected {expect}")
                if abs((end - start) - budget) > 1e-6:
                    raise Violation("overrun" if end - start > budget else "gave-up-early", f"udp iterator ended after {end - start}, timeout {T}")
                if budget == 0 and world.select_calls:
                    raise Violation("zero-timeout-blocked", "timeout=0 entered select()")
                nt = budget > 0 and len(comp) >= 2
            else:
                delivered = 0
                for T in case["timeouts"]:
                    budget = math.inf if T == "inf" else float(T)
                    start = world.now
                    sel0 = world.select_calls
                    c = comp[delivered] if delivered < len(comp) else None
                    if c is None and budget == math.inf:
                        break
                    try:
                        value = obj.recv_packet(timeout=None if T == "inf" else budget)
                        outcome = "packet"
                    except TimeoutError:
                        outcome = "timeout"
                    except (HarnessHang, SpinGuard) as exc:
                        raise Violation("hang", f"udp recv_packet(timeout={T}) blocks: {exc}") from exc
                    end = world.now
                    deadline = start + budget
                    if c is not None and _tie(c, deadline):
                        return Outcome(classes=("tie-discarded",))
                    exp, t_exp = ("packet", max(start, c)) if (c is not None and c <= deadline) else ("timeout", deadline)
                    detail = {"api": case["api"], "timeout": T, "start": start, "end": end, "arrival": c}
                    if outcome != exp or abs(end - t_exp) > 1e-6:
                        kind = "gave-up-early" if (outcome == "timeout" and exp == "packet") or end < t_exp - 1e-6 else "overrun"
                        raise Violation(kind, f"udp recv_packet(timeout={T}) at t={start}: {outcome} at t={end}, expected {exp} at t={t_exp}", **detail)
                    if budget == 0 and world.select_calls != sel0:
                        raise Violation("zero-timeout-blocked", "timeout=0 entered select()", **detail)
                    if outcome == "packet":
                        if value != names[delivered]:
                            raise Violation("wrong-packet", f"got {value!r} expected {names[delivered]!r}", **detail)
                        delivered += 1
                    nt = nt or (budget not in (0, math.inf) and bool(case["spurious_at"] or case["recv_script"]))
        return Outcome(nontrivial=nt, classes=(case["api"],))
    finally:
        sock.close()


# ----------------------------------------------------------------------------------------------
# lock contention: the thread-safe clients include the lock acquisition time in the budget.  The client's locks are
# created through the module global `threading` of clients/tcp.py / clients/udp.py; the harness substitutes a lock
# whose acquire() waits in *virtual* time until a generated release instant (another thread finishing its operation).


class VirtualLock:
    def __init__(self, world: World) -> None:
        self.world = world
        self.held_until: float | None = None  # held by "another thread" until this virtual time
        self.owned = False
        self.waited = 0.0

    def acquire(self, blocking: bool = True, timeout: float = -1) -> bool:
        w = self.world
        busy = self.owned or (self.held_until is not None and w.now < self.held_until)
        if not busy:
            self.owned = True
            return True
        if self.owned:
            raise HarnessError("virtual lock re-acquired by its owner")
        if not blocking:
            return False
        assert self.held_until is not None
        if timeout is None or timeout < 0 or w.now + timeout >= self.held_until:
            wait = self.held_until - w.now
            w.now = self.held_until
            w.total_waited += wait
            self.waited += wait
            w.run_due()
            self.owned = True
            return True
        w.now += timeout
        w.total_waited += timeout
        self.waited += timeout
        w.run_due()
        return False

    def release(self) -> None:
        if not self.owned:
            raise RuntimeError("release unlocked lock")
        self.owned = False

    def __enter__(self) -> bool:
        return self.acquire()

    def __exit__(self, *a: Any) -> None:
        self.release()

    def locked(self) -> bool:
        return self.owned or (self.held_until is not None and self.world.now < self.held_until)


class _patched_threading:
    def __init__(self, module: Any, world: World, created: list) -> None:
        self.module = module
        self.world = world
        self.created = created

    def __enter__(self) -> None:
        self.real = self.module.threading
        ns = types.SimpleNamespace(**{k: getattr(self.real, k) for k in dir(self.real) if not k.startswith("__")})

        def make_lock() -> VirtualLock:
            lock = VirtualLock(self.world)
            self.created.append(lock)
            return lock

        ns.Lock = make_lock
        self.module.threading = ns

    def __exit__(self, *a: Any) -> None:
        self.module.threading = self.real


@st.composite
def st_lock_case(draw: st.DrawFn, tier: str) -> dict:
    return {
        "kind": draw(st.sampled_from(["tcp-recv", "tcp-send", "udp-recv", "udp-send"])),
        "lock_free_at": draw(st.sampled_from([0.25, 0.75, 1.5, 2.25, 4.75])),
        "timeout": draw(st.sampled_from([0, 1, 2, 3, 5, "inf"])),
        # recv: the packet is complete at this virtual time; send: the kernel has room at this time
        "ready_at": draw(st.sampled_from([0.0, 0.5, 1.25, 2.5, 3.75, 6.5])),
        "retry_interval": draw(st.sampled_from(RETRY)),
    }


def run_lock_case(case: dict) -> Outcome:
    import easynetwork.clients.tcp as tcp_mod
    import easynetwork.clients.udp as udp_mod

    world = World()
    tcp = case["kind"].startswith("tcp")
    sock = PeeredFakeSocket(world, socket.SOCK_STREAM if tcp else socket.SOCK_DGRAM)
    try:
        retry = math.inf if case["retry_interval"] == "inf" else float(case["retry_interval"])
        factory = make_selector_factory(world, sock)
        locks: list[VirtualLock] = []
        T = case["timeout"]
        budget = math.inf if T == "inf" else float(T)
        L = case["lock_free_at"]
        R = case["ready_at"]
        recv = case["kind"].endswith("recv")
        with virtual_clock(world):
            with _patched_default_selector(factory), _patched_threading(tcp_mod if tcp else udp_mod, world, locks):
                if tcp:
                    client: Any = TCPNetworkClient(sock, StreamProtocol(StringLineSerializer()), retry_interval=retry)
                else:
                    client = UDPNetworkClient(sock, DatagramProtocol(StringLineSerializer()), retry_interval=retry)
            if len(locks) != 2:
                raise HarnessError(f"expected the client to create 2 locks, got {len(locks)}")
            send_lock, receive_lock = locks
            (receive_lock if recv else send_lock).held_until = L
            if recv:
                if tcp:
                    world.at(R, lambda: sock.env_arrive(b"hello\n"))
                else:
                    world.at(R, lambda: sock.env_arrive_dgram(b"hello"))
            else:
                if tcp:
                    sock.tx_capacity = 0
                    world.at(R, lambda: sock.env_drain(None))
                else:
                    sock.send_script = deque([("block",)] * 0)
            world.run_due()
            start = world.now
            try:
                if recv:
                    value = client.recv_packet(timeout=None if T == "inf" else budget)
                else:
                    value = client.send_packet("hello", timeout=None if T == "inf" else budget)
                outcome = "ok"
            except TimeoutError:
                outcome = "timeout"
            except (HarnessHang, SpinGuard) as exc:
                raise Violation("hang", f"{case['kind']} blocks: {exc}") from exc
            end = world.now
        deadline = start + budget
        ready = max(L, R) if (recv or tcp) else L  # a datagram send never waits for the kernel here
        if _tie(ready, deadline) or _tie(L, deadline):
            return Outcome(classes=("tie-discarded",))
        exp, t_exp = ("ok", max(start, ready)) if ready <= deadline else ("timeout", deadline)
        detail = {"api": case["kind"], "timeout": T, "lock_free_at": L, "ready_at": R, "end": end}
        if outcome != exp or abs(end - t_exp) > 1e-6:
            kind = "overrun" if end > t_exp + 1e-6 or (outcome == "ok" and exp == "timeout") else "gave-up-early"
            raise Violation(
                kind, f"{case['kind']}(timeout={T}) with the lock held until t={L}, ready at t={R}: {outcome} at t={end}, expected {exp} at t={t_exp}", **detail
            )
        if recv and outcome == "ok" and value != "hello":
            raise Violation("wrong-packet", f"got {value!r}", **detail)
        nt = budget not in (0, math.inf) and L > 0 and R > L
        return Outcome(nontrivial=nt, classes=(case["kind"], f"end-{outcome}", "lock-then-io-wait" if R > L else "lock-wait-only"))
    finally:
        sock.close()

# ----------------------------------------------------------------------------------------------
# layer "async-iter": `iter_received_packets(timeout=T)` of the asynchronous TCP client.  T is a budget for the whole
# iterator: time spent waiting inside __anext__ is deducted, time spent by the consumer between two __anext__ calls is
# not.  Runs on the virtual-time loop; the library's ElapsedTime clock is pointed at the loop clock (on a real loop the
# two clocks advance together).


async def _async_iter_session(case: dict) -> dict:
    import asyncio

    from easynetwork.clients.async_tcp import AsyncTCPNetworkClient

    from ..memtransports import MemStreamTransport, VerifBackend

    loop = asyncio.get_running_loop()
    clock = types.SimpleNamespace(now=0.0, perf_counter=loop.time)
    backend = VerifBackend()
    mem = MemStreamTransport(backend)
    backend.connect_transports.append(mem)
    proto: Any = BufferedStreamProtocol(StringLineSerializer()) if case["buffered"] else StreamProtocol(StringLineSerializer())
    res: dict[str, Any] = {"events": [], "end": None}
    with virtual_clock(clock):  # type: ignore[arg-type]
        client = AsyncTCPNetworkClient(("localhost", 9000), proto, backend)
        await client.wait_connected()
        t0 = loop.time()
        res["t0"] = t0
        for t, data in case["arrivals"]:
            loop.call_at(t0 + t, mem.feed, data.encode())
        T = case["timeout"]
        it = client.iter_received_packets(timeout=None if T == "inf" else float(T))
        i = 0
        try:
            while True:
                if T == "inf" and i >= case["npackets"]:
                    res["end"] = "harness-stopped"
                    break
                start = loop.time() - t0
                try:
                    pkt = await anext(it)
                except StopAsyncIteration:
                    res["events"].append(("stop", start, loop.time() - t0))
                    res["end"] = "stop"
                    break
                res["events"].append(("pkt", start, loop.time() - t0, pkt))
                if i > case["npackets"] + 2:
                    raise HarnessError("iterator yields more packets than were sent")
                d = case["outside"][i % len(case["outside"])]
                i += 1
                if d:
                    await asyncio.sleep(d)
        finally:
            await client.aclose()
    return res


def run_async_iter_case(case: dict) -> Outcome:
    from ..vloop import Deadlock, run_virtual

    try:
        r = run_virtual(_async_iter_session, case)
    except Deadlock as exc:
        raise Violation("hang", f"asynchronous iterator never ends: {exc}") from exc
    T = case["timeout"]
    budget = math.inf if T == "inf" else float(T)
    ready = case["ready"]  # virtual completion time of each packet
    names = case["names"]
    # reference: replay the observed consumer delays against the arrival times
    now = 0.0
    k = 0
    exp: list[tuple] = []
    tie = False
    for ev in r["events"]:
        # the consumer's own delay is whatever elapsed between the previous event's end and this event's start
        now = ev[1]
        if k < len(ready):
            wait = max(0.0, ready[k] - now)
            if _tie(wait, budget) and wait > 0:
                tie = True
                break
            if wait <= budget:
                exp.append(("pkt", now + wait, names[k]))
                budget -= wait
                k += 1
                continue
        exp.append(("stop", now + budget))
        break
    if tie:
        return Outcome(classes=("tie-discarded",))
    got = [("pkt", e[2], e[3]) if e[0] == "pkt" else ("stop", e[2]) for e in r["events"]]
    detail = {"timeout": T, "arrivals": case["arrivals"], "outside": case["outside"], "observed": got, "expected": exp}
    if T == "inf":
        if math.isinf(exp[-1][1]) if exp and exp[-1][0] == "stop" else False:
            exp = exp[:-1]
    n = min(len(got), len(exp))
    for a, b in zip(got[:n], exp[:n]):
        same = a[0] == b[0] and abs(a[1] - b[1]) <= 1e-6 and (a[0] == "stop" or a[2] == b[2])
        if not same:
            if a[0] == "pkt" and b[0] == "stop":
                kind = "overrun"
            elif a[0] == "stop" and b[0] == "pkt":
                kind = "gave-up-early"
            elif a[0] == "stop":
                kind = "overrun" if a[1] > b[1] else "gave-up-early"
            else:
                kind = "wrong-packet"
            raise Violation(kind, f"async iter_received_packets(timeout={T}): observed {a}, the budget semantics give {b}", **detail)
    if len(got) != len(exp):
        raise Violation("iterator-budget", f"async iter_received_packets(timeout={T}): observed {len(got)} events, expected {len(exp)}", **detail)
    waited = [e for e in r["events"] if e[0] == "pkt" and e[2] - e[1] > 1e-9]
    nt = budget != math.inf and T not in (0, "inf") and len(waited) >= 2 and any(d > 0 for d in case["outside"])
    classes = [f"timeout-{'inf' if T == 'inf' else ('zero' if T == 0 else 'finite')}", f"end-{r['end']}", f"waited-{min(len(waited), 3)}"]
    if any(d > 0 for d in case["outside"]):
        classes.append("consumer-delays")
    return Outcome(nontrivial=nt, classes=tuple(classes))


@st.composite
def st_async_iter_case(draw: st.DrawFn, tier: str) -> dict:
    n = draw(st.integers(1, 4))
    arrivals: list[tuple[float, str]] = []
    ready: list[float] = []
    names: list[str] = []
    t = 0.0
    for i in range(n):
        name = f"packet-{i}"
        line = name + "\n"
        pieces = draw(st.integers(1, 3))
        cuts = sorted(draw(st.lists(st.integers(1, len(line) - 1), min_size=pieces - 1, max_size=pieces - 1, unique=True)))
        parts = [line[a:b] for a, b in zip([0] + cuts, cuts + [len(line)])]
        for part in parts:
            t += draw(st.sampled_from([0.0, 0.25, 0.5, 0.75, 1.25, 2.5])) + 0.001 * (len(arrivals) + 1)
            arrivals.append((t, part))
        ready.append(t)
        names.append(name)
    return {
        "arrivals": arrivals,
        "ready": ready,
        "names": names,
        "npackets": n,
        "timeout": draw(st.sampled_from([0, 1, 2, 3, 5, 8, "inf"])),
        "outside": draw(st.lists(st.sampled_from([0, 0, 0.375, 1.125, 2.625]), min_size=1, max_size=4)),
        "buffered": draw(st.booleans()),
    }


# ----------------------------------------------------------------------------------------------
# layer "tls": the blocking SSLStreamTransport.  One TLS record carries the application data; its ciphertext reaches the
# socket in 1-5 pieces at generated virtual times (so the transport needs several want-read retries, each of which
# must draw on the same budget).  recv()/recv_into() with timeout T must return the plaintext at the instant the last
# piece arrives if that is within T, and otherwise raise TimeoutError after exactly T; whatever was not read by a
# timed-out call must be returned by a later one.


def _run_tls_poll_case(case: dict) -> Outcome:
    """StreamEndpoint.recv_packet(timeout=0) over the blocking TLS transport: a packet spread over several TLS records
    which have ALL arrived on the socket must be returned by the polling call (SSLSocket.recv() returns at most one
    record per call, so a short read says nothing about the socket being drained)."""
    from easynetwork.lowlevel.api_sync.transports.socket import SSLStreamTransport

    from .. import tlsharness, tlspeer
    from ..synctls import TLSPipe, selector_factory_for

    world = World()
    peer = tlspeer.TLSPeer("server" if case["sut_role"] == "client" else "client", case["version"])
    pipe = TLSPipe(world, peer, [1 << 20])
    ctx, kw = tlsharness.make_sut_kwargs(case["sut_role"], case["version"])
    line = ("p:" + "x" * case["size"]).encode() + b"\n"
    n = case["records"]
    cuts = [len(line) * i // n for i in range(1, n)]
    parts = [line[a:b] for a, b in zip([0] + cuts, cuts + [len(line)]) if b > a]
    try:
        with virtual_clock(world):
            try:
                transport = SSLStreamTransport(pipe.sut_sock, ctx, 1.0, handshake_timeout=1e7, shutdown_timeout=5.0, selector_factory=selector_factory_for(pipe), **kw)
                proto: Any = BufferedStreamProtocol(StringLineSerializer()) if case["buffered"] else StreamProtocol(StringLineSerializer())
                endpoint = StreamEndpoint(transport, proto, max_recv_size=case["max_recv_size"])
                for part in parts:
                    peer.write(part)
                    for _ in range(1000):  # one record per write, all of them delivered to the socket
                        if not pipe.pump():
                            break
                t0 = world.now
                try:
                    got = endpoint.recv_packet(timeout=0)
                except TimeoutError:
                    raise Violation(
                        "gave-up-early",
                        f"recv_packet(timeout=0) over TLS raised TimeoutError although the whole packet ({len(line)} bytes in {len(parts)} TLS "
                        f"records) had already arrived on the socket",
                        mode="endpoint-poll",
                        short_read=True,
                        records=len(parts),
                        max_recv_size=case["max_recv_size"],
                    ) from None
                if got != line[:-1].decode():
                    raise Violation("wrong-packet", f"got {got!r:.60}")
                if world.now != t0:
                    raise Violation("zero-timeout-blocked", f"timeout=0 waited {world.now - t0}")
                endpoint.close()
            except HarnessHang as exc:
                raise Violation("hang", f"blocking TLS poll hangs: {exc}") from exc
            except SpinGuard as exc:
                raise Violation("hang", f"blocking TLS poll spins: {exc}") from exc
    finally:
        pipe.close()
    return Outcome(nontrivial=len(parts) >= 2, classes=("endpoint-poll", f"records-{len(parts)}", f"role-{case['sut_role']}", f"tls-{case['version']}"))


def run_tls_case(case: dict) -> Outcome:
    if case.get("mode") == "endpoint-poll":
        return _run_tls_poll_case(case)
    from easynetwork.lowlevel.api_sync.transports.socket import SSLStreamTransport

    from .. import tlsharness, tlspeer
    from ..synctls import TLSPipe, selector_factory_for

    world = World()
    peer = tlspeer.TLSPeer("server" if case["sut_role"] == "client" else "client", case["version"])
    pipe = TLSPipe(world, peer, [1 << 20])
    ctx, kw = tlsharness.make_sut_kwargs(case["sut_role"], case["version"])
    retry = math.inf if case["retry_interval"] == "inf" else float(case["retry_interval"])
    payload = tlspeer.payload("peer", 0, case["size"])
    T = case["timeout"]
    budget = math.inf if T == "inf" else float(T)
    try:
        with virtual_clock(world):
            try:
                transport = SSLStreamTransport(
                    pipe.sut_sock, ctx, retry, handshake_timeout=1e7, shutdown_timeout=5.0, selector_factory=selector_factory_for(pipe), **kw
                )
                # let post-handshake records (session tickets) settle, then queue the application record and hold it back
                for _ in range(1000):
                    if not pipe.pump():
                        break
                peer.write(payload)
                before = pipe.delivered + len(pipe.to_sut)
                pipe.release_schedule = [(world.now, before)]
                for _ in range(1000):
                    if not pipe.pump():
                        break
                total = pipe.delivered + len(pipe.to_sut) - before  # ciphertext bytes of the record (plus nothing else)
                if total <= 0:
                    raise HarnessError("peer produced no ciphertext for the application record")
                start = world.now
                fracs = sorted(set(case["fractions"]))
                cum = sorted({max(1, min(total, int(total * f))) for f in fracs} | {total})
                times = case["times"][: len(cum)]
                while len(times) < len(cum):
                    times.append(times[-1] + 0.5)
                pipe.release_schedule = [(start, before)] + [(start + t, before + c) for t, c in zip(times, cum)]
                ready = times[len(cum) - 1]
                got = bytearray()
                outcome = None
                try:
                    if case["recv_mode"] == "recv":
                        got += transport.recv(65536, budget)
                    else:
                        buf = bytearray(65536)
                        n = transport.recv_into(buf, budget)
                        got += buf[:n]
                    outcome = "ok"
                except TimeoutError:
                    outcome = "timeout"
                end = world.now - start
                if _tie(ready, budget):
                    return Outcome(classes=("tie-discarded",))
                exp, t_exp = ("ok", ready) if ready <= budget else ("timeout", budget)
                detail = {"timeout": T, "pieces": list(zip(times, cum)), "ciphertext": total, "end": end, "outcome": outcome}
                if outcome != exp or abs(end - t_exp) > 1e-6:
                    kind = "overrun" if end > t_exp + 1e-6 or (outcome == "ok" and exp == "timeout") else "gave-up-early"
                    raise Violation(
                        kind,
                        f"SSLStreamTransport.{case['recv_mode']}(timeout={T}): record complete at t={ready} ({len(cum)} pieces): "
                        f"{outcome} at t={end}, expected {exp} at t={t_exp}",
                        **detail,
                    )
                # nothing is lost: read the rest without a deadline
                guard = 0
                while len(got) < len(payload):
                    got += transport.recv(65536, math.inf)
                    guard += 1
                    if guard > 50:
                        raise Violation("data-lost", f"plaintext never completes after the timed call: {len(got)}/{len(payload)}", **detail)
                if bytes(got) != payload:
                    raise Violation("data-lost", "plaintext differs from what the peer wrote", **detail)
                transport.close()
            except HarnessHang as exc:
                raise Violation("hang", f"blocking TLS recv hangs: {exc}") from exc
            except SpinGuard as exc:
                raise Violation("hang", f"blocking TLS recv spins: {exc}") from exc
    finally:
        pipe.close()
    nt = budget not in (0, math.inf) and len(cum) >= 3
    near = abs(ready - budget) <= 1.0
    classes = [f"end-{outcome}", f"pieces-{min(len(cum), 4)}", f"role-{case['sut_role']}", f"tls-{case['version']}", f"timeout-{'inf' if T == 'inf' else ('zero' if T == 0 else 'finite')}"]
    if near:
        classes.append("near-deadline")
    return Outcome(nontrivial=nt, classes=tuple(classes))


@st.composite
def st_tls_case(draw: st.DrawFn, tier: str) -> dict:
    if draw(st.integers(0, 3)) == 0:
        return {
            "mode": "endpoint-poll",
            "sut_role": draw(st.sampled_from(["client", "server"])),
            "version": draw(st.sampled_from(["1.2", "1.3"])),
            "size": draw(st.sampled_from([3, 100, 5000, 40000])),
            "records": draw(st.integers(1, 4)),
            "buffered": draw(st.booleans()),
            "max_recv_size": draw(st.sampled_from([256, 16384, 65536])),
        }
    n = draw(st.integers(1, 5))
    times: list[float] = []
    t = 0.0
    for i in range(n):
        t += draw(st.sampled_from([0.0, 0.25, 0.5, 0.75, 1.25, 2.5])) + 0.001 * (i + 1)
        times.append(t)
    return {
        "sut_role": draw(st.sampled_from(["client", "server"])),
        "version": draw(st.sampled_from(["1.2", "1.3"])),
        "size": draw(st.sampled_from([1, 100, 5000, 16384])),
        "fractions": draw(st.lists(st.sampled_from([0.01, 0.1, 0.3, 0.5, 0.9, 0.99]), min_size=n - 1, max_size=n - 1)),
        "times": times,
        "timeout": draw(st.sampled_from([0, 1, 2, 3, 5, 8, "inf"])),
        "retry_interval": draw(st.sampled_from(RETRY)),
        "recv_mode": draw(st.sampled_from(["recv", "recv_into"])),
    }


# ----------------------------------------------------------------------------------------------
# layer "iter-errors": the whole-iterator budget of iter_received_packets(timeout=T) when some of the frames are
# malformed: the parse error is raised out of next()/anext(), the consumer catches it and goes on with the SAME iterator
# (legal).  The time waited for a frame that turned out to be malformed is part of the budget like any other wait.

_BAD_LINE = b"\xff\xfe\n"  # not ASCII: StringLineSerializer() reports a parse error for this frame


def _iter_errors_model(case: dict) -> tuple[list[tuple], bool]:
    budget = float(case["timeout"])
    now = 0.0
    out: list[tuple] = []
    for ready, kind in case["events"]:
        wait = max(0.0, ready - now)
        if wait > 0 and _tie(wait, budget):
            return out, True
        if wait > budget:
            break
        now += wait
        budget -= wait
        out.append((kind, now))
    out.append(("stop", now + budget))
    return out, False


async def _iter_errors_async(case: dict) -> list[tuple]:
    import asyncio

    from easynetwork.clients.async_tcp import AsyncTCPNetworkClient
    from easynetwork.exceptions import StreamProtocolParseError

    from ..memtransports import MemStreamTransport, VerifBackend

    loop = asyncio.get_running_loop()
    clock = types.SimpleNamespace(now=0.0, perf_counter=loop.time)
    backend = VerifBackend()
    mem = MemStreamTransport(backend)
    backend.connect_transports.append(mem)
    got: list[tuple] = []
    with virtual_clock(clock):  # type: ignore[arg-type]
        client = AsyncTCPNetworkClient(("localhost", 9000), StreamProtocol(StringLineSerializer()), backend)
        await client.wait_connected()
        t0 = loop.time()
        for i, (ready, kind) in enumerate(case["events"]):
            loop.call_at(t0 + ready, mem.feed, _BAD_LINE if kind == "bad" else f"pkt-{i}\n".encode())
        it = client.iter_received_packets(timeout=float(case["timeout"]))
        try:
            while len(got) <= len(case["events"]) + 2:
                try:
                    await anext(it)
                except StopAsyncIteration:
                    got.append(("stop", loop.time() - t0))
                    break
                except StreamProtocolParseError:
                    got.append(("bad", loop.time() - t0))
                else:
                    got.append(("ok", loop.time() - t0))
        finally:
            await client.aclose()
    return got


def _iter_errors_sync(case: dict) -> list[tuple]:
    from easynetwork.exceptions import StreamProtocolParseError

    world = World()
    sock = PeeredFakeSocket(world, socket.SOCK_STREAM)
    got: list[tuple] = []
    try:
        for i, (ready, kind) in enumerate(case["events"]):
            world.at(ready, lambda i=i, kind=kind: sock.env_arrive(_BAD_LINE if kind == "bad" else f"pkt-{i}\n".encode()))
        world.run_due()
        factory = make_selector_factory(world, sock)
        with virtual_clock(world), _patched_default_selector(factory):
            client = TCPNetworkClient(sock, StreamProtocol(StringLineSerializer()), retry_interval=float(case["retry_interval"]))
            it = client.iter_received_packets(timeout=float(case["timeout"]))
            try:
                while len(got) <= len(case["events"]) + 2:
                    try:
                        next(it)
                    except StopIteration:
                        got.append(("stop", world.now))
                        break
                    except StreamProtocolParseError:
                        got.append(("bad", world.now))
                    else:
                        got.append(("ok", world.now))
            except (HarnessHang, SpinGuard) as exc:
                raise Violation("hang", f"iterator blocks: {exc}") from exc
    finally:
        sock.close()
    return got


def run_iter_errors_case(case: dict) -> Outcome:
    from ..vloop import Deadlock, run_virtual

    exp, tie = _iter_errors_model(case)
    if tie:
        return Outcome(classes=("tie-discarded",))
    if case["kind"] == "async":
        try:
            got = run_virtual(_iter_errors_async, case)
        except Deadlock as exc:
            raise Violation("hang", f"asynchronous iterator never ends: {exc}") from exc
    else:
        got = _iter_errors_sync(case)
    detail = {"client": case["kind"], "timeout": case["timeout"], "events": case["events"], "observed": got, "expected": exp}
    for a, b in zip(got, exp):
        if a[0] != b[0] or abs(a[1] - b[1]) > 1e-6:
            if b[0] == "stop" and (a[0] != "stop" or a[1] > b[1]):
                kind = "overrun"
            elif a[0] == "stop":
                kind = "gave-up-early"
            else:
                kind = "iterator-budget"
            raise Violation(
                kind,
                f"{case['kind']} iter_received_packets(timeout={case['timeout']}) with malformed frames in the stream: observed {a}, the whole-iterator budget gives {b}",
                **detail,
            )
    if len(got) != len(exp):
        raise Violation("iterator-budget", f"observed {len(got)} events, expected {len(exp)}", **detail)
    bad_waited = any(k == "bad" and t > 0 for k, t in exp)
    classes = [f"client-{case['kind']}", "bad-frame-waited-for" if bad_waited else "no-wait-for-bad-frame"]
    return Outcome(nontrivial=bad_waited and len(exp) >= 3, classes=tuple(classes))


@st.composite
def st_iter_errors_case(draw: st.DrawFn, tier: str) -> dict:
    n = draw(st.integers(1, 5))
    events = []
    t = 0.0
    for i in range(n):
        t += draw(st.sampled_from([0.0, 0.25, 0.5, 0.75, 1.25])) + 0.001 * (i + 1)
        events.append([t, draw(st.sampled_from(["ok", "bad", "bad"]))])
    return {
        "kind": draw(st.sampled_from(["sync", "async"])),
        "events": events,
        "timeout": draw(st.sampled_from([1, 2, 3, 5])),
        "retry_interval": draw(st.sampled_from([0.3, 1.0, 7.0])),
    }



CHECK = Check(
    id="C11",
    level="exploration",
    rule=(
        "case = arrival timeline of the bytes of 1-4 packets (absolute virtual times; drip-feed, bursts, EOF) or a "
        "kernel-capacity/peer-drain timeline for sends x spurious select() wake-ups and EINTR/EAGAIN on the socket call x "
        "timeout {0, 1..8, None} per call x retry_interval {0.3, 1, 7, inf} x API (StreamEndpoint both receive paths, "
        "TCPNetworkClient recv/send/iter_received_packets, DatagramEndpoint, UDPNetworkClient) x max_recv_size; exact "
        "virtual-time oracle; non-trivial = finite timeout with >= 3 partial arrivals or spurious wake-ups and completion "
        "close to the deadline; ties between an arrival and a deadline are discarded (counted as class tie-discarded); "
        "layer async-iter: AsyncTCPNetworkClient.iter_received_packets(timeout) on the virtual loop, 1-4 packets in 1-3 pieces at "
        "generated times x consumer delays between __anext__ calls (not deducted) - non-trivial = finite budget, >= 2 packets waited "
        "for and a consumer delay; layer tls: blocking SSLStreamTransport.recv/recv_into, one TLS record whose ciphertext arrives in "
        "1-5 pieces at generated times - non-trivial = finite timeout and >= 3 pieces (mode endpoint-poll: recv_packet(timeout=0) on a packet of "
        "1-4 TLS records that have all arrived); layer iter-errors: blocking and asynchronous iter_received_packets(timeout) over streams with "
        "malformed frames whose parse errors the consumer catches before going on with the same iterator - non-trivial = a malformed frame was waited for"
    ),
    layers=[
        Layer("recv", st_recv_case, run_recv_case, {"quick": 1500, "thorough": 8000}),
        Layer("send", st_send_case, run_send_case, {"quick": 800, "thorough": 4000}),
        Layer("datagram", st_dgram_case, run_dgram_case, {"quick": 600, "thorough": 3000}),
        Layer("lock", st_lock_case, run_lock_case, {"quick": 400, "thorough": 1500}),
        Layer("async-iter", st_async_iter_case, run_async_iter_case, {"quick": 800, "thorough": 4000}),
        Layer("tls", st_tls_case, run_tls_case, {"quick": 300, "thorough": 2000}),
        Layer("iter-errors", st_iter_errors_case, run_iter_errors_case, {"quick": 400, "thorough": 2500}),
    ],
    assumptions=[
        "time is virtual: perf_counter of lowlevel/_utils.py and the selector are replaced, so only waits inside select() take time (processing time is zero)",
        "recv/send/datagram/lock layers: the socket is a socket.socket subclass with a simulated data path; layer tls: real socketpair, stdlib-ssl peer pumped inside select(), "
        "pieces of the ciphertext released at virtual times (TLS send-side budget is not covered)",
        "layer async-iter: lowlevel/_utils.ElapsedTime reads the virtual loop clock (on a real loop perf_counter and loop.time() advance together)",
        "lock layer: the clients' threading.Lock objects are replaced (through the module global `threading` of clients/tcp.py and clients/udp.py) by a lock whose acquire() waits in virtual time until a generated release instant",
    ],
)
