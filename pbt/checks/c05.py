"""C05 — datagrams: one packet per datagram, boundaries preserved, errors isolated (DESIGN.md section 3, C05).

Four layers share one case shape (serializer spec, inbound datagram recipes, packets to send, interleaving):

protocol        DatagramProtocol alone (one shared instance for the whole history)
endpoint-sync   DatagramEndpoint over an in-memory scripted DatagramTransport (with scripted TimeoutError faults)
endpoint-async  AsyncDatagramEndpoint over an in-memory AsyncDatagramTransport on the real asyncio backend
udp             UDPNetworkClient / AsyncUDPNetworkClient over loopback UDP (missing datagram => inconclusive)
large           datagrams of up to 65527 bytes (the UDP/IPv6 maximum) through the blocking transport/client over a simulated
                socket that truncates like the kernel, and through both clients over real IPv6 loopback
"""

from __future__ import annotations

import asyncio
import socket
from typing import Any

from hypothesis import strategies as st

from easynetwork.clients.async_udp import AsyncUDPNetworkClient
from easynetwork.clients.udp import UDPNetworkClient
from easynetwork.exceptions import DatagramProtocolParseError
from easynetwork.lowlevel.api_async.backend._asyncio.backend import AsyncIOBackend
from easynetwork.lowlevel.api_async.endpoints.datagram import AsyncDatagramEndpoint
from easynetwork.lowlevel.api_sync.endpoints.datagram import DatagramEndpoint

from .. import dgram, mutate, zoo
from ..core import Check, HarnessError, Inconclusive, Layer, Outcome, Violation

MAX_DGRAM = 2048
UDP_WAIT_S = 2.0  # only ever turns into Inconclusive


# ----------------------------------------------------------------------------------------------
# generator


@st.composite
def st_case(draw: st.DrawFn, tier: str, layer: str) -> dict:
    spec = mutate.pickle_policy(draw(dgram.st_datagram_spec()))
    pk = zoo.st_packet(spec)
    if spec.get("conv"):
        # valid packets are packets the (harness) converter accepts; refused ones are the "marked" recipe below
        pk = pk.filter(lambda p: not _refused_by_converter(p))
    kinds = ["valid", "valid", "valid", "trunc", "ext", "glued", "random"]
    if spec.get("conv") and dgram.marked_packet(spec) is not None:
        kinds += ["marked", "marked"]
    if mutate.recv_spec(spec)["kind"] == "pickle":
        kinds += ["pickleops"] * 4

    def one(k: str) -> st.SearchStrategy[dict]:
        if k == "valid":
            return pk.map(lambda p: {"k": "valid", "p": p})
        if k == "trunc":
            return st.tuples(pk, st.one_of(st.integers(0, 6), st.integers(0, 5000))).map(lambda t: {"k": "trunc", "p": t[0], "cut": t[1]})
        if k == "ext":
            extra = st.one_of(st.binary(min_size=1, max_size=6), st.sampled_from([b"\n", b"\r\n", b" ", b"\x00", b"=", b".", b"0"]))
            return st.tuples(pk, extra).map(lambda t: {"k": "ext", "p": t[0], "extra": t[1]})
        if k == "glued":
            return st.tuples(pk, pk).map(lambda t: {"k": "glued", "p": t[0], "q": t[1]})
        if k == "random":
            return st.binary(max_size=48).map(lambda b: {"k": "random", "data": b})
        if k == "pickleops":
            return mutate.st_pickle_ops().map(lambda b: {"k": "pickleops", "data": b})
        return st.just({"k": "marked"})

    max_d = 12 if layer != "udp" else 10
    dgrams = draw(st.lists(st.sampled_from(kinds).flatmap(one), min_size=1, max_size=max_d))
    sends = draw(st.lists(pk, max_size=6))
    case: dict = {
        "spec": spec,
        "dgrams": dgrams,
        "sends": sends,
        "pattern": draw(st.lists(st.integers(0, 1), min_size=1, max_size=8)),
    }
    if layer != "udp":
        case["perm"] = draw(st.permutations(list(range(len(dgrams)))))
    if layer == "endpoint-sync":
        case["timeouts"] = draw(st.lists(st.sampled_from([0, 0, 0, 1, 2]), min_size=1, max_size=6))
        case["use_timeout"] = draw(st.sampled_from([None, 0, 1.5]))
    if layer == "endpoint-async":
        case["ryields"] = draw(st.lists(st.integers(0, 3), min_size=1, max_size=5))
        case["syields"] = draw(st.lists(st.integers(0, 3), min_size=1, max_size=5))
        case["concurrent"] = draw(st.booleans())
    if layer == "udp":
        case["client"] = draw(st.sampled_from(["sync", "async"]))
    return case


def _refused_by_converter(p: Any) -> bool:
    return p == "!bad" or p == b"!bad" or (isinstance(p, dict) and "!bad" in p)


def _strategy(layer: str):
    return lambda tier: st_case(tier, layer)


# ----------------------------------------------------------------------------------------------
# materialising a case


class Plan:
    """datagram bytes, per-datagram reference outputs and the oracle that does not depend on the layer"""

    def __init__(self, case: dict) -> None:
        self.case = case
        self.spec = case["spec"]
        self.entry = zoo.build(self.spec)  # never used for receiving in the layer under test
        ser = self.entry.serializer
        self.info = {"serializer": self.spec["kind"], "conv": bool(self.spec.get("conv"))}
        self.inbound: list[bytes] = []
        self.kinds: list[str] = []
        exact = dgram.promises_exact(self.spec)
        self.classes: set[str] = {f"kind-{self.spec['kind']}"}
        if self.entry.conv:
            self.classes.add("converter")
        if exact:
            self.classes.add("exact-size-promise")
        if dgram.uses_default_oneshot(ser):
            self.classes.add("default-oneshot-path")
        for rec in case["dgrams"]:
            k = rec["k"]
            if k == "marked":
                j = dgram.marked_packet(self.spec)
                if j is None:
                    raise HarnessError("marked datagram for a kind that cannot carry one")
                d = ser.serialize(self.entry.to_dto(j))
            elif k in ("random", "pickleops"):
                d = rec["data"]
            else:
                valid = ser.serialize(self.entry.to_dto(rec["p"]))
                self._check_valid(rec["p"], valid)
                if k == "valid":
                    d = valid
                elif k == "trunc":
                    d = valid[: rec["cut"] % len(valid)] if valid else valid
                elif k == "ext":
                    d = valid + rec["extra"]
                elif k == "glued":
                    d = valid + ser.serialize(self.entry.to_dto(rec["q"]))
                else:
                    raise HarnessError(k)
            if not isinstance(d, bytes):
                raise Violation("send-type", f"serialize() returned {type(d).__name__}", **self.info)
            if k != "valid" and mutate.scans_as_pickle(self.spec) and mutate.pickle_put_index_max(d) > mutate.PICKLE_MEMO_INDEX_MAX:
                # memo-array bomb of CPython's C unpickler (stdlib resource exhaustion, out of the domain): replaced by a
                # harmless truncated pickle, see mutate.pickle_put_index_max
                d = b"N"
                self.classes.add("excluded-pickle-memo-index")
            if len(d) > MAX_DGRAM * 4:
                raise HarnessError(f"datagram of {len(d)} bytes generated")
            self.inbound.append(d)
            self.kinds.append(k)
            self.classes.add(f"dgram-{k}")
        self.refs = [dgram.reference(self.spec, d) for d in self.inbound]
        for i, (k, rec, ref) in enumerate(zip(self.kinds, case["dgrams"], self.refs)):
            if k == "valid":
                want = ("pkt", dgram.expected_oneshot(self.entry, rec["p"]))
                if not dgram.same_output(ref, want):
                    raise Violation(
                        "oneshot-roundtrip", f"deserialize(serialize(p)) != p: sent {dgram.show(want)} got {dgram.show(ref)}", index=i, **self.info
                    )
            elif k == "marked":
                want = ("err", "PacketConversionError") if self.entry.conv else ("pkt", dgram.expected_oneshot(self.entry, dgram.marked_packet(self.spec)))
                if not dgram.same_output(ref, want):
                    raise Violation("converter", f"marked packet: expected {dgram.show(want)} got {dgram.show(ref)}", index=i, **self.info)
            elif k in ("trunc", "ext", "glued") and exact:
                if ref[0] != "err":
                    raise Violation(
                        "too-little-or-too-much",
                        f"{k} datagram {self.inbound[i]!r:.200} accepted as {dgram.show(ref)} although the one-shot path promises an error",
                        index=i,
                        malformed=k,
                        **self.info,
                    )
                self.classes.add(f"exact-{k}-rejected")
        self.malformed_then_valid = any(
            self.refs[i][0] == "err" and self.refs[i + 1][0] == "pkt" and self.kinds[i + 1] == "valid" for i in range(len(self.refs) - 1)
        )
        if self.malformed_then_valid:
            self.classes.add("malformed-then-valid")
        if any(r[0] == "err" for r in self.refs):
            self.classes.add("has-error")
        if any(r[0] == "pkt" and k not in ("valid", "marked") for r, k in zip(self.refs, self.kinds)):
            self.classes.add("malformed-but-decodable")
        # order of operations: (is_recv, index)
        self.ops: list[tuple[str, int]] = []
        ri = si = 0
        pat = case["pattern"]
        n = 0
        while ri < len(self.inbound) or si < len(case["sends"]):
            want_recv = pat[n % len(pat)] == 0
            n += 1
            if (want_recv and ri < len(self.inbound)) or si >= len(case["sends"]):
                self.ops.append(("r", ri))
                ri += 1
            else:
                self.ops.append(("s", si))
                si += 1

    def _check_valid(self, j: Any, valid: bytes) -> None:
        """one-shot / incremental agreement for serializers that use the default one-shot implementation"""
        ser = self.entry.serializer
        if dgram.uses_default_oneshot(ser):
            inc = b"".join(ser.incremental_serialize(self.entry.to_dto(j)))
            if inc != valid:
                raise Violation("oneshot-vs-incremental", f"serialize(p)={valid!r:.120} but joined incremental_serialize(p)={inc!r:.120}", **self.info)

    # -- oracles -----------------------------------------------------------------------------
    def check_recv(self, i: int, got: tuple, where: str) -> None:
        if not dgram.same_output(got, self.refs[i]):
            raise Violation(
                "datagram-isolation",
                f"{where}: output for datagram #{i} ({self.kinds[i]}, {self.inbound[i]!r:.120}) is {dgram.show(got)}, "
                f"the datagram alone gives {dgram.show(self.refs[i])}",
                index=i,
                where=where,
                **self.info,
            )

    def check_sent(self, si: int, before: int, sent: list[bytes], where: str) -> None:
        j = self.case["sends"][si]
        if len(sent) != before + 1:
            raise Violation("one-datagram-per-send", f"{where}: send_packet #{si} produced {len(sent) - before} datagrams", where=where, **self.info)
        got = dgram.reference(self.spec, sent[-1])
        want = ("pkt", dgram.expected_oneshot(self.entry, j))
        if not dgram.same_output(got, want):
            raise Violation(
                "send-roundtrip",
                f"{where}: datagram {sent[-1]!r:.120} of send_packet #{si} deserializes to {dgram.show(got)}, sent {dgram.show(want)}",
                where=where,
                **self.info,
            )

    def outcome(self, extra: tuple[str, ...] = ()) -> Outcome:
        return Outcome(nontrivial=self.malformed_then_valid, classes=tuple(sorted(self.classes | set(extra))))


def _capture(fn, *a: Any, **kw: Any) -> tuple:
    try:
        pkt = fn(*a, **kw)
    except DatagramProtocolParseError as exc:
        if type(exc) is not DatagramProtocolParseError:
            raise Violation("error-type", f"{type(exc).__name__} raised") from exc
        return ("err", type(exc.error).__name__)
    return ("pkt", pkt)


# ----------------------------------------------------------------------------------------------
# layer 1: the protocol object alone


def run_protocol(case: dict) -> Outcome:
    plan = Plan(case)
    proto = zoo.build(plan.spec).datagram_protocol()  # one shared instance for the whole history
    sent: list[bytes] = []
    for op, i in plan.ops:
        if op == "r":
            plan.check_recv(i, _capture(proto.build_packet_from_datagram, plan.inbound[i]), "protocol")
        else:
            before = len(sent)
            d = proto.make_datagram(plan.entry.to_packet(case["sends"][i]))
            if not isinstance(d, bytes):
                raise Violation("send-type", f"make_datagram() returned {type(d).__name__}", **plan.info)
            sent.append(d)
            plan.check_sent(i, before, sent, "protocol")
    # no state carried over: the same datagrams in another order give the permuted outputs (same instance, continued)
    for k in case["perm"]:
        plan.check_recv(k, _capture(proto.build_packet_from_datagram, plan.inbound[k]), "protocol/permuted")
    return plan.outcome()


# ----------------------------------------------------------------------------------------------
# layer 2: DatagramEndpoint over the scripted transport


def run_endpoint_sync(case: dict) -> Outcome:
    plan = Plan(case)
    perm = case["perm"]
    inbound = plan.inbound + [plan.inbound[k] for k in perm]
    tos = case["timeouts"]
    script = {i: tos[i % len(tos)] for i in range(len(inbound)) if tos[i % len(tos)]}
    transport = dgram.ScriptedDatagramTransport(inbound, script)
    endpoint = DatagramEndpoint(transport, zoo.build(plan.spec).datagram_protocol())
    timeout = case["use_timeout"]
    faults = 0

    def recv_one(i: int, where: str) -> None:
        nonlocal faults
        pos = transport.delivered
        while True:
            calls = transport.recv_calls
            try:
                got = _capture(endpoint.recv_packet, timeout=timeout)
            except TimeoutError:
                # scripted fault: nothing was delivered, the next receive must still see datagram `pos`
                faults += 1
                if transport.delivered != pos or transport.recv_calls != calls + 1:
                    raise Violation("recv-count", f"{where}: a timed-out recv_packet consumed a datagram", **plan.info) from None
                continue
            break
        if transport.recv_calls != calls + 1 or transport.delivered != pos + 1:
            raise Violation(
                "recv-count", f"{where}: recv_packet did {transport.recv_calls - calls} transport.recv() calls for one packet", where=where, **plan.info
            )
        plan.check_recv(i, got, where)

    try:
        for op, i in plan.ops:
            if op == "r":
                recv_one(i, "endpoint-sync")
            else:
                before = len(transport.sent)
                endpoint.send_packet(plan.entry.to_packet(case["sends"][i]), timeout=timeout)
                plan.check_sent(i, before, transport.sent, "endpoint-sync")
        for k in perm:
            recv_one(k, "endpoint-sync/permuted")
    finally:
        endpoint.close()
    expected_timeout = dgram.INF if timeout is None else timeout
    if any(t != expected_timeout for t in transport.timeouts_seen):
        raise Violation("bad-timeout", f"recv_packet(timeout={timeout}) passed {sorted(set(transport.timeouts_seen))} to the transport", **plan.info)
    extra = ("timeout-fault",) if faults else ()
    return plan.outcome(extra)


# ----------------------------------------------------------------------------------------------
# layer 3: AsyncDatagramEndpoint over the in-memory transport, real asyncio backend


def run_endpoint_async(case: dict) -> Outcome:
    plan = Plan(case)
    perm = case["perm"]
    inbound = plan.inbound + [plan.inbound[k] for k in perm]

    async def acapture(endpoint: AsyncDatagramEndpoint) -> tuple:
        try:
            pkt = await endpoint.recv_packet()
        except DatagramProtocolParseError as exc:
            if type(exc) is not DatagramProtocolParseError:
                raise Violation("error-type", f"{type(exc).__name__} raised") from exc
            return ("err", type(exc.error).__name__)
        return ("pkt", pkt)

    async def main() -> None:
        backend = AsyncIOBackend()
        transport = dgram.MemAsyncDatagramTransport(backend, inbound, case["ryields"], case["syields"])
        endpoint = AsyncDatagramEndpoint(transport, zoo.build(plan.spec).datagram_protocol())

        async def recv_one(i: int, where: str) -> None:
            calls = transport.recv_calls
            got = await acapture(endpoint)
            if transport.recv_calls != calls + 1:
                raise Violation("recv-count", f"{where}: recv_packet did {transport.recv_calls - calls} transport.recv() calls", **plan.info)
            plan.check_recv(i, got, where)

        async def send_one(i: int, where: str) -> None:
            before = len(transport.sent)
            await endpoint.send_packet(plan.entry.to_packet(case["sends"][i]))
            plan.check_sent(i, before, transport.sent, where)

        try:
            if case["concurrent"]:
                # one receiver task and one sender task interleave at the scripted checkpoints
                async def receiver() -> None:
                    for i in range(len(plan.inbound)):
                        await recv_one(i, "endpoint-async/concurrent")

                async def sender() -> None:
                    for i in range(len(case["sends"])):
                        await send_one(i, "endpoint-async/concurrent")

                await asyncio.gather(receiver(), sender())
            else:
                for op, i in plan.ops:
                    if op == "r":
                        await recv_one(i, "endpoint-async")
                    else:
                        await send_one(i, "endpoint-async")
            for k in perm:
                await recv_one(k, "endpoint-async/permuted")
        finally:
            await endpoint.aclose()

    asyncio.run(main())
    return plan.outcome(("concurrent-tasks",) if case["concurrent"] and case["sends"] else ())


# ----------------------------------------------------------------------------------------------
# layer 4: the UDP clients over loopback (≤ 20 small datagrams; anything missing is inconclusive)


def _udp_pair() -> tuple[socket.socket, socket.socket]:
    peer = socket.socket(socket.AF_INET, socket.SOCK_DGRAM)
    csock = socket.socket(socket.AF_INET, socket.SOCK_DGRAM)
    try:
        peer.bind(("127.0.0.1", 0))
        csock.bind(("127.0.0.1", 0))
        csock.connect(peer.getsockname())
        peer.connect(csock.getsockname())
    except BaseException:
        peer.close()
        csock.close()
        raise
    return peer, csock


def _no_extra_datagram(peer: socket.socket, plan: Plan, where: str) -> None:
    peer.setblocking(False)
    try:
        extra = peer.recv(65536)
    except (BlockingIOError, InterruptedError):
        return
    raise Violation("one-datagram-per-send", f"{where}: an additional datagram {extra!r:.120} reached the peer", where=where, **plan.info)


def run_udp(case: dict) -> Outcome:
    plan = Plan(case)
    if len(plan.inbound) + len(case["sends"]) > 20 or any(len(d) > MAX_DGRAM * 4 for d in plan.inbound):
        raise HarnessError("udp case out of bounds")
    try:
        peer, csock = _udp_pair()
    except OSError as exc:
        raise Inconclusive(f"cannot create loopback UDP sockets: {exc}") from exc
    proto = zoo.build(plan.spec).datagram_protocol()
    if case["client"] == "sync":
        _run_udp_sync(plan, case, peer, csock, proto)
    else:
        _run_udp_async(plan, case, peer, csock, proto)
    return plan.outcome((f"client-{case['client']}",))


def _run_udp_sync(plan: Plan, case: dict, peer: socket.socket, csock: socket.socket, proto: Any) -> None:
    where = "udp-sync"
    with peer:
        client = UDPNetworkClient(csock, proto)
        with client:
            peer.settimeout(UDP_WAIT_S)
            for d in plan.inbound:  # all queued in the kernel first: boundaries must survive the queue
                peer.send(d)
            sent: list[bytes] = []
            for op, i in plan.ops:
                if op == "r":
                    try:
                        got = _capture(client.recv_packet, timeout=UDP_WAIT_S)
                    except TimeoutError:
                        raise Inconclusive(f"datagram #{i} did not arrive within {UDP_WAIT_S}s") from None
                    plan.check_recv(i, got, where)
                else:
                    before = len(sent)
                    client.send_packet(plan.entry.to_packet(case["sends"][i]))
                    try:
                        sent.append(peer.recv(65536))
                    except (TimeoutError, socket.timeout):
                        raise Inconclusive(f"sent datagram #{i} did not reach the peer within {UDP_WAIT_S}s") from None
                    plan.check_sent(i, before, sent, where)
            _no_extra_datagram(peer, plan, where)


def _run_udp_async(plan: Plan, case: dict, peer: socket.socket, csock: socket.socket, proto: Any) -> None:
    where = "udp-async"

    async def main() -> None:
        loop = asyncio.get_running_loop()
        peer.setblocking(False)
        client = AsyncUDPNetworkClient(csock, proto, AsyncIOBackend())
        async with client:
            await client.wait_connected()
            for d in plan.inbound:
                peer.send(d)
            sent: list[bytes] = []
            for op, i in plan.ops:
                if op == "r":
                    try:
                        pkt = await asyncio.wait_for(client.recv_packet(), UDP_WAIT_S)
                    except DatagramProtocolParseError as exc:
                        got: tuple = ("err", type(exc.error).__name__)
                    except TimeoutError:
                        raise Inconclusive(f"datagram #{i} did not arrive within {UDP_WAIT_S}s") from None
                    else:
                        got = ("pkt", pkt)
                    plan.check_recv(i, got, where)
                else:
                    before = len(sent)
                    await client.send_packet(plan.entry.to_packet(case["sends"][i]))
                    try:
                        sent.append(await asyncio.wait_for(loop.sock_recv(peer, 65536), UDP_WAIT_S))
                    except TimeoutError:
                        raise Inconclusive(f"sent datagram #{i} did not reach the peer within {UDP_WAIT_S}s") from None
                    plan.check_sent(i, before, sent, where)
            _no_extra_datagram(peer, plan, where)

    with peer:
        try:
            asyncio.run(main())
        finally:
            if csock.fileno() != -1:
                csock.close()



# ----------------------------------------------------------------------------------------------
# layer "large": datagram sizes at the top of what UDP can carry (65507 bytes over IPv4, 65527 over IPv6).  A receive
# buffer that is a few bytes too small silently *truncates* such a datagram (the kernel drops the rest): boundaries are
# then no longer preserved although every ordinary datagram still works.  Payload-transparent serializer, so the sizes
# on the wire are exactly the generated ones; three carriers: the blocking SocketDatagramTransport / UDPNetworkClient over
# a simulated datagram socket that truncates to the recv() buffer size as the kernel does, and both UDP clients over
# real IPv6 loopback sockets when the sandbox has ::1 (else inconclusive).

LARGE_SIZES = [1, 2, 1000, 1472, 9000, 32768, 65000, 65506, 65507, 65508, 65509, 65520, 65526, 65527]
UDP6_MAX = 65527
UDP4_MAX = 65507


def _transparent_protocol() -> Any:
    from easynetwork.exceptions import DeserializeError
    from easynetwork.protocol import DatagramProtocol
    from easynetwork.serializers.abc import AbstractPacketSerializer

    class Transparent(AbstractPacketSerializer[bytes, bytes]):
        __slots__ = ()

        def serialize(self, packet: bytes) -> bytes:
            return bytes(packet)

        def deserialize(self, data: bytes) -> bytes:
            if data[:1] == b"!":
                raise DeserializeError("marked as malformed")
            return bytes(data)

    return DatagramProtocol(Transparent())


def _large_payload(i: int, size: int, bad: bool) -> bytes:
    head = (b"!" if bad else b"#") + b"%d:%d:" % (i, size)
    body = bytearray(head[:size])
    k = 0
    while len(body) < size:
        body += b"%08x" % (k * 2654435761 % (1 << 32))
        k += 1
    body = body[:size]
    if size >= 2:
        body[-1] = 0x24  # '$': a lost tail is visible even if the length were not compared
    return bytes(body)


@st.composite
def st_large_case(draw: st.DrawFn, tier: str) -> dict:
    carrier = draw(st.sampled_from(["fake-transport", "fake-client", "fake-client", "udp6-sync", "udp6-async"]))
    n = draw(st.integers(1, 5))
    sizes = draw(st.lists(st.sampled_from(LARGE_SIZES), min_size=n, max_size=n))
    if not any(s > 65000 for s in sizes):
        sizes[draw(st.integers(0, n - 1))] = draw(st.sampled_from([s for s in LARGE_SIZES if s > 65000]))
    return {
        "carrier": carrier,
        "inbound": [[s, draw(st.integers(0, 4)) == 0] for s in sizes],
        "sends": draw(st.lists(st.sampled_from(LARGE_SIZES), max_size=2)),
    }


def _check_large_recv(i: int, size: int, bad: bool, got: tuple, where: str) -> None:
    want = _large_payload(i, size, bad)
    if bad:
        if got[0] != "err":
            raise Violation("error-isolation", f"{where}: malformed datagram #{i} ({size} bytes) did not yield a parse error: {got!r:.200}", where=where)
        return
    if got[0] != "pkt":
        raise Violation("boundaries", f"{where}: valid datagram #{i} of {size} bytes yielded {got!r:.200}", where=where, size=size)
    if got[1] != want:
        raise Violation(
            "boundaries",
            f"{where}: datagram #{i} of {size} bytes was delivered as a packet of {len(got[1])} bytes (truncated or merged)",
            where=where,
            size=size,
            delivered=len(got[1]),
        )


def run_large(case: dict) -> Outcome:
    carrier = case["carrier"]
    inbound = [(s, bool(b)) for s, b in case["inbound"]]
    proto = _transparent_protocol()
    classes = [f"carrier-{carrier}"]
    if any(s > UDP4_MAX for s, _ in inbound):
        classes.append("above-ipv4-max")
    if carrier.startswith("fake"):
        import math

        from easynetwork.lowlevel.api_sync.transports.socket import SocketDatagramTransport

        from ..syncworld import World, make_selector_factory, virtual_clock
        from .c11 import PeeredFakeSocket, _patched_default_selector

        world = World()
        sock = PeeredFakeSocket(world, socket.SOCK_DGRAM)
        for i, (s, bad) in enumerate(inbound):
            sock.env_arrive_dgram(_large_payload(i, s, bad))
        factory = make_selector_factory(world, sock)
        with virtual_clock(world):
            if carrier == "fake-transport":
                obj: Any = DatagramEndpoint(SocketDatagramTransport(sock, math.inf, selector_factory=factory), proto)
            else:
                with _patched_default_selector(factory):
                    obj = UDPNetworkClient(sock, proto)
            try:
                for i, (s, bad) in enumerate(inbound):
                    _check_large_recv(i, s, bad, _capture(obj.recv_packet, timeout=0), carrier)
                for j, s in enumerate(case["sends"]):
                    before = len(sock.tx_dgrams)
                    data = _large_payload(100 + j, s, False)
                    obj.send_packet(data, timeout=0)
                    if sock.tx_dgrams[before:] != [data]:
                        raise Violation("one-datagram-per-send", f"{carrier}: send_packet of {s} bytes produced {[len(d) for d in sock.tx_dgrams[before:]]}")
            finally:
                obj.close()
        return Outcome(nontrivial=any(s > UDP4_MAX and not bad for s, bad in inbound), classes=tuple(classes))

    # real IPv6 loopback
    try:
        peer = socket.socket(socket.AF_INET6, socket.SOCK_DGRAM)
        csock = socket.socket(socket.AF_INET6, socket.SOCK_DGRAM)
        try:
            for sk in (peer, csock):
                sk.setsockopt(socket.SOL_SOCKET, socket.SO_RCVBUF, 1 << 20)
                sk.setsockopt(socket.SOL_SOCKET, socket.SO_SNDBUF, 1 << 20)
            peer.bind(("::1", 0))
            csock.bind(("::1", 0))
            csock.connect(peer.getsockname()[:2])
            peer.connect(csock.getsockname()[:2])
        except BaseException:
            peer.close()
            csock.close()
            raise
    except OSError as exc:
        raise Inconclusive(f"no IPv6 loopback UDP in this sandbox: {exc}") from exc

    def push_inbound() -> None:
        for i, (s, bad) in enumerate(inbound):
            try:
                peer.send(_large_payload(i, s, bad))
            except OSError as exc:
                raise Inconclusive(f"kernel refused a {s}-byte datagram on ::1: {exc}") from exc

    if carrier == "udp6-sync":
        with peer:
            client = UDPNetworkClient(csock, proto)
            with client:
                peer.settimeout(UDP_WAIT_S)
                push_inbound()
                for i, (s, bad) in enumerate(inbound):
                    try:
                        got = _capture(client.recv_packet, timeout=UDP_WAIT_S)
                    except TimeoutError:
                        raise Inconclusive(f"datagram #{i} did not arrive within {UDP_WAIT_S}s") from None
                    _check_large_recv(i, s, bad, got, carrier)
                for j, s in enumerate(case["sends"]):
                    data = _large_payload(100 + j, s, False)
                    client.send_packet(data)
                    try:
                        seen = peer.recv(1 << 17)
                    except (TimeoutError, socket.timeout):
                        raise Inconclusive(f"sent datagram #{j} did not reach the peer within {UDP_WAIT_S}s") from None
                    if seen != data:
                        raise Violation("one-datagram-per-send", f"{carrier}: send_packet of {s} bytes reached the peer as {len(seen)} bytes")
    else:

        async def main() -> None:
            loop = asyncio.get_running_loop()
            peer.setblocking(False)
            client = AsyncUDPNetworkClient(csock, proto, AsyncIOBackend())
            async with client:
                await client.wait_connected()
                push_inbound()
                for i, (s, bad) in enumerate(inbound):
                    try:
                        pkt = await asyncio.wait_for(client.recv_packet(), UDP_WAIT_S)
                    except DatagramProtocolParseError as exc:
                        got: tuple = ("err", type(exc.error).__name__)
                    except TimeoutError:
                        raise Inconclusive(f"datagram #{i} did not arrive within {UDP_WAIT_S}s") from None
                    else:
                        got = ("pkt", pkt)
                    _check_large_recv(i, s, bad, got, carrier)
                for j, s in enumerate(case["sends"]):
                    data = _large_payload(100 + j, s, False)
                    await client.send_packet(data)
                    try:
                        seen = await asyncio.wait_for(loop.sock_recv(peer, 1 << 17), UDP_WAIT_S)
                    except TimeoutError:
                        raise Inconclusive(f"sent datagram #{j} did not reach the peer within {UDP_WAIT_S}s") from None
                    if seen != data:
                        raise Violation("one-datagram-per-send", f"{carrier}: send_packet of {s} bytes reached the peer as {len(seen)} bytes")

        with peer:
            try:
                asyncio.run(main())
            finally:
                if csock.fileno() != -1:
                    csock.close()
    return Outcome(nontrivial=any(s > UDP4_MAX and not bad for s, bad in inbound), classes=tuple(classes))

# ----------------------------------------------------------------------------------------------

# ----------------------------------------------------------------------------------------------
# layer "asyncio-endpoint": the real asyncio datagram endpoint (DatagramEndpointProtocol + DatagramEndpoint + adapter +
# AsyncDatagramEndpoint) over a fake selector datagram transport: datagrams and non-fatal socket errors (ICMP port
# unreachable -> error_received) arrive at generated loop ticks while a reader loops on recv_packet().  A socket error
# between two datagrams must not make either of them disappear.


@st.composite
def st_asyncio_endpoint_case(draw: st.DrawFn, tier: str) -> dict:
    n = draw(st.integers(1, 8))
    events = []
    k = 0
    for _ in range(n):
        kind = draw(st.sampled_from(["dgram", "dgram", "dgram", "bad", "error"]))
        if kind == "dgram":
            events.append(("dgram", f"p{k}-" + "x" * draw(st.integers(0, 5))))
            k += 1
        elif kind == "bad":
            events.append(("bad", b"\xff\xfe-not-utf8"))
        else:
            events.append(("error", draw(st.sampled_from([111, 113, 101]))))  # ECONNREFUSED EHOSTUNREACH ENETUNREACH
    return {
        "events": events,
        "ticks": [draw(st.integers(0, 3)) for _ in events],  # loop iterations before each event (0 = same iteration as the previous one)
        "reader_start": draw(st.integers(0, 6)),
        "reader_gap": draw(st.lists(st.integers(0, 2), min_size=1, max_size=3)),
    }


async def _asyncio_endpoint_session(case: dict) -> dict:
    from easynetwork.lowlevel.api_async.backend._asyncio.datagram.endpoint import DatagramEndpoint as AioDatagramEndpoint, DatagramEndpointProtocol
    from easynetwork.lowlevel.api_async.backend._asyncio.datagram.socket import AsyncioTransportDatagramSocketAdapter
    from easynetwork.protocol import DatagramProtocol
    from easynetwork.serializers.line import StringLineSerializer

    from ..fakeasyncio import FakeAsyncioDatagramTransport

    loop = asyncio.get_running_loop()
    backend = AsyncIOBackend()
    recv_queue: asyncio.Queue = asyncio.Queue()
    exception_queue: asyncio.Queue = asyncio.Queue()
    protocol = DatagramEndpointProtocol(loop=loop, recv_queue=recv_queue, exception_queue=exception_queue)
    tr = FakeAsyncioDatagramTransport(loop, protocol, address=("127.0.0.1", 9999), kernel_slots=None)
    endpoint = AioDatagramEndpoint(tr, protocol, recv_queue=recv_queue, exception_queue=exception_queue)
    adapter = AsyncioTransportDatagramSocketAdapter(backend, endpoint)
    sut = AsyncDatagramEndpoint(adapter, DatagramProtocol(StringLineSerializer(encoding="utf-8")))
    outputs: list[tuple] = []
    expected_n = len(case["events"])

    async def reader() -> None:
        for _ in range(case["reader_start"]):
            await asyncio.sleep(0)
        gaps = case["reader_gap"]
        i = 0
        while len(outputs) < expected_n:
            try:
                pkt = await sut.recv_packet()
            except DatagramProtocolParseError:
                outputs.append(("parse-error",))
            except OSError as exc:
                outputs.append(("oserror", exc.errno))
            else:
                outputs.append(("pkt", pkt))
            for _ in range(gaps[i % len(gaps)]):
                await asyncio.sleep(0)
            i += 1

    rt = asyncio.create_task(reader())
    for (kind, value), ticks in zip(case["events"], case["ticks"]):
        for _ in range(ticks):
            await asyncio.sleep(0)
        if kind == "dgram":
            tr.feed(value.encode("utf-8"))
        elif kind == "bad":
            tr.feed(bytes(value))
        else:
            tr.feed_error(OSError(int(value), "scripted ICMP error"))
    for _ in range(60):
        if rt.done():
            break
        await asyncio.sleep(0)
    stuck = not rt.done()
    if stuck:
        rt.cancel()
    res = await asyncio.gather(rt, return_exceptions=True)
    await sut.aclose()
    crash = res[0] if isinstance(res[0], BaseException) and not isinstance(res[0], asyncio.CancelledError) else None
    return {"outputs": outputs, "stuck": stuck, "crash": crash}


def run_asyncio_endpoint(case: dict) -> Outcome:
    from ..vloop import Deadlock, run_virtual

    try:
        r = run_virtual(_asyncio_endpoint_session, case)
    except Deadlock as exc:
        raise Violation("stuck", f"asyncio datagram endpoint: {exc}", where="asyncio-endpoint") from exc
    if r["crash"] is not None:
        raise Violation(
            "escaped-exception", f"recv_packet() raised {type(r['crash']).__name__}: {r['crash']} (outputs so far: {r['outputs']})", where="asyncio-endpoint"
        )
    expected = [("pkt", v) if k == "dgram" else (("parse-error",) if k == "bad" else ("oserror", int(v))) for k, v in case["events"]]
    got_data = [o for o in r["outputs"] if o[0] != "oserror"]
    exp_data = [e for e in expected if e[0] != "oserror"]
    if got_data != exp_data[: len(got_data)] or (len(got_data) < len(exp_data)):
        raise Violation(
            "datagram-lost-or-altered",
            f"asyncio datagram endpoint delivered {got_data} for the received datagrams {exp_data} (socket errors in between: "
            f"{[e for e in expected if e[0] == 'oserror']}; all outputs {r['outputs']})",
            where="asyncio-endpoint",
        )
    errors = sum(1 for k, _ in case["events"] if k == "error")
    mixed = errors > 0 and len(exp_data) >= 2
    return Outcome(nontrivial=mixed, classes=("asyncio-endpoint", f"errors-{min(errors, 3)}", "stuck-reader" if r["stuck"] else "reader-done"))


CHECK = Check(
    id="C05",
    level="exploration",
    rule=(
        "case = one-shot serializer spec (every zoo entry incl. Pickle through a restricted unpickler, the default one-shot path of "
        "serializers/abc.py through a harness length-prefixed serializer, the three stapled shapes, wrappers, converter on/off) x "
        "1-12 inbound datagrams each valid / truncated / extended / two glued / random / converter-refused / (Pickle) well-formed opcode program that fails on execution x 0-6 packets to send x "
        "interleaving x permutation (x scripted TimeoutError faults, task checkpoints); layers: DatagramProtocol alone, DatagramEndpoint "
        "over a scripted transport, AsyncDatagramEndpoint over an in-memory transport on the asyncio backend, UDP clients on loopback; "
        "layer large: 1-5 datagrams of 1..65527 bytes (at least one above 65000) through the blocking transport/client over a simulated "
        "socket that truncates to the recv buffer and through both clients over real IPv6 loopback, non-trivial = a valid datagram above "
        "the IPv4 maximum of 65507 bytes; "
        "non-trivial = a datagram that yields a parse error is directly followed by a valid one; distinct = sha1 of the canonical case JSON"
    ),
    layers=[
        Layer("protocol", _strategy("protocol"), run_protocol, {"quick": 500, "thorough": 4000}),
        Layer("endpoint-sync", _strategy("endpoint-sync"), run_endpoint_sync, {"quick": 300, "thorough": 2500}),
        Layer("endpoint-async", _strategy("endpoint-async"), run_endpoint_async, {"quick": 200, "thorough": 1500}),
        Layer("asyncio-endpoint", st_asyncio_endpoint_case, run_asyncio_endpoint, {"quick": 400, "thorough": 3000}),
        Layer("udp", _strategy("udp"), run_udp, {"quick": 60, "thorough": 200}),
        Layer("large", st_large_case, run_large, {"quick": 60, "thorough": 300}),
    ],
    assumptions=[
        "valid packets respect the documented preconditions of each serializer (see C01); NaN excluded because equality is the oracle",
        "truncated / extended / glued datagrams must be rejected only where the one-shot path documents it (struct and fixed-size, "
        "FileBased, default abc.deserialize, Pickle, compressors); for line/JSON/base64/identity serializers the only demand is that the "
        "result equals the result of that datagram alone",
        "Pickle only ever sees generated bytes through a restricted unpickler (find_class refused); malformed datagrams whose PUT/LONG_BINPUT "
        "memo index exceeds 100000 are replaced (CPython's C unpickler would allocate 16*index bytes: stdlib resource bomb, out of the domain); "
        "Pickle nested in base64/compressor wrappers runs on the pure-Python restricted unpickler for the same reason",
        "loopback UDP layer: a datagram that does not arrive within 2 s is recorded as inconclusive, never as a violation; all other "
        "layers use in-memory transports and no clock",
        "cbor/msgpack serializers and the trio backend cannot be imported offline",
    ],
)

# thorough tier: the same strategy and oracle driven by the coverage-guided engine (pbt/covfuzz.py)
from ..covfuzz import cov_layer  # noqa: E402

CHECK.layers.append(cov_layer("C05", CHECK.layer("protocol"), runs=8000, time_s=100))
