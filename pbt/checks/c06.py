"""C06 — malformed network input only ever surfaces as a parse error (DESIGN.md section 3, C06).

Totality (only the mode's parse error may escape), progress (every reported error consumes at least one byte; a
skip-errors loop yields at most len(input)+1 outputs) and no-hang (runner watchdog, hang_is_violation) for every zoo
entry in one-shot, incremental (copying consumer) and buffered (buffer-filling consumer) mode.
"""

from __future__ import annotations

import json
import os
import shutil
import subprocess
import sys
import tempfile
from typing import Any

from hypothesis import strategies as st

from easynetwork.exceptions import DatagramProtocolParseError, DeserializeError

from .. import dgram, drivers, mutate, zoo
from .. import core
from ..core import Check, HarnessError, Inconclusive, Layer, Outcome, Violation

# Confirmed defects, excluded by construction so that the search continues past them (brief rule 2).  With a flag on,
# the generator keeps JSON documents below the failing shape and counts the cases it had to shrink ("capped-…").
EXCLUDE_D3 = False  # JSONSerializer: RecursionError escapes for nesting deeper than the C recursion limit (~1497)
EXCLUDE_D3B = False  # JSONSerializer: ValueError escapes for an integer literal longer than sys.get_int_max_str_digits()
D3_SAFE_DEPTH = 400
D3B_SAFE_DIGITS = 4000

SMALL_BUDGET = 700
QUICK_BIG_BUDGET = 12 * 1024
THOROUGH_BIG_BUDGET = zoo.DEFAULT_LIMIT + 4096


# ----------------------------------------------------------------------------------------------
# generator


def _has_json(spec: dict) -> bool:
    return "json" in mutate.leaf_kinds(spec)


def _apply_exclusions(spec: dict, parts: list) -> tuple[list, list[str]]:
    capped: list[str] = []
    if mutate.scans_as_pickle(spec) and mutate.pickle_put_index_max(mutate.materialize(parts)) > mutate.PICKLE_MEMO_INDEX_MAX:
        # stdlib resource bomb (memo array of the C unpickler), out of the domain: see mutate.pickle_put_index_max
        return [[b"N.", 1]], ["pickle-memo-index"]
    if not _has_json(spec) or not (EXCLUDE_D3 or EXCLUDE_D3B):
        return parts, capped

    def bad(p: list) -> list[str]:
        doc = mutate.materialize(p)
        out = []
        if EXCLUDE_D3 and mutate.naive_depth(doc) > D3_SAFE_DEPTH:
            out.append("D3")
        if EXCLUDE_D3B and mutate.max_digit_run(doc) > D3B_SAFE_DIGITS:
            out.append("D3B")
        return out

    guard = 0
    while why := bad(parts):
        for w in why:
            if w not in capped:
                capped.append(w)
        if all(c <= 1 for _, c in parts) or guard > 40:
            parts = [[b"[]", 1]]
            break
        parts = mutate.scale_parts(parts, 1, 2)
        guard += 1
    return parts, capped


@st.composite
def _st_biased_spec(draw: st.DrawFn, base: st.SearchStrategy[dict]) -> dict:
    """the zoo, with the JSON family (the only hand-written parser + a stdlib decoder with structural limits) in ~40 % of the cases"""
    w = draw(st.integers(0, 9))
    if w >= 4:
        return draw(base)
    spec: dict = draw(zoo.st_leaf_spec(kinds=["json"]))
    if draw(st.integers(0, 2)) == 0:
        spec = zoo.with_debug(spec)  # debug=True fills error_info from the decoder's exception: another code path per error type
    if w == 3:
        outer = draw(st.sampled_from(["base64", "zlib", "bz2", "stapled"]))
        if outer == "base64":
            spec = {
                "kind": "base64",
                "inner": spec,
                "alphabet": draw(st.sampled_from(["standard", "urlsafe"])),
                "checksum": draw(st.sampled_from(["none", "sha", "key"])),
                "separator": draw(st.sampled_from(zoo.B64_SEPARATORS)),
            }
        elif outer == "stapled":
            spec = {"kind": "stapled", "sent": spec, "recv": spec}
        else:
            spec = {"kind": outer, "inner": spec, "level": draw(st.sampled_from([None, 1, 9]))}
    if draw(st.integers(0, 4)) == 0:
        spec = dict(spec, conv=True)
    return spec


def _sizes_near(budget_units: int) -> st.SearchStrategy[int]:
    """sizes that matter: small, around the interpreter's structural limits, up to the budget"""
    marks = [1, 2, 50, 300, 1400, 1497, 1498, 1600, 3000, 4300, 4301, 5000, 9000, 20000, 33000, 65000]
    cands = [m for m in marks if m <= budget_units] or [1]
    return st.one_of(st.sampled_from(cands), st.sampled_from(cands), st.integers(1, max(1, budget_units)), st.just(max(1, budget_units)))


@st.composite
def _st_payload(draw: st.DrawFn, spec: dict, budget: int, *, stream: bool) -> dict:
    """the part of a case that defines the input bytes: pre + [wrap](parts) + post"""
    entry = zoo.build(spec)
    inner = mutate.inner_spec(spec)
    sources = ["random", "mutated", "mutated", "extreme", "extreme"]
    if inner is not None:
        sources += ["mutated-inner", "extreme-inner"]
    if _has_json(spec) and (inner is None or inner["kind"] == "json"):
        sources += ["template", "template", "template"]
    marked = dgram.marked_packet(spec) if spec.get("conv") else None
    if marked is not None:
        sources += ["marked"]
    src = draw(st.sampled_from(sources))
    pre = post = b""
    wrap = False
    sep = mutate.separator_of(spec)

    def valid_bytes(n_max: int) -> bytes:
        pk = draw(st.lists(zoo.st_packet(spec), min_size=1, max_size=n_max))
        if stream:
            return b"".join(b"".join(entry.frame(p)) for p in pk)
        return entry.serializer.serialize(entry.to_dto(pk[0]))

    if src == "random":
        parts = [[draw(mutate.st_random_bytes(spec, budget)), 1]]
    elif src == "marked":
        # a well-formed frame whose packet the converter refuses (PacketConversionError path of the protocol)
        good = b"".join(entry.frame(marked)) if stream else entry.serializer.serialize(entry.to_dto(marked))
        parts = [[good, draw(st.integers(1, 3)) if stream else 1]]
    elif src == "mutated":
        base = valid_bytes(4)
        parts = [[mutate.apply_ops(base, draw(mutate.st_mutation_ops(spec)), sep), 1]]
    elif src == "mutated-inner":
        assert inner is not None
        ientry = zoo.build(inner)
        ip = draw(zoo.st_packet(inner))
        ibytes = ientry.serializer.serialize(ientry.to_dto(ip))
        parts = [[mutate.apply_ops(ibytes, draw(mutate.st_mutation_ops(inner)), mutate.separator_of(inner)), 1]]
        wrap = True
    elif src == "extreme":
        parts = draw(mutate.st_extreme_parts(spec, budget))
    elif src == "extreme-inner":
        assert inner is not None
        parts = draw(mutate.st_extreme_parts(inner, (budget * 2) // 3))
        wrap = True
    else:  # template
        wrap = inner is not None
        b = (budget * 2) // 3 if wrap else budget
        templates = mutate.json_templates(1)
        # deep nesting and long integer literals (templates 0-6) are the shapes of the repaired defects D3/D3B: keep them frequent
        idx = draw(st.one_of(st.sampled_from([0, 1, 3, 4, 5, 6]), st.integers(0, len(templates) - 1)))
        unit_bytes = sum(len(u) for u, c in mutate.json_templates(2)[idx] if c == 2)  # bytes added per unit of n
        n = draw(_sizes_near(max(1, b // max(1, unit_bytes))))
        parts = mutate.json_templates(n)[idx]
    if stream and src != "random" and draw(st.integers(0, 2)) == 0:
        pre = valid_bytes(2)
    if stream and draw(st.integers(0, 1)) == 0:
        post = valid_bytes(2)
    parts, capped = _apply_exclusions(spec, parts)
    out: dict[str, Any] = {"src": src, "pre": pre, "parts": parts, "wrap": wrap, "post": post}
    if capped:
        out["capped"] = capped
    return out


def build_input(case: dict, *, stream: bool) -> bytes:
    body = mutate.materialize(case["parts"])
    if case["wrap"]:
        body = mutate.wrap_bytes(case["spec"], body, stream=stream)
    return case["pre"] + body + case["post"]


def _st_cuts_for(n: int) -> st.SearchStrategy[list[int]]:
    if n <= 4096:
        return drivers.st_cuts(n)
    # byte-by-byte is limited to inputs <= 4 KiB (some parsers copy their buffer on every chunk); larger inputs
    # use chunks >= 256 bytes or a handful of arbitrary cuts
    return st.one_of(
        st.just([]),
        st.integers(256, 8192).map(lambda k: list(range(k, n, k))),
        st.lists(st.integers(1, n - 1), max_size=12, unique=True).map(sorted),
    )


def _st_fills_for(n: int) -> st.SearchStrategy[list[int]]:
    if n <= 4096:
        return drivers.st_fills()
    return st.one_of(st.just([1 << 20]), st.lists(st.sampled_from([256, 257, 1000, 4096, 70000]), min_size=1, max_size=4))


@st.composite
def st_stream_case(draw: st.DrawFn, tier: str) -> dict:
    spec = mutate.pickle_policy(draw(_st_biased_spec(zoo.st_stream_spec())))
    budget = SMALL_BUDGET
    if zoo.has_limit(spec):
        which = draw(st.integers(0, 5))
        if which <= 2:
            # limit >= 4 > len(separator): a limit smaller than the separator itself is a degenerate configuration
            # (the buffered reader then has no room to even see the separator) and is not part of the domain
            limit = draw(st.one_of(st.integers(4, 40), st.integers(8, 300)))
            budget = limit + draw(st.sampled_from([8, 64, 400]))
        elif which == 3:
            limit = draw(st.sampled_from([1000, 4096, 10000, 20000]))
            budget = min(limit + 4096, THOROUGH_BIG_BUDGET if tier == "thorough" else QUICK_BIG_BUDGET)
        else:
            limit = zoo.DEFAULT_LIMIT
            budget = THOROUGH_BIG_BUDGET if tier == "thorough" else QUICK_BIG_BUDGET
        spec = zoo.with_limit(spec, limit)
    elif draw(st.integers(0, 3)) == 0:
        budget = THOROUGH_BIG_BUDGET if tier == "thorough" else QUICK_BIG_BUDGET
    case = {"spec": spec, **draw(_st_payload(spec, budget, stream=True))}
    n = len(build_input(case, stream=True))
    case["cuts"] = draw(_st_cuts_for(n))
    case["fills"] = draw(_st_fills_for(n))
    case["sizehint"] = draw(drivers.st_sizehint())
    return case


@st.composite
def st_oneshot_case(draw: st.DrawFn, tier: str) -> dict:
    spec = mutate.pickle_policy(draw(_st_biased_spec(dgram.st_datagram_spec())))
    budget = draw(st.sampled_from([SMALL_BUDGET, SMALL_BUDGET, THOROUGH_BIG_BUDGET if tier == "thorough" else QUICK_BIG_BUDGET]))
    return {"spec": spec, **draw(_st_payload(spec, budget, stream=False))}


# ----------------------------------------------------------------------------------------------
# oracles


def _base_classes(case: dict, data: bytes) -> list[str]:
    spec = case["spec"]
    classes = [f"kind-{spec['kind']}", f"src-{case['src']}"]
    for k in sorted(mutate.leaf_kinds(spec) - {spec["kind"]}):
        classes.append(f"inner-{k}")
    if spec.get("conv"):
        classes.append("converter")
    for c in case.get("capped", ()):
        classes.append(f"excluded-{c}-capped")
    if _has_json(spec):
        # regression classes of the repaired defects D3 / D3B: documents beyond the interpreter's structural limits
        doc = mutate.materialize(case["parts"])
        if mutate.naive_depth(doc) > 1500:
            classes.append("json-nesting>1500")
        if mutate.max_digit_run(doc) > 4300:
            classes.append("json-digit-run>4300")
    if len(data) > 4096:
        classes.append("input>4KiB")
    if len(data) > 32768:
        classes.append("input>32KiB")
    return classes


def run_oneshot(case: dict) -> Outcome:
    spec = case["spec"]
    data = build_input(case, stream=False)
    info = {"serializer": spec["kind"], "leafs": sorted(mutate.leaf_kinds(spec)), "input_len": len(data)}
    entry = zoo.build(spec)
    classes = _base_classes(case, data)
    if mutate.scans_as_pickle(spec) and mutate.pickle_put_index_max(data) > mutate.PICKLE_MEMO_INDEX_MAX:
        # never hand a memo-array bomb to the C unpickler, whatever produced this case (see mutate.pickle_put_index_max)
        return Outcome(nontrivial=False, classes=tuple(classes + ["excluded-pickle-memo-index-not-run"]))
    rejected = False
    try:
        pkt = entry.serializer.deserialize(data)
    except DeserializeError as exc:
        rejected = True
        classes.append(f"err-{type(exc).__name__}")
        first: tuple = ("err",)
    except Violation:
        raise
    except BaseException as exc:  # noqa: BLE001
        raise mutate.escaped(exc, "one-shot", info) from exc
    else:
        first = ("pkt", pkt)
    proto = zoo.build(spec).datagram_protocol()
    try:
        pkt2 = proto.build_packet_from_datagram(data)
    except DatagramProtocolParseError as exc:
        rejected = True
        if type(exc) is not DatagramProtocolParseError:
            raise Violation("error-type", f"one-shot: {type(exc).__name__}", **info) from exc
        classes.append(f"dgram-err-{type(exc.error).__name__}")
        if first[0] == "pkt" and isinstance(exc.error, DeserializeError):
            raise Violation("nondeterministic", "deserialize() accepted what build_packet_from_datagram() rejected", **info) from exc
    except Violation:
        raise
    except BaseException as exc:  # noqa: BLE001
        raise mutate.escaped(exc, "datagram", info) from exc
    else:
        if first[0] == "err":
            raise Violation("nondeterministic", "deserialize() rejected what build_packet_from_datagram() accepted", **info)
        del pkt2
        classes.append("accepted")
    return Outcome(nontrivial=rejected and len(data) > 0, classes=tuple(classes))


def run_stream(case: dict) -> Outcome:
    spec = case["spec"]
    data = build_input(case, stream=True)
    info = {"serializer": spec["kind"], "leafs": sorted(mutate.leaf_kinds(spec)), "input_len": len(data), "limit": zoo.build(spec).limit}
    classes = _base_classes(case, data)
    lim = info["limit"]
    if lim is not None:
        classes.append("limit-default" if lim == zoo.DEFAULT_LIMIT else ("limit<=40" if lim <= 40 else "limit-mid"))
    all_outputs: list[tuple] = []

    runs: list[tuple[str, list[tuple]]] = []
    chunks = drivers.split_at(data, case["cuts"])
    runs.append(("A", mutate.drive_a(zoo.build(spec).stream_protocol(), chunks, info)))
    if len(chunks) > 1:
        runs.append(("A-whole", mutate.drive_a(zoo.build(spec).stream_protocol(), [data] if data else [], info)))
    entry = zoo.build(spec)
    if entry.buffered:
        classes.append("mode-buffered")
        runs.append(("B", mutate.drive_b(entry.buffered_protocol(), data, case["fills"], case["sizehint"], info)))
    for _, outs in runs:
        all_outputs.extend(outs)
    errs = sorted({o[1] for o in all_outputs if o[0] == "err"})
    for e in errs:
        classes.append(f"err-{e}")
    for tag in sorted({o[3] for o in all_outputs if o[0] == "err"}):
        classes.append(f"why-{tag}")
    a = runs[0][1]
    if any(a[i][0] == "err" and a[i + 1][0] == "pkt" for i in range(len(a) - 1)):
        classes.append("packet-after-error")
    if sum(1 for o in a if o[0] == "err") >= 2:
        classes.append("multiple-errors")
    if any(o[0] == "pkt" for o in a):
        classes.append("some-packet")
    if len(chunks) > 1:
        classes.append("chunked")
    return Outcome(nontrivial=bool(errs) and len(data) > 0, classes=tuple(classes))


# ----------------------------------------------------------------------------------------------
# secondary engine (thorough tier only): atheris / libFuzzer, one subprocess per (serializer target, corpus kind)

_JSON_RAW = {"kind": "json", "use_lines": False, "ensure_ascii": True, "encoding": "utf-8", "limit": zoo.DEFAULT_LIMIT}
_LINE = {"kind": "line", "newline": "LF", "encoding": "utf-8", "keep_end": True, "limit": 256}
ATHERIS_TARGETS: list[dict] = [
    _JSON_RAW,
    {"kind": "json", "use_lines": True, "ensure_ascii": True, "encoding": "ascii", "limit": 512},
    dict(_JSON_RAW, conv=True, limit=300),
    _LINE,
    {"kind": "line", "newline": "CRLF", "encoding": "ascii", "keep_end": False, "limit": 64},
    {"kind": "autosep", "separator": b"aba", "check": True, "limit": 32},
    {"kind": "base64", "inner": dict(_JSON_RAW), "alphabet": "urlsafe", "checksum": "sha", "separator": b"\r\n", "limit": 2048},
    {"kind": "base64", "inner": dict(_LINE), "alphabet": "standard", "checksum": "none", "separator": b"\t\n ", "limit": 128},
    {"kind": "zlib", "inner": dict(_JSON_RAW), "level": None},
    {"kind": "bz2", "inner": dict(_LINE), "level": 1},
    {"kind": "namedtuple", "endian": "!", "fields": ["3s", "H", "5s"]},
    {"kind": "hfile", "limit": 64},
    {"kind": "lenprefixed", "limit": 100},
    {"kind": "stapled", "sent": dict(_JSON_RAW), "recv": dict(_JSON_RAW)},
    {"kind": "pickle", "restricted": True},
    {"kind": "base64", "inner": {"kind": "pickle", "restricted": "py"}, "alphabet": "urlsafe", "checksum": "key", "separator": b"|", "limit": 4096},
]
ATHERIS_RUNS = 30000
ATHERIS_MAX_LEN = 4096
_fuzz_cache: dict[str, dict] = {}


def atheris_available() -> bool:
    try:
        import importlib.util

        return importlib.util.find_spec("atheris") is not None
    except Exception:  # noqa: BLE001
        return False


def _shard_index() -> int:
    """index of the thorough-tier worker (the runner passes --shard i/N to each worker process)"""
    argv = sys.argv
    if "--shard" in argv:
        try:
            return int(argv[argv.index("--shard") + 1].split("/")[0])
        except (ValueError, IndexError):
            return 0
    return 0


def st_atheris_case(tier: str) -> st.SearchStrategy[dict]:
    i = _shard_index() % len(ATHERIS_TARGETS)
    seed = int(os.environ.get("VERIF_SEED") or "1")
    return st.sampled_from([False, True]).map(
        lambda valid: {"target": i, "spec": ATHERIS_TARGETS[i], "valid_corpus": valid, "runs": ATHERIS_RUNS, "max_len": ATHERIS_MAX_LEN, "seed": seed}
    )


def _run_fuzzer(case: dict) -> dict:
    key = core.case_digest(case)
    if key in _fuzz_cache:
        return _fuzz_cache[key]
    out = tempfile.mkdtemp(prefix="c06-atheris-")
    try:
        cmd = [
            sys.executable, "-X", "faulthandler", "-m", "pbt.atheris_c06",
            "--spec", json.dumps(core.to_jsonable(case["spec"])),
            "--runs", str(case["runs"]), "--seed", str(case["seed"]), "--max-len", str(case["max_len"]), "--out", out,
        ]  # fmt: skip
        if case["valid_corpus"]:
            cmd.append("--valid-corpus")
        try:
            p = subprocess.run(cmd, cwd=core.VERIF_ROOT, capture_output=True, text=True, timeout=1500)
        except subprocess.TimeoutExpired:
            raise Inconclusive("atheris subprocess exceeded 1500 s") from None
        res: dict[str, Any] = {"rc": p.returncode, "stats": {}, "violation": None, "artifacts": [], "tail": (p.stdout + p.stderr)[-1500:]}
        sp = os.path.join(out, "stats.json")
        if os.path.exists(sp):
            with open(sp) as f:
                res["stats"] = json.load(f)
        for line in (p.stdout + p.stderr).splitlines():
            # the target's own counter is flushed every 2000 executions; libFuzzer's final statistics are exact
            if line.startswith("stat::number_of_executed_units:"):
                res["stats"]["execs"] = int(line.split(":")[-1])
        vp = os.path.join(out, "violation.json")
        if os.path.exists(vp):
            with open(vp) as f:
                res["violation"] = json.load(f)
        for name in sorted(os.listdir(out)):
            if name.startswith(("crash-", "timeout-", "oom-", "leak-")):
                with open(os.path.join(out, name), "rb") as f:
                    res["artifacts"].append((name, f.read()))
    finally:
        shutil.rmtree(out, ignore_errors=True)
    _fuzz_cache[key] = res
    return res


def _case_from_fuzz_input(spec: dict, data: bytes) -> dict:
    stride = data[0] if data else 0
    body = data[1:]
    n = len(body)
    return {
        "spec": spec, "src": "atheris", "pre": b"", "parts": [[body, 1]], "wrap": False, "post": b"",
        "cuts": list(range(stride, n, stride)) if stride else [], "fills": [stride or (1 << 20)], "sizehint": max(1, stride), "layer": "stream",
    }  # fmt: skip


def run_atheris(case: dict) -> Outcome:
    if not atheris_available():
        return Outcome(nontrivial=False, classes=("atheris-not-importable-skipped",))
    res = _run_fuzzer(case)
    spec = case["spec"]
    classes = [f"target-{case['target']}-{spec['kind']}", "corpus-valid" if case["valid_corpus"] else "corpus-empty"]
    stats = res["stats"]
    note = f"atheris execs={stats.get('execs')} rejected-outcomes={stats.get('rejected')} skipped-excluded={stats.get('skipped_excluded')} rc={res['rc']}"
    # translate a fuzzer finding into an ordinary violation of the direct layers, with its own replay file
    direct: list[tuple[str, dict]] = []
    if res["violation"] is not None:
        direct.append((res["violation"]["layer"], core.from_jsonable(res["violation"]["case"])))
    for name, data in res["artifacts"]:
        c = _case_from_fuzz_input(spec, data)
        direct.append(("stream" if zoo.build(spec).incremental else "oneshot", c))
        direct.append(("oneshot", dict(c, layer="oneshot")))
        if name.startswith("timeout-"):
            raise Violation("hang", f"libFuzzer reported a unit slower than 30 s: {name}, input {data[:64]!r}... ({len(data)} bytes)", fuzz_artifact=name)
    for layer, c in direct:
        c = dict(c, layer=layer)
        try:
            run_oneshot(c) if layer == "oneshot" else run_stream(c)
        except Violation as v:
            path = core.save_replay("C06", c, v)
            raise Violation(v.kind, f"{v.message} [found by atheris, direct replay: {path}]", **v.details) from v
    if direct or res["rc"] != 0:
        raise Inconclusive(f"atheris ended with rc={res['rc']} but nothing reproduces in-process: {res['tail'][-400:]}")
    if not stats.get("execs"):
        raise HarnessError(f"atheris produced no statistics: {res['tail'][-600:]}")
    if stats.get("skipped_excluded"):
        classes.append("excluded-inputs-skipped")
    return Outcome(nontrivial=bool(stats.get("rejected")), classes=tuple(classes), note=note)


# ----------------------------------------------------------------------------------------------

# ----------------------------------------------------------------------------------------------
# layer "pickle-reduce": structurally valid pickles whose *reconstruction* fails inside an (allow-listed, harmless)
# callable — decimal.Decimal("12,50"), fractions.Fraction(1, 0), complex("x"), datetime.date(2023, 13, 40), ... —
# must still surface as a parse error.  Only an allow-list unpickler is used: generated bytes never reach arbitrary globals.

_PICKLE_ALLOWED = {
    ("decimal", "Decimal"),
    ("fractions", "Fraction"),
    ("builtins", "complex"),
    ("builtins", "int"),
    ("builtins", "float"),
    ("builtins", "bytes"),
    ("builtins", "range"),
    ("datetime", "date"),
    ("datetime", "timedelta"),
    ("collections", "OrderedDict"),
    ("ipaddress", "IPv4Address"),
    ("uuid", "UUID"),
}


class _AllowListUnpickler:
    def __new__(cls, file, **kwargs):  # noqa: ANN001
        import importlib
        import pickle

        class _U(pickle.Unpickler):
            def find_class(self, module, name):  # noqa: ANN001
                if (module, name) not in _PICKLE_ALLOWED:
                    raise pickle.UnpicklingError(f"global {module}.{name} is forbidden")
                return getattr(importlib.import_module(module), name)

        return _U(file, **kwargs)


class _Reduce:
    def __init__(self, module: str, name: str, args: tuple) -> None:
        self.target = (module, name)
        self.args = args

    def __reduce__(self):  # type: ignore[no-untyped-def]
        import importlib

        return getattr(importlib.import_module(self.target[0]), self.target[1]), self.args


_REDUCE_ARGS = st.one_of(
    st.tuples(st.text(st.sampled_from("0123456789,.-+eE xXNaInf/"), max_size=8)),
    st.tuples(st.integers(-3, 3), st.integers(-3, 3)),
    st.tuples(st.integers(-(10**6), 10**6), st.integers(-40, 40), st.integers(-40, 40)),
    st.tuples(st.floats(allow_nan=True, allow_infinity=True)),
    st.tuples(st.binary(max_size=6)),
    st.just(()),
    st.tuples(st.none()),
)


@st.composite
def st_pickle_reduce_case(draw: st.DrawFn, tier: str) -> dict:
    module, name = draw(st.sampled_from(sorted(_PICKLE_ALLOWED)))
    return {
        "module": module,
        "name": name,
        "args": draw(_REDUCE_ARGS),
        "protocol": draw(st.sampled_from([0, 2, 4, 5])),
        "wrap": draw(st.sampled_from(["none", "none", "base64", "zlib"])),
        "mode": draw(st.sampled_from(["oneshot", "datagram", "stream"])),
    }


def run_pickle_reduce(case: dict) -> Outcome:
    import pickle

    from easynetwork.exceptions import DatagramProtocolParseError, DeserializeError, StreamProtocolParseError
    from easynetwork.lowlevel._stream import StreamDataConsumer
    from easynetwork.protocol import DatagramProtocol, StreamProtocol
    from easynetwork.serializers.pickle import PicklerConfig, PickleSerializer
    from easynetwork.serializers.wrapper.base64 import Base64EncoderSerializer
    from easynetwork.serializers.wrapper.compressor import ZlibCompressorSerializer

    payload = pickle.dumps(_Reduce(case["module"], case["name"], tuple(case["args"])), protocol=case["protocol"])
    ser: Any = PickleSerializer(PicklerConfig(protocol=case["protocol"]), unpickler_cls=_AllowListUnpickler)  # type: ignore[arg-type]
    data = payload
    if case["wrap"] == "base64":
        import base64

        ser = Base64EncoderSerializer(ser)
        data = base64.urlsafe_b64encode(payload)
    elif case["wrap"] == "zlib":
        import zlib

        ser = ZlibCompressorSerializer(ser)
        data = zlib.compress(payload)
    outcome = "packet"
    try:
        if case["mode"] == "oneshot":
            try:
                ser.deserialize(data)
            except DeserializeError:
                outcome = "parse-error"
        elif case["mode"] == "datagram":
            try:
                DatagramProtocol(ser).build_packet_from_datagram(data)
            except DatagramProtocolParseError:
                outcome = "parse-error"
        else:
            if case["wrap"] == "none":
                return Outcome(classes=("pickle-reduce", "stream-needs-wrapper"))
            consumer = StreamDataConsumer(StreamProtocol(ser))
            frame = data + (b"\r\n" if case["wrap"] == "base64" else b"")
            try:
                consumer.next(frame)
            except StreamProtocolParseError:
                outcome = "parse-error"
            except StopIteration:
                outcome = "incomplete"
    except Exception as exc:  # noqa: BLE001
        root = exc.__cause__ if isinstance(exc, RuntimeError) and exc.__cause__ is not None else exc
        raise Violation(
            "escaped-exception",
            f"pickle of {case['module']}.{case['name']}{tuple(case['args'])!r} ({case['mode']}, wrap={case['wrap']}): {type(root).__name__}: {root} escaped "
            f"(surfaced as {type(exc).__name__})",
            exc_type=type(root).__name__,
            leafs=["pickle"],
        ) from exc
    return Outcome(nontrivial=outcome == "parse-error", classes=("pickle-reduce", f"end-{outcome}", f"wrap-{case['wrap']}"))


CHECK = Check(
    id="C06",
    level="exploration",
    rule=(
        "case = serializer spec (every zoo entry; Pickle only behind a restricted unpickler and only one-shot) x input bytes from "
        "{random bytes incl. token soups, 1-4 mutations of a valid stream or of the wrapped inner document (truncate, bit flip, "
        "insert/delete/set byte, duplicated/missing separator, invalid UTF-8 splice, duplicated slice), run-length extreme input "
        "(1-5 runs of serializer tokens up to limit+4 KiB, named JSON templates: nesting, long numbers/strings/keys, escape and "
        "separator runs)} x limit in {1..300, 1000..20000, default 64 KiB} x mode {one-shot deserialize + DatagramProtocol, "
        "copying consumer under a generated partition and unsplit, buffer-filling consumer under generated fill sizes}; "
        "non-trivial = non-empty input on which at least one parse error was reported; distinct = sha1 of the canonical case JSON"
    ),
    layers=[
        Layer("oneshot", st_oneshot_case, run_oneshot, {"quick": 700, "thorough": 4000}, hang_is_violation=True, case_timeout_s=30),
        Layer("stream", st_stream_case, run_stream, {"quick": 1100, "thorough": 5000}, hang_is_violation=True, case_timeout_s=30),
        Layer("pickle-reduce", st_pickle_reduce_case, run_pickle_reduce, {"quick": 400, "thorough": 3000}),
        # one case = one bounded libFuzzer run in a subprocess (same oracle in-target); a fuzzer finding is re-run through the
        # direct layers and reported with a direct replay file.  Skipped (and recorded as a class) if atheris is not importable.
        Layer("atheris", st_atheris_case, run_atheris, {"quick": 0, "thorough": 2}, case_timeout_s=1700),
    ],
    assumptions=[
        "Pickle is fuzzed only through a restricted unpickler (find_class refused); generated bytes never reach an unrestricted one",
        "pickle-reduce layer: structurally valid pickles built by the harness (callable from a fixed allow-list of harmless stdlib constructors x generated arguments), loaded through an allow-list unpickler",
        "pickle inputs whose PUT/BINPUT/LONG_BINPUT memo index exceeds 100000 are excluded (class excluded-pickle-memo-index-capped): CPython's "
        "C unpickler resizes its memo array to 2*index entries (5 bytes of input -> up to 32 GiB), a resource bomb of the stdlib covered by the "
        "documented pickle security caveat; Pickle nested inside base64/compressor wrappers therefore runs on the pure-Python restricted unpickler",
        "harness serializers (AutoSeparated/FixedSize/FileBased/AbstractIncremental subclasses) raise only DeserializeError themselves, "
        "so anything else escaping comes from the library's base classes",
        "configured limit >= 4, i.e. larger than every separator used (1-3 bytes); limit < len(separator) is a degenerate configuration "
        "(buffered mode then fails with RuntimeError('The start position is set to the end of the buffer')) and is out of the domain",
        "byte-by-byte partitions are limited to inputs <= 4 KiB; larger inputs use chunks >= 256 bytes or <= 12 arbitrary cuts",
        "no-hang is the runner's 30 s wall-clock watchdog per case (inputs <= 68 KiB); every other criterion is clock-free",
        "decompression output is not bounded by the library (a compressed run of zeros expands freely); generated compressed extremes "
        "expand to at most a few MiB, memory exhaustion is outside this property",
        "cbor/msgpack serializers cannot be imported offline; FileBasedPacketSerializer is covered by a harness subclass",
        "thorough tier adds atheris (16 fixed serializer targets x {empty corpus, corpus of valid streams}, "
        f"{ATHERIS_RUNS} executions each, inputs <= {ATHERIS_MAX_LEN} bytes, first byte = chunk stride) when `import atheris` works"
        + ("" if atheris_available() else " - NOT importable in this run: Hypothesis only"),
        "Hypothesis is the deciding engine; an atheris run counts as one evaluation, its executions are reported in the sample note",
    ],
)
