"""C16 — datagram server: per-client FIFO, one active handler generator, nothing dropped (DESIGN.md section 3, C16).

A case is an *arrival script* (virtual-time gap, extra loop iterations inside the tick, client address, well-formed or
malformed payload — delivered through `MemDatagramListener.deliver`, i.e. `task_group.start_soon(handler, data, addr)`
in arrival order exactly like the asyncio listener) plus, per client address, a *handler script* (pure data):
generator scripts consumed in order of generator creation (suspension before the first yield, number of requests,
suspension after each request, exception after the j-th request), yielded timeouts, reactions to TimeoutError /
parse errors, responses.  One generic handler interprets the scripts and logs, per address, everything it observes
with virtual times.

Oracle: a per-address reference model (pure Python) replays that address's arrivals alone against its script and
predicts the per-address log.  Equality gives: requests/parse errors exactly once and in arrival order except the
datagrams documented as discarded (generator finished before its first yield — the model tracks them), every queued
datagram handled at quiescence, TimeoutError only when nothing arrived in time, and — because the model of one
address ignores every other address — progress of one client never waits on another client's suspended handler.
Separately: a gauge of active generators per address never exceeds 1, every started generator is finalised exactly
once, the serving task never dies (no "inconsistent state" RuntimeError).

Time discipline: arrivals and handler sleeps are integers (so "datagram arrives in the very tick the generator
finishes" is an ordinary, frequent value; the prediction does not depend on the order inside that tick); the j-th
yielded timeout of an address is `base + 2**-(j+1)`, so a deadline never coincides with an arrival.
"""

from __future__ import annotations

import asyncio
import logging
from typing import Any

from hypothesis import strategies as st

from easynetwork.exceptions import DatagramProtocolParseError
from easynetwork.lowlevel.api_async.servers.datagram import AsyncDatagramServer
from easynetwork.servers.async_udp import AsyncUDPNetworkServer
from easynetwork.servers.handlers import AsyncDatagramRequestHandler, INETClientAttribute

from .. import zoo
from ..core import Check, HarnessError, Layer, Outcome, Violation
from ..memtransports import MemDatagramListener, VerifBackend
from ..vloop import Deadlock, run_virtual

T_END = 100_000.0
MAX_TIMEOUTS = 10
SPEC = {"kind": "json", "use_lines": False, "ensure_ascii": True, "encoding": "utf-8"}
BAD_PAYLOAD = b"\xff\xfe{nope"


class ScriptedError(Exception):
    """raised by a handler script (high-level layer only)"""


def address_of(a: int) -> tuple[str, int]:
    return ("127.0.0.1", 9001 + a)


# ----------------------------------------------------------------------------------------------
# strategy

_SUSP = st.fixed_dictionaries(
    {
        "cp": st.sampled_from([0, 0, 1, 2, 3]),
        "sleep": st.sampled_from([0, 0, 0, 1, 1, 2, 3]),
        "cp2": st.sampled_from([0, 0, 1, 2]),
    }
)


@st.composite
def st_gen_script(draw: st.DrawFn, allow_raise: bool) -> dict:
    k = draw(st.sampled_from([0, 1, 1, 1, 2, 2, 3, 4]))
    raise_after = None
    raise_kind = "error"
    if k >= 1 and draw(st.integers(0, 4)) == 0:
        # "error": an Exception subclass (only where the server documents that it logs and goes on: the high-level server);
        # "cancelled": the handler ends with CancelledError without anyone having cancelled its task (e.g. it awaited a task
        # that somebody else cancelled): the client task just ends, queued datagrams must still be handled afterwards
        kinds = (["error", "error", "cancelled"] if allow_raise else ["cancelled"])
        raise_kind = draw(st.sampled_from(kinds))
        raise_after = draw(st.integers(1, k))
    return {
        "pre": draw(_SUSP),
        "k": k,
        "post": draw(st.lists(_SUSP, min_size=1, max_size=3)),
        "raise_after": raise_after,
        "raise_kind": raise_kind,
        "first_timeout": draw(st.sampled_from([None, None, 0.25, 0.0])),
    }


def _st_timeouts(draw: st.DrawFn) -> list:
    n = draw(st.integers(0, MAX_TIMEOUTS))
    out: list = []
    for j in range(n):
        if draw(st.integers(0, 9)) <= 3:
            out.append(None)
        else:
            out.append(draw(st.sampled_from([0, 0, 1, 1, 2, 3, 5])) + 2.0 ** -(j + 1))
    return out


@st.composite
def st_case(draw: st.DrawFn, tier: str, sut: str) -> dict:
    if sut == "highlevel":
        draw(st.integers(0, 7))  # de-correlate the two layers (the runner seeds them identically)
    naddr = draw(st.sampled_from([1, 2, 2, 3, 3]))
    n = draw(st.integers(1, 12))
    arrivals = []
    for _ in range(n):
        arrivals.append(
            {
                "gap": draw(st.sampled_from([0, 0, 0, 1, 1, 2, 3])),
                "iters": draw(st.sampled_from([0, 0, 0, 1, 2, 3])),
                "addr": draw(st.integers(0, naddr - 1)),
                "bad": draw(st.integers(0, 6)) == 0,
            }
        )
    clients = []
    for _ in range(naddr):
        clients.append(
            {
                "gens": draw(st.lists(st_gen_script(allow_raise=(sut == "highlevel")), min_size=1, max_size=3)),
                "timeouts": _st_timeouts(draw),
                "on_bad": draw(st.sampled_from(["continue", "reyield", "return"])),
                "on_timeout": draw(st.sampled_from(["continue", "reyield", "return"])),
                "respond": draw(st.lists(st.booleans(), min_size=1, max_size=3)),
            }
        )
    return {
        "sut": sut,
        "arrivals": arrivals,
        "clients": clients,
        "pre_serve": draw(st.integers(0, 5)) == 0,
        "send_yield": draw(st.lists(st.sampled_from([0, 0, 1, 2]), min_size=1, max_size=3)),
        # None: asyncio's own locks (a free lock is taken without yielding); else rounds per acquisition, cyclic
        "listener": draw(st.sampled_from(["mem", "mem", "asyncio"])) if sut == "lowlevel" else "mem",
        "checkpointing_locks": draw(st.one_of(st.none(), st.none(), st.lists(st.integers(0, 3), min_size=1, max_size=5))),
    }


# ----------------------------------------------------------------------------------------------
# timeline + reference model (per address)


def arrival_times(case: dict) -> list[int]:
    t = 0
    out = []
    for a in case["arrivals"]:
        t += int(a["gap"])
        out.append(t)
    return out


def _dur(s: dict) -> float:
    return float(s["sleep"])


class AddrModel:
    """Log entries: ("start", g, t) ("yield", g, t, timeout) ("req", g, t, seq) ("bad", g, t) ("timeout", g, t)
    ("raise", g, t) ("final", g, t)"""

    def __init__(self, arrivals: list[tuple[int, bool, int]], client: dict) -> None:
        self.arr = arrivals  # (time, bad, seq) of this address, in arrival order
        self.c = client
        self.log: list[tuple] = []
        self.sent: list[int] = []
        self.discarded: list[int] = []
        self.parked = False
        self.intervals: list[tuple[float, float]] = []  # [start, final] of every generator
        self.heads: list[int] = []  # index (within this address) of the datagram that each generator was started for
        self.arrival_while_active = False
        self.arrival_at_finish_tick = False

    def run(self) -> None:
        arr, c = self.arr, self.c
        p = 0
        t = 0.0
        g = 0
        yidx = 0
        nreq = 0
        while p < len(arr):
            t = max(t, float(arr[p][0]))
            sc = c["gens"][g % len(c["gens"])]
            gid = g
            g += 1
            start = t
            self.log.append(("start", gid, t))
            head = p
            self.heads.append(head)
            p += 1
            t += _dur(sc["pre"])
            got = 0
            first = True
            parked = False
            while got < sc["k"]:
                if first:
                    first = False
                    self.log.append(("yield", gid, t, sc["first_timeout"]))  # ignored by the server: the datagram is there
                    ev: tuple = ("bad",) if arr[head][1] else ("req", arr[head][2])
                else:
                    tau = c["timeouts"][yidx] if yidx < len(c["timeouts"]) else None
                    yidx += 1
                    self.log.append(("yield", gid, t, tau))
                    if p < len(arr):
                        cand_t = max(t, float(arr[p][0]))
                        if tau is None or cand_t < t + tau:
                            t = cand_t
                            ev = ("bad",) if arr[p][1] else ("req", arr[p][2])
                            p += 1
                        elif cand_t == t + tau:
                            raise HarnessError(f"tie between deadline and arrival at {cand_t!r}")
                        else:
                            t += tau
                            ev = ("timeout",)
                    elif tau is None:
                        parked = True
                        break
                    else:
                        t += tau
                        ev = ("timeout",)
                if ev[0] == "req":
                    self.log.append(("req", gid, t, ev[1]))
                    if c["respond"][nreq % len(c["respond"])]:
                        self.sent.append(ev[1])
                    t += _dur(sc["post"][nreq % len(sc["post"])])
                    nreq += 1
                    got += 1
                    if sc["raise_after"] == got:
                        self.log.append(("raise", gid, t))
                        break
                    continue
                if ev[0] == "bad":
                    self.log.append(("bad", gid, t))
                    reaction = c["on_bad"]
                else:
                    self.log.append(("timeout", gid, t))
                    reaction = c["on_timeout"]
                if reaction == "continue":
                    got += 1
                elif reaction == "return":
                    break
            if parked:
                self.parked = True
                self.intervals.append((start, float("inf")))
                break
            if first:
                self.discarded.append(arr[head][2])  # generator finished before its first yield (documented discard)
            self.log.append(("final", gid, t))
            self.intervals.append((start, t))
        # non-triviality: an arrival of this address lands while one of its generators is active / in its last tick
        for q, (ta, _bad, _seq) in enumerate(arr):
            for (s, f), head in zip(self.intervals, self.heads):
                if q == head:
                    continue
                if s <= ta < f:
                    self.arrival_while_active = True
                elif ta == f:
                    self.arrival_at_finish_tick = True


# ----------------------------------------------------------------------------------------------
# generic handler


class Script:
    """interprets the per-address scripts; shared by the low-level callback and the high-level request handler"""

    def __init__(self, case: dict) -> None:
        self.case = case
        n = len(case["clients"])
        self.logs: list[list[tuple]] = [[] for _ in range(n)]
        self.gcount = [0] * n
        self.yidx = [0] * n
        self.nreq = [0] * n
        self.active = [0] * n
        self.max_active = [0] * n

    @staticmethod
    def _now() -> float:
        return asyncio.get_running_loop().time()

    @staticmethod
    async def _suspend(s: dict) -> None:
        for _ in range(s["cp"]):
            await asyncio.sleep(0)
        if s["sleep"]:
            await asyncio.sleep(s["sleep"])
        for _ in range(s["cp2"]):
            await asyncio.sleep(0)

    async def gen(self, a: int, send: Any):  # noqa: ANN201
        c = self.case["clients"][a]
        log = self.logs[a]
        gid = self.gcount[a]
        self.gcount[a] += 1
        sc = c["gens"][gid % len(c["gens"])]
        self.active[a] += 1
        self.max_active[a] = max(self.max_active[a], self.active[a])
        log.append(("start", gid, self._now()))
        try:
            await self._suspend(sc["pre"])
            got = 0
            first = True
            while got < sc["k"]:
                if first:
                    first = False
                    timeout = sc["first_timeout"]
                else:
                    j = self.yidx[a]
                    self.yidx[a] += 1
                    timeout = c["timeouts"][j] if j < len(c["timeouts"]) else None
                log.append(("yield", gid, self._now(), timeout))
                try:
                    req = yield timeout
                except GeneratorExit:
                    log.append(("gen_exit", gid, self._now()))
                    raise
                except DatagramProtocolParseError:
                    log.append(("bad", gid, self._now()))
                    reaction = c["on_bad"]
                except TimeoutError:
                    log.append(("timeout", gid, self._now()))
                    reaction = c["on_timeout"]
                except BaseException as exc:
                    log.append(("exc", gid, self._now(), type(exc).__name__))
                    raise
                else:
                    log.append(("req", gid, self._now(), req))
                    n = self.nreq[a]
                    self.nreq[a] += 1
                    if c["respond"][n % len(c["respond"])]:
                        await send(req)
                    await self._suspend(sc["post"][n % len(sc["post"])])
                    got += 1
                    if sc["raise_after"] == got:
                        log.append(("raise", gid, self._now()))
                        if sc.get("raise_kind") == "cancelled":
                            raise asyncio.CancelledError("handler ended by a cancellation that was not aimed at its task")
                        raise ScriptedError(f"scripted failure after request {got}")
                    continue
                if reaction == "continue":
                    got += 1
                elif reaction == "return":
                    return
        finally:
            self.active[a] -= 1
            log.append(("final", gid, self._now()))


class ScriptHandler(AsyncDatagramRequestHandler[Any, Any]):
    def __init__(self, script: Script) -> None:
        self.script = script

    def handle(self, client: Any, /):  # noqa: ANN201
        port = client.extra(INETClientAttribute.remote_address).port
        return self.script.gen(port - 9001, client.send_packet)


# ----------------------------------------------------------------------------------------------
# driver


class _YieldPlan:
    """how many scheduler rounds the k-th lock/condition acquisition of a run takes before it even tries (cyclic)"""

    def __init__(self, yields: list[int]) -> None:
        self.yields = yields or [1]
        self.k = 0

    async def pause(self) -> None:
        n = self.yields[self.k % len(self.yields)]
        self.k += 1
        for _ in range(n):
            await asyncio.sleep(0)


class _CheckpointingCondition(asyncio.Condition):
    """asyncio.Condition with the rule of other backends (trio): acquiring is a checkpoint, after which the task is
    rescheduled in no particular order relative to the others - modelled as a generated number of scheduler rounds"""

    plan: _YieldPlan

    async def __aenter__(self) -> None:
        await self.plan.pause()
        await self.acquire()
        return None


class _CheckpointingLock(asyncio.Lock):
    plan: _YieldPlan

    async def __aenter__(self) -> None:
        await self.plan.pause()
        await self.acquire()
        return None


class _CheckpointingLocksBackend(VerifBackend):
    """the backend interface does not promise that taking a free lock/condition is atomic (on trio it is a checkpoint):
    the same server code must keep its ordering guarantees when an acquisition lets other tasks run first"""

    __slots__ = ("plan",)

    def __init__(self, yields: list[int]) -> None:
        super().__init__()
        self.plan = _YieldPlan(yields)

    def create_condition_var(self, lock: Any = None) -> Any:
        c = _CheckpointingCondition()
        c.plan = self.plan
        return c

    def create_lock(self) -> Any:
        lk = _CheckpointingLock()
        lk.plan = self.plan
        return lk


async def _drive(case: dict, script: Script) -> dict:
    loop = asyncio.get_running_loop()
    backend = _CheckpointingLocksBackend(case["checkpointing_locks"]) if case.get("checkpointing_locks") else VerifBackend()
    entry = zoo.build(SPEC)
    protocol = entry.datagram_protocol()
    times = arrival_times(case)
    arrivals = case["arrivals"]
    payloads = [BAD_PAYLOAD if a["bad"] else protocol.make_datagram([a["addr"], i]) for i, a in enumerate(arrivals)]
    lscript = {"send_yield": case["send_yield"]}
    res: dict[str, Any] = {}

    n_pre = 0
    if case["sut"] == "lowlevel":
        if case.get("listener") == "asyncio":
            # the real asyncio datagram listener (DatagramListenerProtocol + adapter) over the fake selector datagram transport
            from easynetwork.lowlevel.api_async.backend._asyncio.datagram.listener import DatagramListenerProtocol, DatagramListenerSocketAdapter

            from ..fakeasyncio import FakeAsyncioDatagramTransport

            aio_protocol = DatagramListenerProtocol(loop=loop)
            aio_transport = FakeAsyncioDatagramTransport(loop, aio_protocol, address=None, kernel_slots=None)
            real_listener = DatagramListenerSocketAdapter(backend, aio_transport, aio_protocol)

            class _Shim:
                def deliver(self, data: bytes, addr: tuple) -> None:
                    aio_transport.feed(data, addr)

                @property
                def sent(self) -> list:
                    return [(d, a) for d, a in aio_transport.wire]

            listener: Any = _Shim()
            server = AsyncDatagramServer(real_listener, protocol)
        else:
            listener = MemDatagramListener(backend, script=lscript)
            server = AsyncDatagramServer(listener, protocol)
        if case["pre_serve"]:
            # datagrams received before serve() is awaited are queued by the listener and dispatched first
            while n_pre < len(arrivals) and times[n_pre] == 0:
                listener.deliver(payloads[n_pre], address_of(arrivals[n_pre]["addr"]))
                n_pre += 1

        def cb(ctx: Any):  # noqa: ANN202
            async def send(packet: Any) -> None:
                await ctx.server.send_packet_to(packet, ctx.address)

            return script.gen(ctx.address[1] - 9001, send)

        task = asyncio.create_task(server.serve(cb))
    else:
        srv = AsyncUDPNetworkServer(None, 0, protocol, ScriptHandler(script), backend)
        up = asyncio.Event()
        task = asyncio.create_task(srv.serve_forever(is_up_event=up))
        await up.wait()
        listener = backend.udp_listeners[0]
        listener.script.update(lscript)
    base = loop.time()
    if base != 0.0:
        raise HarnessError(f"server start-up consumed virtual time: {base}")

    def fire(i: int, iters_left: int) -> None:
        if iters_left > 0:
            loop.call_soon(fire, i, iters_left - 1)
            return
        while True:
            listener.deliver(payloads[i], address_of(arrivals[i]["addr"]))
            i += 1
            if i >= len(arrivals):
                return
            if times[i] > times[i - 1]:
                loop.call_at(base + times[i], fire, i, arrivals[i]["iters"])
                return
            if arrivals[i]["iters"] > 0:
                loop.call_soon(fire, i, arrivals[i]["iters"] - 1)
                return
            # same instant, no extra iteration: same-callback burst

    if n_pre < len(arrivals):
        loop.call_at(base + times[n_pre], fire, n_pre, arrivals[n_pre]["iters"])
    await asyncio.sleep(T_END)
    res["logs"] = [list(lg) for lg in script.logs]
    res["sent"] = list(listener.sent)
    res["server_exc"] = None
    if task.done():
        exc = task.exception() if not task.cancelled() else None
        res["server_exc"] = exc if exc is not None else RuntimeError("serving task ended")
    else:
        try:
            if case["sut"] == "highlevel":
                await srv.shutdown()
                await task
                await srv.server_close()
            else:
                task.cancel()
                try:
                    await task
                except asyncio.CancelledError:
                    pass
                await server.aclose()
        except Exception as exc:  # judged after the log comparison
            res["teardown_exc"] = exc
    res["final_logs"] = [list(lg) for lg in script.logs]
    res["max_active"] = list(script.max_active)
    res["active_after"] = list(script.active)
    res["spin_jumps"] = loop.spin_jumps  # type: ignore[attr-defined]
    return res


def _show(e: Any) -> str:
    return repr(e)[:200]


def _flatten_exc(exc: BaseException) -> list[BaseException]:
    if isinstance(exc, BaseExceptionGroup):
        out: list[BaseException] = []
        for e in exc.exceptions:
            out.extend(_flatten_exc(e))
        return out
    return [exc]


def _judge_teardown(res: dict, info: dict) -> None:
    exc = res.get("teardown_exc")
    if exc is None:
        return
    from ..core import exception_from_sut, format_exc

    leaves = _flatten_exc(exc)
    if not any(exception_from_sut(e) for e in leaves):
        raise HarnessError(f"teardown failed in the harness: {[repr(e) for e in leaves]}")
    raise Violation(
        "teardown-exception", f"stopping the quiescent server raised {[repr(e) for e in leaves][:3]}", traceback=format_exc(leaves[0]), **info
    )


def run_case(case: dict) -> Outcome:
    logging.disable(logging.CRITICAL)
    times = arrival_times(case)
    naddr = len(case["clients"])
    per_addr: list[list[tuple[int, bool, int]]] = [[] for _ in range(naddr)]
    for i, a in enumerate(case["arrivals"]):
        per_addr[a["addr"]].append((times[i], bool(a["bad"]), i))
    models = [AddrModel(per_addr[a], case["clients"][a]) for a in range(naddr)]
    for m in models:
        m.run()

    script = Script(case)
    try:
        res = run_virtual(_drive, case, script, max_ticks=400_000)
    except Deadlock as exc:
        raise Violation("deadlock", f"server did not make progress: {exc}") from exc
    info = {"sut": case["sut"]}

    if res["server_exc"] is not None:
        leaves = _flatten_exc(res["server_exc"])
        from ..core import exception_from_sut, format_exc

        if any(isinstance(e, ScriptedError) for e in leaves) or not any(exception_from_sut(e) for e in leaves):
            raise HarnessError(f"serving task died from a harness exception: {[repr(e) for e in leaves]}")
        raise Violation(
            "server-crashed",
            f"the serving task died: {[repr(e) for e in leaves][:3]}",
            traceback=format_exc(leaves[0]),
            **info,
        )
    if res["spin_jumps"]:
        # generated schedules keep their own zero-delay chains far below the virtual loop's busy-run threshold (200 consecutive
        # non-idle iterations), so a busy run can only come from the server itself keeping the loop busy without waiting
        # for anything (e.g. re-feeding the same input to fresh handlers for ever)
        raise Violation(
            "busy-loop",
            f"the %s server kept the event loop busy for at least 200 consecutive iterations without any timer "
            f"({res['spin_jumps']} busy-run clock jump(s) of the virtual loop)" % "datagram",
            **info,
        )

    for a in range(naddr):
        pred, obs = models[a].log, res["logs"][a]
        for i in range(max(len(pred), len(obs))):
            p = pred[i] if i < len(pred) else None
            o = obs[i] if i < len(obs) else None
            same = p is not None and o is not None and p[0] == o[0] and len(p) == len(o)
            if same:
                if p[0] == "req":
                    same = p[1:3] == o[1:3] and isinstance(o[3], list) and o[3] == [a, p[3]]
                else:
                    same = p == o
            if not same:
                raise Violation(
                    "log-mismatch",
                    f"address #{a}: handler-side log differs from the per-address reference model at entry #{i}: "
                    f"expected {_show(p) if p else 'nothing more'}, observed {_show(o) if o else 'nothing more'}",
                    address=a,
                    index=i,
                    expected=[_show(e) for e in pred[max(0, i - 6) : i + 3]],
                    observed=[_show(e) for e in obs[max(0, i - 6) : i + 3]],
                    discarded_by_model=models[a].discarded,
                    **info,
                )
        if res["max_active"][a] > 1:
            raise Violation("two-active-generators", f"address #{a}: {res['max_active'][a]} generators active at the same time", address=a, **info)
        # finalisation exactly once (after teardown too)
        final_log = res["final_logs"][a]
        starts = [e[1] for e in final_log if e[0] == "start"]
        for gid in starts:
            nfin = sum(1 for e in final_log if e[0] == "final" and e[1] == gid)
            if nfin != 1:
                raise Violation("finalisation", f"address #{a}: generator {gid} finalised {nfin} times", address=a, **info)
        if not models[a].parked and len(final_log) != len(obs):
            raise Violation("late-events", f"address #{a}: events after quiescence: {[_show(e) for e in final_log[len(obs) :]][:5]}", address=a, **info)
        if res["active_after"][a] != 0:
            raise Violation("finalisation", f"address #{a}: a generator is still active after teardown", address=a, **info)

    _judge_teardown(res, info)

    # responses: per address, in order
    entry = zoo.build(SPEC)
    protocol = entry.datagram_protocol()
    for a in range(naddr):
        got = [d for d, addr in res["sent"] if addr == address_of(a)]
        exp = [protocol.make_datagram([a, seq]) for seq in models[a].sent]
        if got != exp:
            raise Violation("responses", f"address #{a}: responses differ: expected {exp[:6]}, got {got[:6]}", address=a, **info)

    # classification
    classes = [f"addresses-{naddr}"]
    while_active = any(m.arrival_while_active for m in models)
    at_finish = any(m.arrival_at_finish_tick for m in models)
    if while_active:
        classes.append("arrival-while-generator-active")
    if at_finish:
        classes.append("arrival-in-finish-tick")
    if any(m.discarded for m in models):
        classes.append("discarded-datagram")
    if any(e[0] == "timeout" for m in models for e in m.log):
        classes.append("timeout")
    if any(e[0] == "bad" for m in models for e in m.log):
        classes.append("parse-error")
    if any(e[0] == "raise" for m in models for e in m.log):
        classes.append("handler-exception")
    if any(sum(1 for e in m.log if e[0] == "start") >= 2 for m in models):
        classes.append("fresh-generator")
    if any(m.parked for m in models):
        classes.append("parked-at-end")
    # two addresses overlap: some generator of A is active (with positive duration) while B observes an event
    overlap = False
    for a in range(naddr):
        for b in range(naddr):
            if a == b:
                continue
            for s, f in models[a].intervals:
                if f > s and any(s < e[2] < f for e in models[b].log if e[0] in ("req", "bad", "final")):
                    overlap = True
    if overlap:
        classes.append("progress-during-other-clients-suspension")
    if case["pre_serve"] and case["sut"] == "lowlevel":
        classes.append("datagrams-before-serve")
    return Outcome(nontrivial=while_active or at_finish, classes=tuple(classes))


def _strategy(sut: str):  # noqa: ANN202
    return lambda tier: st_case(tier, sut)

# ----------------------------------------------------------------------------------------------
# layer "fairness": "slow handling of one client does not block other clients".  Client A's handler is slow once
# (a virtual sleep) while K datagrams of A pile up; when it comes back it works through its backlog with a handler
# that never suspends by itself (record the request, yield for the next one).  A datagram of client B arrives a few
# loop iterations after A resumed: B must not have to wait until a large part of A's backlog has been handled.


async def _fairness_main(case: dict) -> dict:
    from easynetwork.protocol import DatagramProtocol
    from easynetwork.serializers.line import StringLineSerializer

    loop = asyncio.get_running_loop()
    backend = VerifBackend()
    protocol = DatagramProtocol(StringLineSerializer())
    A, B = ("10.0.0.1", 9001), ("10.0.0.2", 9002)
    order: list[str] = []
    ticks: list[int] = []
    res: dict[str, Any] = {}

    class Handler(AsyncDatagramRequestHandler[Any, Any]):
        async def handle(self, client: Any, /):  # noqa: ANN202
            port = client.extra(INETClientAttribute.remote_address).port
            first = True
            while True:
                request = yield case["yield_timeout"]
                order.append(request)
                ticks.append(loop.ticks)  # type: ignore[attr-defined]
                if port == 9001 and first:
                    first = False
                    await asyncio.sleep(1.0)  # slow once: the backlog builds up meanwhile
                if case["respond"]:
                    await client.send_packet(request)

    K = case["backlog"]
    if case["sut"] == "highlevel":
        srv = AsyncUDPNetworkServer(None, 0, protocol, Handler(), backend)
        up = asyncio.Event()
        task = asyncio.create_task(srv.serve_forever(is_up_event=up))
        await up.wait()
        listener = backend.udp_listeners[0]
    else:
        listener = MemDatagramListener(backend)
        server = AsyncDatagramServer(listener, protocol)
        h = Handler()

        class _Ctx:
            pass

        def cb(ctx: Any):  # noqa: ANN202
            class _Client:
                def extra(self, attr: Any) -> Any:
                    return type("A", (), {"port": ctx.address[1]})()

                async def send_packet(self, packet: Any) -> None:
                    await ctx.server.send_packet_to(packet, ctx.address)

            return h.handle(_Client())

        task = asyncio.create_task(server.serve(cb))
        await asyncio.sleep(0)
    listener.deliver(b"a-first\n", A)
    await asyncio.sleep(0.25)
    for i in range(K):
        listener.deliver(f"a{i}\n".encode(), A)
    # A resumes at t=1.0 (+ epsilon of the initial start-up); B's datagram arrives `b_iters` loop iterations later

    def fire_b(left: int) -> None:
        if left > 0:
            loop.call_soon(fire_b, left - 1)
            return
        res["a_handled_when_b_arrived"] = sum(1 for x in order if x.startswith("a"))
        listener.deliver(b"b0\n", B)

    loop.call_at(1.0 + 1e-6, fire_b, case["b_iters"])
    await asyncio.sleep(3.0)
    res["order"] = list(order)
    res["ticks"] = list(ticks)
    res["alive"] = not task.done()
    if case["sut"] == "highlevel":
        await srv.shutdown()
        await asyncio.gather(task, return_exceptions=True)
        await srv.server_close()
    else:
        task.cancel()
        await asyncio.gather(task, return_exceptions=True)
        await server.aclose()
    return res


def run_fairness_case(case: dict) -> Outcome:
    logging.disable(logging.CRITICAL)
    try:
        r = run_virtual(_fairness_main, case, max_ticks=2_000_000)
    except Deadlock as exc:
        raise Violation("deadlock", f"datagram server did not make progress: {str(exc)[:600]}") from exc
    order = r["order"]
    K = case["backlog"]
    if not r["alive"]:
        raise Violation("server-stopped", "serving task ended")
    want_a = ["a-first"] + [f"a{i}" for i in range(K)]
    if [x for x in order if x.startswith("a")] != want_a or order.count("b0") != 1:
        raise Violation("fifo", f"per-client order/exactly-once broken: {order[:12]}... ({len(order)} requests)")
    # longest run of requests handled without the event loop running in between (B's datagram, a timer, a socket event:
    # nothing else can happen during such a run, however long it is)
    longest = cur = 0
    prev = None
    for tk in r["ticks"]:
        cur = cur + 1 if tk == prev else 1
        prev = tk
        longest = max(longest, cur)
    detail = {"sut": case["sut"], "backlog": K, "longest_run": longest}
    if longest >= 30:
        raise Violation(
            "other-clients-blocked",
            f"{longest} queued datagrams of one client were handled within a single event-loop iteration (backlog {K}): the backlog of "
            "one client is worked through without ever letting the other clients run",
            **detail,
        )
    return Outcome(nontrivial=K >= 40, classes=(f"sut-{case['sut']}", f"longest-run-{min(longest, 9)}"), note=f"longest run in one loop iteration: {longest}")


@st.composite
def st_fairness_case(draw: st.DrawFn, tier: str) -> dict:
    return {
        "sut": draw(st.sampled_from(["lowlevel", "highlevel"])),
        "backlog": draw(st.sampled_from([40, 100, 300])),
        "b_iters": draw(st.integers(0, 6)),
        "respond": draw(st.booleans()),
        "yield_timeout": draw(st.sampled_from([None, None, 5.0])),
    }



CHECK = Check(
    id="C16",
    level="exploration",
    rule=(
        "case = arrival script of 1-12 datagrams (integer virtual gap incl. same-instant bursts, 0-3 extra loop iterations inside "
        "the tick, address 1-3, well-formed/malformed) x per-address handler script (generator scripts: checkpoints/virtual sleeps "
        "before the first yield and after each request, 0-4 requests per generator, exception after the j-th request [high-level], "
        "yielded timeouts None / k+2^-(j+1), reactions to TimeoutError and parse errors, responses) x listener (in-memory | the real asyncio "
        "DatagramListenerProtocol+adapter over a fake selector datagram transport) x lock/condition acquisitions atomic or taking 0-3 generated "
        "scheduler rounds; per-address handler log with "
        "virtual times must equal the per-address reference model (which tracks the documented discard of a datagram whose generator "
        "ends before its first yield), at most one active generator per address, exactly-once finalisation, serving task alive; "
        "non-trivial = a datagram arrives while that client's generator is active or in the very tick it finishes; layer fairness: a backlog of "
        "40-300 datagrams of one client behind a handler that was slow once - at most 30 requests may be handled within one event-loop iteration; distinct = sha1"
    ),
    layers=[
        Layer("lowlevel", _strategy("lowlevel"), run_case, {"quick": 1200, "thorough": 8000}),
        Layer("highlevel", _strategy("highlevel"), run_case, {"quick": 1200, "thorough": 8000}),
        Layer("fairness", st_fairness_case, run_fairness_case, {"quick": 60, "thorough": 300}),
    ],
    assumptions=[
        "the in-memory listener starts one task per datagram in arrival order (mirrors datagram/listener.py; the real listener protocol is "
        "a generated variant of the lowlevel layer); ordering inside the kernel "
        "or the selector is out of scope",
        "arrivals and handler sleeps are integers, timeouts k+2^-(j+1): a deadline never coincides with an arrival; a timeout of exactly 0 "
        "is not generated at yields where the server honours it",
        "a handler exception before the first yield is not generated (the statement does not say what happens to that datagram); "
        "handler exceptions are generated for the high-level server only (the low-level API lets them propagate to the task group)",
    ],
)
