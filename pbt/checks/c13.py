"""C13 — cancel scopes (DESIGN.md section 3, C13).

A case is a small *program* (JSON-able AST, grammar in `pbt/scope_model.py`) executed by one task on the
virtual-time loop against the real `AsyncIOBackend` cancel scopes / `ignore_cancellation` / task groups, plus one
optional external `task.cancel()` scheduled with `loop.call_at`.  Two oracles:

* `invariants` — run on every program, including programs whose timers are deliberately tied;
* `exact`      — the observable behaviour (marks reached with their virtual times, every scope's
  `cancelled_caught()`, exception leaving the program) must equal the prediction of the reference interpreter
  `scope_model.simulate`, for programs the interpreter declares free of ties and of loop-turn races.
"""

from __future__ import annotations

import asyncio
import json
import math
from typing import Any

from ..core import HarnessError, Violation, exception_from_sut, format_exc
from ..scope_model import child_name, scope_ids
from ..vloop import Deadlock, run_virtual

UNIT = 1024  # program times are integers in 1/1024 s: exact in binary floating point

SCOPE_MSG_PREFIX = "Cancelled by cancel scope "


class _ShieldedBodyError(Exception):
    """application error raised by a shielded body and handled by the program"""

MOVE_ON_KINDS = ("move_on_after", "move_on_at", "open")
TIMEOUT_KINDS = ("timeout", "timeout_at")


def secs(units: int) -> float:
    return units / UNIT


def _leaves(exc: BaseException) -> list[BaseException]:
    if isinstance(exc, BaseExceptionGroup):
        out: list[BaseException] = []
        for e in exc.exceptions:
            out += _leaves(e)
        return out
    return [exc]


class _RecTask(asyncio.Task):  # type: ignore[type-arg]
    """asyncio.Task whose cancel() calls are logged (who asked for a cancellation, and when).  Installed through the
    loop's public task factory; behaviour is otherwise untouched."""

    _c13_run: "RealRun | None" = None

    def cancel(self, msg: Any = None) -> bool:
        run = self._c13_run
        if run is not None:
            run.on_task_cancel(self, msg)
        return super().cancel(msg)


class _TaskCtx:
    def __init__(self, name: str) -> None:
        self.name = name
        self.shield = 0
        self.scopes: list[_ScopeRec] = []  # scopes hosted by this task, outermost first
        self.outcome: str | None = None


class _ScopeRec:
    def __init__(self, sid: int, kind: str, host: _TaskCtx) -> None:
        self.sid = sid
        self.kind = kind
        self.host = host
        self.obj: Any = None
        self.entered_at: float | None = None
        self.exited_at: float | None = None
        self.cancel_called = False
        self.caught = False
        self.exc_in: str | None = None
        self.exc_out: str | None = None
        self.timeout_raised = False
        self.own_cancel_calls = 0  # task.cancel(msg=<this scope's id>) calls observed
        self.foreign_pending_at_exit = False
        self.foreign_pending_at_entry = False
        self.env_depth = 0
        self.outer_cancelled_at_exit = False
        self.when: float | None = None
        self.enclosing: list[_ScopeRec] = []
        self.had_inner = False


class RealRun:
    """Executes one program against the real backend and records what happened."""

    def __init__(self, program: list, ext: int | None, ext_turns: int = 0) -> None:
        self.program = program = json.loads(json.dumps(program))  # distinct list objects for every node
        self.ext = ext
        self.ext_turns = ext_turns  # deliver the external cancel this many loop turns after its timer fired
        self.nt_nested_cancel = False
        self.nt_shield_pending = False
        self.nt_shield_failed = False
        self.nt_wait_failed = False
        self.nt_wait_cancelled = False
        self.d29_shape = False
        self.cross_task_cancel = False
        self.sids = scope_ids(program)
        self.marks: list[tuple[int, float, str]] = []  # (mark id, virtual time, task name)
        self.scopes: dict[int, _ScopeRec] = {}
        self.by_obj_id: dict[str, _ScopeRec] = {}
        self.problems: list[Violation] = []
        self.foreign: dict[Any, float] = {}  # task -> time of the first cancel() not issued by a cancel scope
        self.tasks: dict[Any, _TaskCtx] = {}
        self.children: list[_TaskCtx] = []
        self.outcome: str | None = None
        self.end_time: float | None = None
        self.ext_requested_at: float | None = None
        self.cancelling_after: int | None = None
        self.epilogue: list[str] = []
        self.spin_jumps = 0
        self.ticks = 0
        self.notes: set[str] = set()
        self.loop: Any = None
        self.backend: Any = None
        self._body_done = False
        self.unexpected: BaseException | None = None

    # -- recording -------------------------------------------------------------------------------

    def problem(self, kind: str, message: str, **details: Any) -> None:
        self.problems.append(Violation(kind, message, **details))

    def on_task_cancel(self, task: Any, msg: Any) -> None:
        if isinstance(msg, str) and msg.startswith(SCOPE_MSG_PREFIX):
            rec = self.by_obj_id.get(msg[len(SCOPE_MSG_PREFIX) :])
            if rec is not None:
                rec.own_cancel_calls += 1
            return
        if task not in self.foreign:
            self.foreign[task] = self.loop.time()

    def foreign_pending(self, tc: _TaskCtx) -> bool:
        task = asyncio.current_task()
        return task in self.foreign

    # -- interpreter -----------------------------------------------------------------------------

    async def _body(self, body: list, env: list[_ScopeRec], tc: _TaskCtx) -> None:
        for node in body:
            await self._node(node, env, tc)

    async def _checkpoint(self, node: list, tc: _TaskCtx) -> None:
        op = node[0]
        try:
            if op == "cp":
                await self.backend.coro_yield()
            elif len(node) > 2 and node[2] == "cancelled" and node[1] > 0 and tc.shield:
                # inside ignore_cancellation(): wait on a future that ends up *cancelled* (e.g. joining a task that somebody
                # cancelled); the program handles that CancelledError on the spot - inside a shield it cannot be the task's
                # own cancellation.  For the reference semantics this is a plain sleep.
                fut = self.loop.create_future()
                handle = self.loop.call_later(secs(node[1]), lambda: fut.done() or fut.cancel())
                try:
                    await fut
                except asyncio.CancelledError:
                    if not fut.cancelled():
                        raise
                    self.nt_wait_cancelled = True
                    if self.foreign_pending(tc):
                        # shape of known finding D29: a foreign cancel was absorbed by the shield, and the awaited future
                        # then ends cancelled - cancel_shielded_await forgets the postponed cancellation in that case
                        self.d29_shape = True
                finally:
                    handle.cancel()
            elif len(node) > 2 and node[2] == "fail" and node[1] > 0:
                # same timer structure as asyncio.sleep(), but the awaited future ends with an application error that
                # the program handles on the spot (for the reference semantics this is a plain sleep)
                fut = self.loop.create_future()
                handle = self.loop.call_later(secs(node[1]), lambda: fut.done() or fut.set_exception(_ShieldedBodyError()))
                try:
                    await fut
                except _ShieldedBodyError:
                    self.nt_wait_failed = True
                finally:
                    handle.cancel()
            else:
                await self.backend.sleep(secs(node[1]))
        except asyncio.CancelledError:
            if tc.shield:
                self.problem("shield", f"task {tc.name}: {node} raised CancelledError inside ignore_cancellation", node=node)
            raise
        # the checkpoint completed normally
        if tc.shield:
            return
        now = self.loop.time()
        for rec in tc.scopes:
            if rec.obj.cancel_called():
                self.problem(
                    "checkpoint-completed",
                    f"task {tc.name}: unshielded {node} completed at t={now} inside scope #{rec.sid} "
                    f"whose cancel_called() is already True",
                    node=node,
                    scope=rec.sid,
                )
                break
            if now > rec.obj.when():
                # strictly later: the loop has already run an iteration at the deadline's own instant
                self.problem(
                    "deadline-ignored",
                    f"task {tc.name}: unshielded {node} completed at t={now} inside scope #{rec.sid} whose deadline "
                    f"{rec.obj.when()} has passed, and the scope was never cancelled",
                    node=node,
                    scope=rec.sid,
                )
                break
        if self.foreign_pending(tc):
            self.problem(
                "foreign-cancel-not-delivered",
                f"task {tc.name}: unshielded {node} completed at t={self.loop.time()} although task.cancel() was "
                f"requested at t={self.foreign[asyncio.current_task()]} and never delivered",
                node=node,
                task=tc.name,
            )

    async def _node(self, node: list, env: list[_ScopeRec], tc: _TaskCtx) -> None:
        op = node[0]
        loop = self.loop
        if op == "mark":
            self.marks.append((node[1], loop.time(), tc.name))
        elif op in ("cp", "sleep"):
            await self._checkpoint(node, tc)
        elif op == "cancel":
            if env:
                rec = env[-1 - (node[1] % len(env))]
                if rec.host is not tc:
                    self.cross_task_cancel = True
                rec.obj.cancel()
        elif op == "resched":
            if env:
                rec = env[-1 - (node[1] % len(env))]
                when = math.inf if node[2] is None else loop.time() + secs(node[2])
                rec.obj.reschedule(when)
        elif op == "shield":
            tc.shield += 1
            fails = len(node) > 2 and node[2] == "fail"

            async def shielded_body() -> None:
                await self._body(node[1], env, tc)
                if fails:
                    # the shielded coroutine ends with an application error which the program handles: whatever was
                    # postponed by the shield must still be delivered at the next checkpoint
                    raise _ShieldedBodyError

            try:
                try:
                    await self.backend.ignore_cancellation(shielded_body())
                except _ShieldedBodyError:
                    self.nt_shield_failed = True
            except asyncio.CancelledError:
                self.problem("shield", f"task {tc.name}: ignore_cancellation(...) raised CancelledError", node="shield")
                raise
            finally:
                tc.shield -= 1
            if any(r.obj.cancel_called() for r in tc.scopes) or self.foreign_pending(tc):
                self.nt_shield_pending = True
        elif op == "scope":
            await self._scope(node, env, tc)
        elif op == "group":
            await self._group(node, env, tc)
        else:
            raise HarnessError(f"unknown program node {node!r}")

    async def _scope(self, node: list, env: list[_ScopeRec], tc: _TaskCtx) -> None:
        _, kind, delay, body = node
        backend = self.backend
        loop = self.loop
        sid = self.sids[id(node)]
        rec = _ScopeRec(sid, kind, tc)
        rec.env_depth = len(env)
        rec.enclosing = list(env)
        self.scopes[sid] = rec
        now = loop.time()
        d = math.inf if delay is None else secs(delay)
        if kind == "move_on_after":
            cm = backend.move_on_after(d)
        elif kind == "timeout":
            cm = backend.timeout(d)
        elif kind == "open":
            cm = backend.open_cancel_scope(deadline=now + d)
        elif kind == "move_on_at":
            cm = backend.move_on_at(now + d)
        elif kind == "timeout_at":
            cm = backend.timeout_at(now + d)
        else:
            raise HarnessError(f"unknown scope kind {kind!r}")
        exc_in: BaseException | None = None
        exc_out: BaseException | None = None
        pushed = False
        try:
            try:
                with cm as scope:
                    rec.obj = scope
                    self.by_obj_id[f"{id(scope):x}"] = rec
                    rec.entered_at = now
                    rec.foreign_pending_at_entry = self.foreign_pending(tc)
                    tc.scopes.append(rec)
                    pushed = True
                    try:
                        await self._body(body, env + [rec], tc)
                    except BaseException as exc:
                        exc_in = exc
                        raise
                    finally:
                        rec.foreign_pending_at_exit = self.foreign_pending(tc)
            finally:
                if pushed:
                    tc.scopes.pop()
        except TimeoutError as exc:
            if kind in TIMEOUT_KINDS and exc is not exc_in:
                rec.timeout_raised = True  # raised by this scope's own __exit__; the program goes on
            else:
                exc_out = exc
                raise
        except BaseException as exc:
            exc_out = exc
            raise
        finally:
            self._after_scope(rec, tc, exc_in, exc_out)
            del exc_in, exc_out

    def _after_scope(self, rec: _ScopeRec, tc: _TaskCtx, exc_in: BaseException | None, exc_out: BaseException | None) -> None:
        scope = rec.obj
        if scope is None:
            return
        rec.exited_at = self.loop.time()
        rec.cancel_called = cc = bool(scope.cancel_called())
        rec.caught = caught = bool(scope.cancelled_caught())
        rec.when = scope.when()
        rec.exc_in = None if exc_in is None else type(exc_in).__name__
        rec.exc_out = None if exc_out is None else type(exc_out).__name__
        where = f"task {tc.name}: scope #{rec.sid} ({rec.kind})"
        if rec.env_depth:
            for outer in rec.enclosing:
                outer.had_inner = True
        if cc and (rec.env_depth or rec.had_inner):
            self.nt_nested_cancel = True
        cancelled_in = isinstance(exc_in, asyncio.CancelledError)
        rec.outer_cancelled_at_exit = any(r.obj.cancel_called() for r in tc.scopes)
        if caught and not cc:
            self.problem("caught-without-cancel", f"{where}: cancelled_caught() is True but cancel_called() is False", scope=rec.sid)
        if caught and not cancelled_in:
            self.problem("caught-nothing", f"{where}: cancelled_caught() is True but no CancelledError reached it ({rec.exc_in})", scope=rec.sid)
        if rec.kind in TIMEOUT_KINDS:
            if rec.timeout_raised != caught:
                self.problem(
                    "timeout-iff-caught",
                    f"{where}: TimeoutError raised={rec.timeout_raised} but cancelled_caught()={caught}",
                    scope=rec.sid,
                )
        if caught and exc_out is not None:
            self.problem("caught-but-raised", f"{where}: cancelled_caught() is True but {rec.exc_out} left the scope", scope=rec.sid)
        if not caught and exc_in is not None and exc_out is not exc_in:
            self.problem(
                "exception-replaced",
                f"{where}: did not catch, {rec.exc_in} entered __exit__ but {rec.exc_out} came out",
                scope=rec.sid,
            )
        if not cc and cancelled_in and exc_out is not exc_in:
            self.problem("swallowed-foreign", f"{where}: was never cancelled but swallowed a CancelledError", scope=rec.sid)
        if cc and cancelled_in and not caught:
            if not any(r.obj.cancel_called() for r in tc.scopes) and not self.foreign_pending(tc):
                self.problem(
                    "escaped",
                    f"{where}: was cancelled, did not catch, and the CancelledError left it although no enclosing "
                    f"scope is cancelled and no task.cancel() was requested",
                    scope=rec.sid,
                )

    async def _group(self, node: list, env: list[_ScopeRec], tc: _TaskCtx) -> None:
        _, children, body = node
        gid = self.sids[id(node)]
        async with self.backend.create_task_group() as tg:
            for i, child in enumerate(children):
                tg.start_soon(self._child, child, list(env), child_name(gid, i))
            await self._body(body, env, tc)

    async def _child(self, prog: list, env: list[_ScopeRec], name: str) -> None:
        tc = _TaskCtx(name)
        self.children.append(tc)
        self.tasks[asyncio.current_task()] = tc
        try:
            await self._body(prog, env, tc)
            tc.outcome = "ok"
        except asyncio.CancelledError:
            tc.outcome = "cancelled"
            if not self.foreign_pending(tc):
                self.problem("child-cancelled", f"task {name} ended with CancelledError although nobody cancelled it", task=name)
            raise
        except BaseException as exc:
            tc.outcome = f"error:{type(exc).__name__}"
            raise

    # -- the program task ------------------------------------------------------------------------

    def _ext_cancel(self, task: Any, turns: int) -> None:
        if task.done() or self._body_done:
            return
        if turns > 0:
            self.loop.call_soon(self._ext_cancel, task, turns - 1)
            return
        self.ext_requested_at = self.loop.time()
        task.cancel()

    async def _quiet_checkpoints(self, n: int, what: str) -> None:
        for i in range(n):
            try:
                await asyncio.sleep(0)
            except asyncio.CancelledError:
                self.epilogue.append(f"cancelled@{i}")
                self.problem(
                    "leftover-cancellation",
                    f"{what}: checkpoint #{i + 1} after the outermost scope exited raised CancelledError",
                )
                asyncio.current_task().uncancel()  # type: ignore[union-attr]

    async def _prog(self) -> None:
        task = asyncio.current_task()
        assert task is not None
        loop = self.loop
        tc = _TaskCtx("main")
        self.tasks[task] = tc
        entry = task.cancelling()
        handle = None
        if self.ext is not None:
            handle = loop.call_at(loop.time() + secs(self.ext), self._ext_cancel, task, self.ext_turns)
        try:
            await self._body(self.program, [], tc)
            self.outcome = "ok"
        except asyncio.CancelledError:
            self.outcome = "cancelled"
        except BaseException as exc:  # noqa: BLE001
            self.outcome = f"error:{type(exc).__name__}"
            self.unexpected = exc
        finally:
            self._body_done = True
            if handle is not None:
                handle.cancel()
        self.end_time = loop.time()
        c = self.cancelling_after = task.cancelling() - entry
        ext_req = self.ext_requested_at is not None
        if self.outcome == "cancelled":
            if not ext_req:
                self.problem("escaped", "CancelledError left the outermost scope although no task.cancel() was requested")
            while task.cancelling() > entry:
                task.uncancel()
            await self._quiet_checkpoints(3, "after the delivered external cancel")
        elif self.outcome == "ok":
            if ext_req:
                # requested but not delivered: legal only if there was no unshielded checkpoint left, and then it is
                # a pending cancellation that the next checkpoint must deliver
                try:
                    await asyncio.sleep(0)
                except asyncio.CancelledError:
                    self.epilogue.append("pending-delivered")
                else:
                    self.problem(
                        "external-cancel-lost",
                        f"task.cancel() requested at t={self.ext_requested_at} was neither delivered inside the program nor at "
                        f"the first checkpoint after it (task.cancelling() rose by {c})",
                        cancelling=c,
                    )
                while task.cancelling() > entry:
                    task.uncancel()
                await self._quiet_checkpoints(3, "after the pending external cancel")
            else:
                while task.cancelling() > entry:
                    task.uncancel()
                await self._quiet_checkpoints(3, "no external cancel")

    async def _main(self) -> None:
        from easynetwork.lowlevel.api_async.backend._asyncio.backend import AsyncIOBackend

        self.loop = loop = asyncio.get_running_loop()
        self.backend = AsyncIOBackend()
        task_cls = type("_RecTaskRun", (_RecTask,), {"_c13_run": self})

        def factory(loop: Any, coro: Any, **kwargs: Any) -> Any:
            return task_cls(coro, loop=loop, **kwargs)

        loop.set_task_factory(factory)
        prog = loop.create_task(self._prog(), name="c13-program")
        await asyncio.wait({prog})
        loop.set_task_factory(None)
        self.spin_jumps = loop.spin_jumps
        self.ticks = loop.ticks
        if prog.cancelled():
            raise HarnessError("program task ended cancelled (harness swallowed nothing?)")
        exc = prog.exception()
        if exc is not None:
            raise exc

    def run(self) -> "RealRun":
        try:
            run_virtual(self._main, max_ticks=200_000)
        except Deadlock as exc:
            self.outcome = "deadlock"
            self.problem("hang", f"program did not terminate on the virtual loop: {exc}")
        exc = self.unexpected
        if exc is not None:
            self.unexpected = None
            leaves = _leaves(exc)
            if any(isinstance(e, HarnessError) for e in leaves) or not any(exception_from_sut(e) for e in leaves):
                raise HarnessError(f"C13 executor failed: {format_exc(exc)}") from exc
            self.problem(
                "unexpected-exception",
                f"program raised {type(exc).__name__}: {[repr(e) for e in leaves][:4]}",
                traceback=format_exc(exc),
            )
        return self

    def summary(self) -> dict:
        return {
            "outcome": self.outcome,
            "end": self.end_time,
            "marks": [(m, t, n) for m, t, n in self.marks],
            "scopes": {
                sid: (r.kind, r.cancel_called, r.caught, r.exc_in, r.exc_out, r.own_cancel_calls, r.exited_at)
                for sid, r in sorted(self.scopes.items())
            },
            "children": [(c.name, c.outcome) for c in self.children],
            "cancelling_after": self.cancelling_after,
            "epilogue": self.epilogue,
            "spin_jumps": self.spin_jumps,
            "ticks": self.ticks,
            "problems": [str(p) for p in self.problems],
        }


# ==============================================================================================
# oracle glue


import os  # noqa: E402

from hypothesis import strategies as st  # noqa: E402

from .. import scope_model  # noqa: E402
from . import c13_foreign  # noqa: E402
from ..core import Check, Layer, Outcome  # noqa: E402

# Confirmed defects of /repo (DESIGN.md section 4).  While a flag is True the shape is recognised (by the reference
# interpreter on the program, and by its signature in the observed run) and the case is counted in an `excluded-*`
# class instead of being judged, so that the search continues past it.  A case carrying "no_exclude": true (the
# saved replays of the findings) is always judged.  VERIF_C13_NO_EXCLUDE=D5,D6 switches the exclusion off for a run.
EXCLUDE_D5 = True  # a foreign task.cancel() and a hosted scope's own cancellation pending on one task together (a repair was committed and taken back: DESIGN 7.3, D5)
EXCLUDE_D5B = False  # (subsumed by D5 again)  # residue of D5: a foreign task.cancel() that is already pending (postponed by a shield) when a scope that gets cancelled is entered
EXCLUDE_D29 = True  # a foreign task.cancel() postponed by ignore_cancellation() is forgotten when the awaited future ends cancelled
EXCLUDE_D6 = False  # repaired in /repo (86899fe): the shape is searched again; a scope cancelled while its host task is suspended exits without a CancelledError passing it

_off = {x.strip().upper() for x in (os.environ.get("VERIF_C13_NO_EXCLUDE") or "").split(",") if x.strip()}
if "D5" in _off:
    EXCLUDE_D5 = False
if "D6" in _off:
    EXCLUDE_D6 = False
if "D5B" in _off:
    EXCLUDE_D5B = False
if "D29" in _off:
    EXCLUDE_D29 = False

D5_KINDS = frozenset({"foreign-cancel-not-delivered", "external-cancel-lost"})

MAX_NODES = 14
MAX_DEPTH = 4
MAX_CHILDREN = 2


def _marks_same_task(body: list) -> list[int]:
    out: list[int] = []
    for node in body:
        op = node[0]
        if op == "mark":
            out.append(node[1])
        elif op == "scope":
            out += _marks_same_task(node[3])
        elif op == "shield":
            out += _marks_same_task(node[1])
        elif op == "group":
            out += _marks_same_task(node[2])
    return out


def _shield_bodies(body: list) -> list[list]:
    out: list[list] = []
    for node in body:
        op = node[0]
        if op == "scope":
            out += _shield_bodies(node[3])
        elif op == "shield":
            out.append(node[1])
            out += _shield_bodies(node[1])
        elif op == "group":
            for c in node[1]:
                out += _shield_bodies(c)
            out += _shield_bodies(node[2])
    return out


def _real_sig_d5(real: RealRun) -> bool:
    """a cancelled scope was left while a task.cancel() that no scope issued was pending on its host task"""
    return any(r.cancel_called and r.foreign_pending_at_exit for r in real.scopes.values())


def _real_sig_d5b(real: RealRun) -> bool:
    """a scope that got cancelled was *entered* while a task.cancel() that no scope issued was already pending on its host task
    (postponed by a shield that has ended, or by one that is still around the scope)"""
    return any(r.cancel_called and r.foreign_pending_at_entry for r in real.scopes.values())


def _sig_d6(r: _ScopeRec) -> bool:
    """the scope issued task.cancel() calls and exited without any CancelledError passing through its __exit__"""
    return r.cancel_called and r.own_cancel_calls > 0 and r.exc_in != "CancelledError"


def _real_sig_d6(real: RealRun) -> bool:
    return any(_sig_d6(r) for r in real.scopes.values())


def _check_shields(real: RealRun) -> None:
    reached = {m for m, _, _ in real.marks}
    for body in _shield_bodies(real.program):
        marks = _marks_same_task(body)
        if marks and marks[0] in reached:
            missing = [m for m in marks if m not in reached]
            if missing:
                real.problem(
                    "shield",
                    f"ignore_cancellation body started (mark {marks[0]}) but did not run to completion: marks {missing} missing",
                    missing=missing,
                )


def _compare(real: RealRun, model: scope_model.ModelResult) -> None:
    diffs: list[str] = []
    if real.outcome != model.outcome:
        diffs.append(f"program outcome: observed {real.outcome}, reference {model.outcome}")
    observed: dict[str, list[tuple[int, float]]] = {}
    for mid, t, name in real.marks:
        observed.setdefault(name, []).append((mid, t))
    names = sorted(set(observed) | {n for n, v in model.marks.items() if v})
    for name in names:
        o = observed.get(name, [])
        e = [(mid, secs(t)) for mid, t in model.marks.get(name, [])]
        if o != e:
            diffs.append(f"marks of task {name}: observed {o}, reference {e}")
    for sid in sorted(set(real.scopes) | set(model.scopes)):
        r = real.scopes.get(sid)
        m = model.scopes.get(sid)
        if r is None or m is None or r.obj is None:
            diffs.append(f"scope #{sid}: entered in {'reference' if r is None or r.obj is None else 'observed run'} only")
            continue
        o = (r.cancel_called, r.caught, r.exited_at, r.when)
        e = (
            m["cancel_called"],
            m["caught"],
            None if m["exited_at"] is None else secs(m["exited_at"]),
            math.inf if m["deadline"] == math.inf else secs(m["deadline"]),
        )
        if o != e:
            diffs.append(f"scope #{sid} ({r.kind}) (cancel_called, cancelled_caught, exit time, when()): observed {o}, reference {e}")
    och = {c.name: c.outcome for c in real.children}
    ech = {n: o for n, o in model.children.items()}
    if och != ech:
        diffs.append(f"children outcomes: observed {och}, reference {ech}")
    if real.end_time is not None and model.end_time is not None and real.end_time != secs(model.end_time):
        diffs.append(f"end time: observed {real.end_time}, reference {secs(model.end_time)}")
    if diffs:
        raise Violation(
            "model-mismatch",
            "observed behaviour differs from the reference semantics: " + "; ".join(diffs[:4]),
            diffs=diffs,
            observed=real.summary(),
        )


def _validate(case: dict) -> None:
    prog = case["program"]
    n = scope_model.count_nodes(prog) - scope_model.count_ops(prog, "mark")
    if n > MAX_NODES or scope_model.depth(prog) > MAX_DEPTH or scope_model.count_children(prog) > MAX_CHILDREN:
        raise HarnessError(f"C13 case outside its bounds: {n} nodes, depth {scope_model.depth(prog)}")


def _run(case: dict, exact_layer: bool) -> Outcome:
    _validate(case)
    program = case["program"]
    ext = case.get("ext")
    real = RealRun(program, ext, case.get("ext_turns", 0)).run()
    hints = {sid: r.caught for sid, r in real.scopes.items()}
    model = scope_model.simulate(real.program, ext, hints)
    classes: list[str] = []

    judged_anyway = bool(case.get("no_exclude"))
    d5 = model.d5_shape or _real_sig_d5(real)
    d6 = _real_sig_d6(real)
    waived: set[str] = set()
    skip_exact = False
    if d5:
        classes.append("shape-D5")
        if EXCLUDE_D5 and not judged_anyway:
            # the foreign cancel may be swallowed and lost (D5): do not judge its delivery nor the trace, keep the rest
            waived |= D5_KINDS
            skip_exact = True
            classes.append("excluded-D5" if model.d5_shape else "excluded-D5-signature-only")
    if d6:
        classes.append("shape-D6")
    if d5 and (real.cross_task_cancel or real.children):
        # a cancelled scope around a task group (cancelled by deadline, by its host or from a child) makes the group abort its children
        # a few loop turns later: whether that
        # request reaches a child before or after the child's own cancelled scope is left (same virtual instant) is a loop-turn
        # race the reference cannot decide - invariants only (these programs used to sit behind the D5 exclusion)
        skip_exact = True
        classes.append("loop-turn-race-cross-task")
    d5b = _real_sig_d5b(real)
    if d5b:
        classes.append("shape-D5b")
        if EXCLUDE_D5B and not judged_anyway:
            waived |= D5_KINDS
            skip_exact = True
            classes.append("excluded-D5b")
    d29 = bool(real.d29_shape)
    if d29:
        classes.append("shape-D29")
        if EXCLUDE_D29 and not judged_anyway:
            waived |= D5_KINDS
            skip_exact = True
            classes.append("excluded-D29")

    _check_shields(real)
    # "after a scope exits the task carries no leftover cancellation request": once the outermost scope has exited,
    # task.cancelling() is back to its entry value plus the external request (delivered or still pending)
    if real.outcome in ("ok", "cancelled") and real.cancelling_after is not None:
        ext_requests = int(real.ext_requested_at is not None)
        if d6 and EXCLUDE_D6 and not judged_anyway:
            # D6: task.cancel() calls of the scopes that exited without seeing a CancelledError stay behind; the count
            # is not judged for this case (everything else is)
            classes.append("excluded-D6")
        elif real.cancelling_after != ext_requests:
            real.problem(
                "leftover-cancelling",
                f"program ended ({real.outcome}) with {ext_requests} external cancel request(s), but task.cancelling() is "
                f"{real.cancelling_after} above its value at entry",
                cancelling=real.cancelling_after,
            )
    problems = [p for p in real.problems if p.kind not in waived]
    if problems:
        v = problems[0]
        raise Violation(
            v.kind,
            v.message,
            **v.details,
            all_problems=[str(p) for p in real.problems],
            observed=real.summary(),
            shape_d5=d5,
            shape_d6=d6,
            shape_d29=d29,
            shape_d5b=d5b,
        )

    if model.exact() and model.d5_shape != _real_sig_d5(real):
        classes.append("shape-D5-flags-disagree")
    if model.tie:
        classes.append("tie")
    if model.racy:
        classes.append("loop-turn-race")
    if model.stuck:
        raise HarnessError(f"C13 reference interpreter got stuck on {program!r}: {model.notes}")
    if skip_exact:
        pass
    elif exact_layer or model.exact():
        if model.exact():
            if real.spin_jumps and not model.poller_expected:
                raise HarnessError(
                    f"virtual loop made {real.spin_jumps} busy-run clock jump(s) where the reference expects no poller: {program!r}"
                )
            _compare(real, model)
            classes.append("exact-compared")
        else:
            classes.append("exact-skipped")
    if model.used_hint:
        classes.append("inner-or-outer-choice")

    # generator distribution
    if real.ext_requested_at is not None:
        classes.append("ext-requested")
        classes.append("ext-delivered" if real.outcome == "cancelled" else "ext-pending-at-end")
    if real.spin_jumps:
        classes.append("poller")
    if real.children:
        classes.append("children")
        if any(c.outcome == "cancelled" for c in real.children):
            classes.append("child-cancelled")
    if any(r.caught for r in real.scopes.values()):
        classes.append("scope-caught")
    if any(r.cancel_called and not r.caught and r.exc_in == "CancelledError" for r in real.scopes.values()):
        classes.append("cancelled-scope-propagated")
    if any(r.cancel_called and r.exc_in is None for r in real.scopes.values()):
        classes.append("cancelled-no-checkpoint")
    if any(r.timeout_raised for r in real.scopes.values()):
        classes.append("timeout-raised")
    if real.nt_nested_cancel:
        classes.append("nested-cancel")
    if real.nt_shield_failed:
        classes.append("shielded-body-raised")
    if real.nt_wait_failed:
        classes.append("awaited-future-failed")
    if real.nt_wait_cancelled:
        classes.append("awaited-future-cancelled-inside-shield")
    if real.nt_shield_pending:
        classes.append("shield-with-pending-cancel")
    if scope_model.count_ops(program, "resched"):
        classes.append("has-resched")
    if case.get("ext_turns"):
        classes.append("ext-turn-offset")
    if case.get("repaired_d6"):
        classes.append("repaired-D6")
    if real.cross_task_cancel:
        classes.append("cross-task-scope-cancel")
    if any(r.caught and r.outer_cancelled_at_exit for r in real.scopes.values()):
        classes.append("inner-caught-while-outer-cancelled")
    classes.append(f"scope-depth-{min(scope_model.scope_depth(program), 4)}")
    nontrivial = (scope_model.scope_depth(program) >= 2 and real.nt_nested_cancel) or real.nt_shield_pending
    note = f"outcome={real.outcome} marks={[(m, t) for m, t, _ in real.marks][:12]}"
    return Outcome(nontrivial=nontrivial, classes=tuple(classes), note=note)


def run_invariants(case: dict) -> Outcome:
    return _run(case, exact_layer=False)


def run_exact(case: dict) -> Outcome:
    return _run(case, exact_layer=True)


# ==============================================================================================
# generator


def nominal_duration(body: list) -> int:
    """virtual time the body takes when nothing interrupts it (sleeps of one task add up, children run in parallel)"""
    total = 0
    for node in body:
        op = node[0]
        if op == "sleep":
            total += node[1]
        elif op == "scope":
            total += nominal_duration(node[3])
        elif op == "shield":
            total += nominal_duration(node[1])
        elif op == "group":
            total += max([nominal_duration(c) for c in node[1]] + [nominal_duration(node[2])])
    return total


class _Gen:
    def __init__(self, draw: st.DrawFn, ties: bool, budget: int) -> None:
        self.draw = draw
        self.ties = ties
        self.budget = budget
        self.children_left = MAX_CHILDREN
        self.timer_no = 0

    def fail_flag(self) -> list:
        """1 in 4 timed waits is a wait on a future that ends with an error handled by the program (or, 1 in 8, that ends
        up cancelled - only acted upon inside a shield, see _checkpoint)"""
        r = self.draw(st.integers(0, 7))
        return ["fail"] if r in (0, 1) else (["cancelled"] if r == 2 else [])

    def shield_flag(self) -> list:
        """1 in 3 shielded bodies ends by raising an error that the program catches around ignore_cancellation()"""
        return ["fail"] if self.draw(st.integers(0, 2)) == 0 else []

    def delay(self, span: int) -> int | None:
        """deadline offset of a scope / reschedule; `span` = nominal duration (units) of what it covers, so that most
        deadlines fall inside the covered code"""
        draw = self.draw
        whole = span // UNIT
        mode = draw(st.sampled_from(["in"] * 6 + ["beyond"] * 2 + ["none", "passed"]))
        if mode == "none":
            return None
        if mode == "passed":
            return 0
        if mode == "in":
            k = draw(st.integers(0, max(whole - 1, 0)))
        else:
            k = whole + draw(st.integers(0, 2))
        if self.ties:
            # deliberately on the grid of the sleeps: deadlines coincide with wake-ups, other deadlines, the external cancel
            return max(k, 1 if mode == "beyond" else 0) * UNIT + draw(st.sampled_from([0, 0, 0, UNIT // 2]))
        j = self.timer_no
        self.timer_no += 1
        if j >= 8:
            return None
        return k * UNIT + (UNIT >> (3 + j))  # unique binary fraction: distinct timers never coincide

    def sleep(self) -> int:
        draw = self.draw
        k = draw(st.sampled_from([0, 1, 1, 2, 2, 3, 4, 6]))
        if self.ties and k and draw(st.integers(0, 3)) == 0:
            return k * UNIT + UNIT // 2
        return k * UNIT

    def checkpoint(self) -> list:
        self.budget -= 1
        if self.draw(st.integers(0, 2)) == 0:
            return ["cp"]
        return ["sleep", self.sleep()] + self.fail_flag()

    def body(self, depth: int, nenv: int, max_items: int = 4, child: bool = False) -> list:
        draw = self.draw
        n = draw(st.integers(1, max_items))
        out: list = []
        for _ in range(n):
            if self.budget <= 0:
                break
            nodes = self.nodes(depth, nenv, child)
            out += nodes
            # a checkpoint right after a compound statement or a cancel is where pending cancellations show
            if nodes[-1][0] in ("shield", "scope", "group", "cancel", "resched") and self.budget > 0 and draw(st.integers(0, 9)) < 6:
                out.append(self.checkpoint())
        return out

    def nodes(self, depth: int, nenv: int, child: bool) -> list[list]:
        draw = self.draw
        compound = depth < MAX_DEPTH and self.budget >= 2
        if depth == 0:
            choices = ["sleep"] * 2 + ["cp"]
            if compound:
                choices += ["scope"] * 10 + ["shield"] * 2 + ["group"] * (2 if self.children_left and self.budget >= 3 else 0)
        else:
            choices = ["sleep"] * 5 + ["cp"] * 2
            if compound:
                choices += ["scope"] * 5 + ["shield"] * 3 + ["shielded-sleep"] * 2
                if self.children_left > 0 and self.budget >= 3:
                    choices += ["group"] * 2
            if nenv > 0:
                choices += ["cancel"] * (4 if child else 2) + ["resched"] * 2
            if nenv > 1 and self.budget >= 2:
                choices += ["double-cancel"]
        op = draw(st.sampled_from(choices))
        self.budget -= 1
        if op == "sleep":
            return [["sleep", self.sleep()] + self.fail_flag()]
        if op == "cp":
            return [["cp"]]
        if op == "cancel":
            return [["cancel", draw(st.integers(0, nenv - 1))]]
        if op == "double-cancel":
            self.budget -= 1
            a = draw(st.integers(0, nenv - 1))
            b = draw(st.integers(0, nenv - 2))
            return [["cancel", a], ["cancel", b if b < a else b + 1]]
        if op == "resched":
            return [["resched", draw(st.integers(0, nenv - 1)), self.delay(draw(st.integers(0, 5)) * UNIT)]]
        if op == "scope":
            kind = draw(st.sampled_from(scope_model.SCOPE_KINDS))
            body = self.body(depth + 1, nenv + 1, child=child)
            return [["scope", kind, self.delay(nominal_duration(body)), body]]
        if op == "shield":
            return [["shield", self.body(depth + 1, nenv, child=child)] + self.shield_flag()]
        if op == "shielded-sleep":
            self.budget -= 1
            return [["shield", [["sleep", draw(st.integers(1, 6)) * UNIT] + self.fail_flag()]] + self.shield_flag()]
        nchildren = draw(st.integers(1, self.children_left))
        self.children_left -= nchildren
        children = [self.body(depth + 1, nenv, max_items=3, child=True) for _ in range(nchildren)]
        return [["group", children, self.body(depth + 1, nenv, max_items=3, child=child) if self.budget > 0 else []]]


def _scope_nodes(program: list) -> dict[int, list]:
    """scope number (scope_model.scope_ids order) -> node"""
    out: dict[int, list] = {}

    def walk(body: list) -> None:
        for node in body:
            op = node[0]
            if op == "scope":
                out[len(out)] = node
                walk(node[3])
            elif op == "shield":
                walk(node[1])
            elif op == "group":
                for c in node[1]:
                    walk(c)
                walk(node[2])

    walk(program)
    return out


def repair_d6(program: list, ext: int | None) -> tuple[list, int]:
    """EXCLUDE_D6 by construction: where the reference interpreter says a scope would be cancelled while its task is
    suspended and then exit with no interrupt passing it (the shape of defect D6), change the program so that it does
    not: a scope around the shield gets a trailing checkpoint (the pending cancellation is then delivered inside it),
    a scope inside the shield loses its deadline.  Returns (program, number of repairs)."""
    repairs = 0
    for _ in range(4):
        model = scope_model.simulate(program, ext)
        if not model.d6_scopes:
            break
        nodes = _scope_nodes(program)
        for sid, shielded in model.d6_scopes:
            node = nodes[sid]
            repairs += 1
            if shielded or scope_model.count_nodes(program) >= MAX_NODES:
                node[2] = None
            else:
                node[3].append(["cp"])
    return program, repairs


def add_marks(program: list) -> list:
    """observation probes: a mark at the start of every body and after every other node, numbered in preorder"""
    counter = [0]

    def mark() -> list:
        counter[0] += 1
        return ["mark", counter[0]]

    def walk(body: list) -> list:
        out = [mark()]
        for node in body:
            op = node[0]
            if op == "scope":
                node = ["scope", node[1], node[2], walk(node[3])]
            elif op == "shield":
                node = ["shield", walk(node[1])] + list(node[2:])
            elif op == "group":
                node = ["group", [walk(c) for c in node[1]], walk(node[2])]
            out.append(node)
            out.append(mark())
        return out

    return walk(program)


@st.composite
def st_case(draw: st.DrawFn, tier: str, ties: bool | None) -> dict:
    if ties is None:
        ties = draw(st.booleans())
    budget = draw(st.integers(4, MAX_NODES))
    g = _Gen(draw, ties, budget)
    program = g.body(0, 0)
    ext: int | None = None
    turns = 0
    if draw(st.integers(0, 9)) < 5:
        k = draw(st.integers(0, nominal_duration(program) // UNIT + 1))
        if ties:
            ext = k * UNIT + draw(st.sampled_from([0, 0, UNIT // 2]))
            turns = draw(st.sampled_from([0, 0, 1, 2, 3]))
        else:
            ext = k * UNIT + draw(st.sampled_from([UNIT // 4, 3 * UNIT // 4]))
    case: dict[str, Any] = {"program": None, "ext": ext}
    if EXCLUDE_D6:
        program = json.loads(json.dumps(program))
        program, repairs = repair_d6(program, ext)
        if repairs:
            case["repaired_d6"] = repairs
    case["program"] = add_marks(program)
    if turns:
        case["ext_turns"] = turns
    return case


def st_exact(tier: str) -> Any:
    return st_case(tier, False)


def st_invariants(tier: str) -> Any:
    return st_case(tier, None)


CHECK = Check(
    id="C13",
    level="exploration",
    rule=(
        "case = program AST (<= 14 nodes besides the observation marks, depth <= 4, <= 2 task-group children) over "
        "Sleep/Checkpoint/wait on a future that fails (error handled)/Scope(5 public constructors, deadline)/Shield (body may end "
        "with a handled error)/scope.cancel()/scope.reschedule()/task-group "
        "children + optional external task.cancel() at a generated virtual time (and loop-turn offset in the tie class), "
        "run on the virtual-time loop; non-trivial = (lexical scope nesting >= 2 and a scope exits with cancel_called() "
        "while another scope is active or was active inside it) or (an ignore_cancellation block ends with a cancellation "
        "pending on its task); layer foreign-mix: 2-5 blocks (7 scope kinds incl. asyncio.timeout/timeout_at, delay 0 / k+1/2 units / never, "
        "bodies of unshielded and shielded checkpoints and sleeps, nesting <= 3), non-trivial = a shielded step swallowed an expired "
        "deadline and something ran afterwards; distinct = sha1 of the canonical case JSON"
    ),
    layers=[
        Layer("invariants", st_invariants, run_invariants, {"quick": 2500, "thorough": 12000}),
        Layer("exact", st_exact, run_exact, {"quick": 3000, "thorough": 16000}),
        c13_foreign.LAYER,
    ],
    assumptions=[
        "asyncio backend only (trio is not installed); time is the virtual clock of pbt.vloop; busy-run clock jumps are asserted to "
        "happen only where the reference interpreter expects a cancelled scope polling task.cancel()",
        "a TimeoutError raised by timeout()/timeout_at() is caught right outside its with-block so that programs keep a single "
        "exception type (CancelledError); 'TimeoutError iff cancelled_caught()' is still checked on every timeout scope",
        "exact comparison is skipped (invariants still checked) when the reference interpreter reports two timers due at the same "
        "virtual instant or a cross-task cancellation whose effect depends on the order of loop turns inside one instant",
        "when two nested scopes of one task are both cancelled the statement lets either catch; the reference takes that one choice "
        "from the observed cancelled_caught() and predicts everything else",
        "a child task is only expected to be interrupted by its own scopes and by its task group being cancelled (scopes are per "
        "task); 'checkpoint completed inside a cancelled scope' is judged against the scopes hosted by the running task",
        "task.cancel() calls are observed through a logging asyncio.Task subclass installed with loop.set_task_factory (harness-owned "
        "loop); a call whose message starts with 'Cancelled by cancel scope ' is attributed to that scope, any other to a foreign requester",
        "EXCLUDE_D5 (defect D5): when a task.cancel() not issued by a scope is pending on a task together with a cancelled scope of that "
        "task (reference shape, or observed at the scope's exit), delivery of that foreign cancel and the exact trace are not judged",
        "EXCLUDE_D6 (defect D6): the generator rewrites programs in which the reference sees a scope cancelled while its task is suspended "
        "and left without an interrupt (trailing checkpoint / no deadline); when the observed run still shows a scope that issued "
        "task.cancel() calls and exited without a CancelledError passing it, the leftover task.cancelling() count is not judged",
    ],
)
