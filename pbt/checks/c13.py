"""C13 — cancel scopes (DESIGN.md section 3, C13).

A case is a small *program* (JSON-able AST, grammar in `pbt/scope_model.py`) executed by one task on the
virtual-time loop against the real `AsyncIOBackend` cancel scopes / `ignore_cancellation` / task groups, plus one
optional external `task.cancel()` scheduled with `loop.call_at`.  Two oracles:

* `invariants` — run on every program, including programs whose timers are deliberately tied;
* `exact`      — the observable behaviour (marks reached with their virtual times, every scope's
  `cancelled_caught()`, exception leaving the program) must equal the prediction of the reference interpreter
  `scope_model.simulate`, for programs the interpreter declares free of ties and of loop-turn races.
"""

from __future__ import annotations

import asyncio
import json
import math
from typing import Any

from ..core import HarnessError, Violation
from ..scope_model import scope_ids
from ..vloop import Deadlock, run_virtual

UNIT = 1024  # program times are integers in 1/1024 s: exact in binary floating point

SCOPE_MSG_PREFIX = "Cancelled by cancel scope "

MOVE_ON_KINDS = ("move_on_after", "move_on_at", "open")
TIMEOUT_KINDS = ("timeout", "timeout_at")


def secs(units: int) -> float:
    return units / UNIT


class _RecTask(asyncio.Task):  # type: ignore[type-arg]
    """asyncio.Task whose cancel() calls are logged (who asked for a cancellation, and when).  Installed through the
    loop's public task factory; behaviour is otherwise untouched."""

    _c13_run: "RealRun | None" = None

    def cancel(self, msg: Any = None) -> bool:
        run = self._c13_run
        if run is not None:
            run.on_task_cancel(self, msg)
        return super().cancel(msg)


class _TaskCtx:
    def __init__(self, name: str) -> None:
        self.name = name
        self.shield = 0
        self.scopes: list[_ScopeRec] = []  # scopes hosted by this task, outermost first
        self.outcome: str | None = None


class _ScopeRec:
    def __init__(self, sid: int, kind: str, host: _TaskCtx) -> None:
        self.sid = sid
        self.kind = kind
        self.host = host
        self.obj: Any = None
        self.entered_at: float | None = None
        self.exited_at: float | None = None
        self.cancel_called = False
        self.caught = False
        self.exc_in: str | None = None
        self.exc_out: str | None = None
        self.timeout_raised = False
        self.own_cancel_calls = 0  # task.cancel(msg=<this scope's id>) calls observed
        self.foreign_pending_at_exit = False
        self.shielded_when_cancelled: bool | None = None


class RealRun:
    """Executes one program against the real backend and records what happened."""

    def __init__(self, program: list, ext: int | None) -> None:
        self.program = program = json.loads(json.dumps(program))  # distinct list objects for every node
        self.ext = ext
        self.sids = scope_ids(program)
        self.marks: list[tuple[int, float, str]] = []  # (mark id, virtual time, task name)
        self.scopes: dict[int, _ScopeRec] = {}
        self.by_obj_id: dict[str, _ScopeRec] = {}
        self.problems: list[Violation] = []
        self.foreign: dict[Any, float] = {}  # task -> time of the first cancel() not issued by a cancel scope
        self.tasks: dict[Any, _TaskCtx] = {}
        self.children: list[_TaskCtx] = []
        self.outcome: str | None = None
        self.end_time: float | None = None
        self.ext_requested_at: float | None = None
        self.cancelling_after: int | None = None
        self.epilogue: list[str] = []
        self.spin_jumps = 0
        self.ticks = 0
        self.notes: set[str] = set()
        self._child_no = 0
        self.loop: Any = None
        self.backend: Any = None

    # -- recording -------------------------------------------------------------------------------

    def problem(self, kind: str, message: str, **details: Any) -> None:
        self.problems.append(Violation(kind, message, **details))

    def on_task_cancel(self, task: Any, msg: Any) -> None:
        if isinstance(msg, str) and msg.startswith(SCOPE_MSG_PREFIX):
            rec = self.by_obj_id.get(msg[len(SCOPE_MSG_PREFIX) :])
            if rec is not None:
                rec.own_cancel_calls += 1
            return
        if task not in self.foreign:
            self.foreign[task] = self.loop.time()

    def foreign_pending(self, tc: _TaskCtx) -> bool:
        task = asyncio.current_task()
        return task in self.foreign

    # -- interpreter -----------------------------------------------------------------------------

    async def _body(self, body: list, env: list[_ScopeRec], tc: _TaskCtx) -> None:
        for node in body:
            await self._node(node, env, tc)

    async def _checkpoint(self, node: list, tc: _TaskCtx) -> None:
        op = node[0]
        try:
            if op == "cp":
                await self.backend.coro_yield()
            else:
                await self.backend.sleep(secs(node[1]))
        except asyncio.CancelledError:
            if tc.shield:
                self.problem("shield", f"task {tc.name}: {node} raised CancelledError inside ignore_cancellation", node=node)
            raise
        # the checkpoint completed normally
        if tc.shield:
            return
        for rec in tc.scopes:
            if rec.obj.cancel_called():
                self.problem(
                    "checkpoint-completed",
                    f"task {tc.name}: unshielded {node} completed at t={self.loop.time()} inside scope #{rec.sid} "
                    f"whose cancel_called() is already True",
                    node=node,
                    scope=rec.sid,
                )
                break
        if self.foreign_pending(tc):
            self.problem(
                "foreign-cancel-not-delivered",
                f"task {tc.name}: unshielded {node} completed at t={self.loop.time()} although task.cancel() was "
                f"requested at t={self.foreign[asyncio.current_task()]} and never delivered",
                node=node,
                task=tc.name,
            )

    async def _node(self, node: list, env: list[_ScopeRec], tc: _TaskCtx) -> None:
        op = node[0]
        loop = self.loop
        if op == "mark":
            self.marks.append((node[1], loop.time(), tc.name))
        elif op in ("cp", "sleep"):
            await self._checkpoint(node, tc)
        elif op == "cancel":
            if env:
                rec = env[-1 - (node[1] % len(env))]
                rec.obj.cancel()
        elif op == "resched":
            if env:
                rec = env[-1 - (node[1] % len(env))]
                when = math.inf if node[2] is None else loop.time() + secs(node[2])
                rec.obj.reschedule(when)
        elif op == "shield":
            tc.shield += 1
            try:
                await self.backend.ignore_cancellation(self._body(node[1], env, tc))
            except asyncio.CancelledError:
                self.problem("shield", f"task {tc.name}: ignore_cancellation(...) raised CancelledError", node="shield")
                raise
            finally:
                tc.shield -= 1
        elif op == "scope":
            await self._scope(node, env, tc)
        elif op == "group":
            await self._group(node, env, tc)
        else:
            raise HarnessError(f"unknown program node {node!r}")

    async def _scope(self, node: list, env: list[_ScopeRec], tc: _TaskCtx) -> None:
        _, kind, delay, body = node
        backend = self.backend
        loop = self.loop
        sid = self.sids[id(node)]
        rec = _ScopeRec(sid, kind, tc)
        self.scopes[sid] = rec
        now = loop.time()
        d = math.inf if delay is None else secs(delay)
        if kind == "move_on_after":
            cm = backend.move_on_after(d)
        elif kind == "timeout":
            cm = backend.timeout(d)
        elif kind == "open":
            cm = backend.open_cancel_scope(deadline=now + d)
        elif kind == "move_on_at":
            cm = backend.move_on_at(now + d)
        elif kind == "timeout_at":
            cm = backend.timeout_at(now + d)
        else:
            raise HarnessError(f"unknown scope kind {kind!r}")
        exc_in: BaseException | None = None
        exc_out: BaseException | None = None
        pushed = False
        try:
            try:
                with cm as scope:
                    rec.obj = scope
                    self.by_obj_id[f"{id(scope):x}"] = rec
                    rec.entered_at = now
                    tc.scopes.append(rec)
                    pushed = True
                    try:
                        await self._body(body, env + [rec], tc)
                    except BaseException as exc:
                        exc_in = exc
                        rec.foreign_pending_at_exit = self.foreign_pending(tc)
                        raise
            finally:
                if pushed:
                    tc.scopes.pop()
        except TimeoutError as exc:
            if kind in TIMEOUT_KINDS and exc is not exc_in:
                rec.timeout_raised = True  # raised by this scope's own __exit__; the program goes on
            else:
                exc_out = exc
                raise
        except BaseException as exc:
            exc_out = exc
            raise
        finally:
            self._after_scope(rec, tc, exc_in, exc_out)
            del exc_in, exc_out

    def _after_scope(self, rec: _ScopeRec, tc: _TaskCtx, exc_in: BaseException | None, exc_out: BaseException | None) -> None:
        scope = rec.obj
        if scope is None:
            return
        rec.exited_at = self.loop.time()
        rec.cancel_called = cc = bool(scope.cancel_called())
        rec.caught = caught = bool(scope.cancelled_caught())
        rec.exc_in = None if exc_in is None else type(exc_in).__name__
        rec.exc_out = None if exc_out is None else type(exc_out).__name__
        where = f"task {tc.name}: scope #{rec.sid} ({rec.kind})"
        cancelled_in = isinstance(exc_in, asyncio.CancelledError)
        if caught and not cc:
            self.problem("caught-without-cancel", f"{where}: cancelled_caught() is True but cancel_called() is False", scope=rec.sid)
        if caught and not cancelled_in:
            self.problem("caught-nothing", f"{where}: cancelled_caught() is True but no CancelledError reached it ({rec.exc_in})", scope=rec.sid)
        if rec.kind in TIMEOUT_KINDS:
            if rec.timeout_raised != caught:
                self.problem(
                    "timeout-iff-caught",
                    f"{where}: TimeoutError raised={rec.timeout_raised} but cancelled_caught()={caught}",
                    scope=rec.sid,
                )
        if caught and exc_out is not None:
            self.problem("caught-but-raised", f"{where}: cancelled_caught() is True but {rec.exc_out} left the scope", scope=rec.sid)
        if not caught and exc_in is not None and exc_out is not exc_in:
            self.problem(
                "exception-replaced",
                f"{where}: did not catch, {rec.exc_in} entered __exit__ but {rec.exc_out} came out",
                scope=rec.sid,
            )
        if not cc and cancelled_in and exc_out is not exc_in:
            self.problem("swallowed-foreign", f"{where}: was never cancelled but swallowed a CancelledError", scope=rec.sid)
        if cc and cancelled_in and not caught:
            if not any(r.obj.cancel_called() for r in tc.scopes) and not self.foreign_pending(tc):
                self.problem(
                    "escaped",
                    f"{where}: was cancelled, did not catch, and the CancelledError left it although no enclosing "
                    f"scope is cancelled and no task.cancel() was requested",
                    scope=rec.sid,
                )

    async def _group(self, node: list, env: list[_ScopeRec], tc: _TaskCtx) -> None:
        _, children, body = node
        async with self.backend.create_task_group() as tg:
            for child in children:
                self._child_no += 1
                tg.start_soon(self._child, child, list(env), f"child{self._child_no}")
            await self._body(body, env, tc)

    async def _child(self, prog: list, env: list[_ScopeRec], name: str) -> None:
        tc = _TaskCtx(name)
        self.children.append(tc)
        self.tasks[asyncio.current_task()] = tc
        try:
            await self._body(prog, env, tc)
            tc.outcome = "ok"
        except asyncio.CancelledError:
            tc.outcome = "cancelled"
            if not self.foreign_pending(tc):
                self.problem("child-cancelled", f"task {name} ended with CancelledError although nobody cancelled it", task=name)
            raise
        except BaseException as exc:
            tc.outcome = f"error:{type(exc).__name__}"
            raise

    # -- the program task ------------------------------------------------------------------------

    def _ext_cancel(self, task: Any) -> None:
        if task.done():
            return
        self.ext_requested_at = self.loop.time()
        task.cancel()

    async def _quiet_checkpoints(self, n: int, what: str) -> None:
        for i in range(n):
            try:
                await asyncio.sleep(0)
            except asyncio.CancelledError:
                self.epilogue.append(f"cancelled@{i}")
                self.problem(
                    "leftover-cancellation",
                    f"{what}: checkpoint #{i + 1} after the outermost scope exited raised CancelledError",
                )
                asyncio.current_task().uncancel()  # type: ignore[union-attr]

    async def _prog(self) -> None:
        task = asyncio.current_task()
        assert task is not None
        loop = self.loop
        tc = _TaskCtx("main")
        self.tasks[task] = tc
        entry = task.cancelling()
        handle = None
        if self.ext is not None:
            handle = loop.call_at(loop.time() + secs(self.ext), self._ext_cancel, task)
        try:
            await self._body(self.program, [], tc)
            self.outcome = "ok"
        except asyncio.CancelledError:
            self.outcome = "cancelled"
        except BaseException as exc:  # noqa: BLE001
            self.outcome = f"error:{type(exc).__name__}"
            self.problem("unexpected-exception", f"program raised {type(exc).__name__}: {exc}", exc=repr(exc))
        finally:
            if handle is not None:
                handle.cancel()
        self.end_time = loop.time()
        c = self.cancelling_after = task.cancelling() - entry
        ext_req = self.ext_requested_at is not None
        if self.outcome == "cancelled":
            if not ext_req:
                self.problem("escaped", "CancelledError left the outermost scope although no task.cancel() was requested")
            if c != (1 if ext_req else 0):
                self.problem(
                    "leftover-cancelling",
                    f"program ended with CancelledError, {int(ext_req)} external cancel(s), but task.cancelling() rose by {c}",
                    cancelling=c,
                )
            while task.cancelling() > entry:
                task.uncancel()
            await self._quiet_checkpoints(3, "after the delivered external cancel")
        elif self.outcome == "ok":
            if ext_req:
                # requested but not delivered: legal only if there was no unshielded checkpoint left, and then it is
                # a pending cancellation that the next checkpoint must deliver
                if c != 1:
                    self.problem(
                        "leftover-cancelling",
                        f"program ended normally with 1 undelivered external cancel but task.cancelling() rose by {c}",
                        cancelling=c,
                    )
                try:
                    await asyncio.sleep(0)
                except asyncio.CancelledError:
                    self.epilogue.append("pending-delivered")
                else:
                    self.problem(
                        "external-cancel-lost",
                        f"task.cancel() requested at t={self.ext_requested_at} was neither delivered inside the program nor at "
                        f"the first checkpoint after it (task.cancelling() rose by {c})",
                        cancelling=c,
                    )
                while task.cancelling() > entry:
                    task.uncancel()
                await self._quiet_checkpoints(3, "after the pending external cancel")
            else:
                if c != 0:
                    self.problem(
                        "leftover-cancelling",
                        f"program ended normally, no external cancel, but task.cancelling() rose by {c}",
                        cancelling=c,
                    )
                    while task.cancelling() > entry:
                        task.uncancel()
                await self._quiet_checkpoints(3, "no external cancel")

    async def _main(self) -> None:
        from easynetwork.lowlevel.api_async.backend._asyncio.backend import AsyncIOBackend

        self.loop = loop = asyncio.get_running_loop()
        self.backend = AsyncIOBackend()
        task_cls = type("_RecTaskRun", (_RecTask,), {"_c13_run": self})

        def factory(loop: Any, coro: Any, **kwargs: Any) -> Any:
            return task_cls(coro, loop=loop, **kwargs)

        loop.set_task_factory(factory)
        prog = loop.create_task(self._prog(), name="c13-program")
        await asyncio.wait({prog})
        loop.set_task_factory(None)
        self.spin_jumps = loop.spin_jumps
        self.ticks = loop.ticks
        if prog.cancelled():
            raise HarnessError("program task ended cancelled (harness swallowed nothing?)")
        exc = prog.exception()
        if exc is not None:
            raise exc

    def run(self) -> "RealRun":
        try:
            run_virtual(self._main, max_ticks=200_000)
        except Deadlock as exc:
            self.outcome = "deadlock"
            self.problem("hang", f"program did not terminate on the virtual loop: {exc}")
        return self

    def summary(self) -> dict:
        return {
            "outcome": self.outcome,
            "end": self.end_time,
            "marks": [(m, t, n) for m, t, n in self.marks],
            "scopes": {
                sid: (r.kind, r.cancel_called, r.caught, r.exc_in, r.exc_out, r.own_cancel_calls, r.exited_at)
                for sid, r in sorted(self.scopes.items())
            },
            "children": [(c.name, c.outcome) for c in self.children],
            "cancelling_after": self.cancelling_after,
            "epilogue": self.epilogue,
            "spin_jumps": self.spin_jumps,
            "ticks": self.ticks,
            "problems": [str(p) for p in self.problems],
        }
