"""C14 — closing releases the underlying resource at every cancellation point (DESIGN.md section 3, C14).

Each generated scenario is first run uncancelled to measure its n task steps, then re-run with a cancellation
delivered at every step k < n, once as task.cancel() and once from an enclosing cancel scope (exhaustive per
scenario)."""

from __future__ import annotations

import asyncio
import logging
from typing import Any

from hypothesis import strategies as st

from easynetwork.clients.async_tcp import AsyncTCPNetworkClient
from easynetwork.lowlevel.api_async.backend._asyncio.backend import AsyncIOBackend
from easynetwork.lowlevel.api_async.endpoints.stream import AsyncStreamEndpoint
from easynetwork.lowlevel.api_async.transports.composite import AsyncStapledDatagramTransport, AsyncStapledStreamTransport
from easynetwork.protocol import StreamProtocol
from easynetwork.serializers.line import StringLineSerializer

from .. import tlsharness
from ..core import Check, HarnessError, Layer, Outcome, Violation, raise_preferring_unknown
from ..memtransports import MemDatagramTransport, MemStreamTransport, VerifBackend
from ..steps import stepped
from ..vloop import Deadlock, run_virtual

MAX_STEPS = 120
ERRS = ["ConnectionResetError", "BrokenPipeError", "OSError", "ValueError"]


class _Inject:
    """hook for `stepped`: counts steps; delivers the cancellation right before step k"""

    def __init__(self, mode: str | None, k: int | None) -> None:
        self.mode = mode
        self.k = k
        self.steps = 0
        self.fired = False
        self.task: asyncio.Task | None = None
        self.scope: Any = None

    def __call__(self, step: int) -> None:
        self.steps = step + 1
        if self.k is not None and step == self.k and not self.fired:
            self.fired = True
            if self.mode == "task":
                assert self.task is not None
                self.task.cancel()
            else:
                self.scope.cancel()


async def _run_close(backend: Any, make_close_coro: Any, inj: _Inject) -> dict:
    """run the close path in its own task, with the injection; returns how it ended"""

    caught = {"v": False}

    async def body() -> None:
        if inj.mode == "scope":
            with backend.open_cancel_scope() as scope:
                inj.scope = scope
                await stepped(make_close_coro(), inj)
            caught["v"] = scope.cancelled_caught()
        else:
            await stepped(make_close_coro(), inj)

    task = asyncio.create_task(body())
    inj.task = task
    done, _ = await asyncio.wait([task])
    out = {"cancelled": task.cancelled() or caught["v"], "exception": None, "steps": inj.steps}
    if not task.cancelled() and task.exception() is not None:
        out["exception"] = type(task.exception()).__name__
        out["exception_obj"] = task.exception()
    return out


async def _second_close(obj: Any) -> tuple[int, float]:
    loop = asyncio.get_running_loop()
    t0, k0 = loop.time(), loop.ticks  # type: ignore[attr-defined]
    await obj.aclose()
    return loop.ticks - k0, loop.time() - t0  # type: ignore[attr-defined]


def _rebase_fail(mem: Any, fail: dict) -> None:
    """scripted failures are relative to the start of the close path"""
    out: dict[str, dict[str, str]] = {}
    for op, table in (fail or {}).items():
        base = mem.calls.get(op, 0)
        out[op] = {str(base + int(i)): name for i, name in table.items()}
    mem.script["fail"] = out


# ----------------------------------------------------------------------------------------------
# scenarios: each returns (end_info, facts) where facts = {"underlying": [(name, closed)], "outer_closing": bool|None,
# "second": (ticks, dt)|None}


async def _sc_tls_aclose(case: dict, inj: _Inject) -> dict:
    backend, mem, peer, wire = tlsharness.new_session(case)
    wire.auto_close_reply = case["peer_reply"] in ("prompt", "closed-first")
    conductor = asyncio.create_task(wire.conductor())
    try:
        tls = await tlsharness.wrap_sut(case, mem, shutdown_timeout=case.get("shutdown_timeout", 30.0))
        if case["peer_reply"] == "closed-first":
            # the peer sends its close_notify first and the application reads the clean EOF before closing
            peer.close()
            wire.kick()
            if await tls.recv(1024) != b"":
                raise HarnessError("expected EOF after the peer's close_notify")
        if case["peer_reply"] == "late":

            def reply() -> None:
                peer.close()
                wire.kick()

            asyncio.get_running_loop().call_later(case.get("late_delay", 5.0), reply)
        # let ciphertext that is already in flight (e.g. TLS 1.3 session tickets) reach the wrapped transport first
        await wire.wait_until(lambda: not wire.to_sut)
        mem.script.update({k: v for k, v in case.get("close_script", {}).items() if k != "fail"})
        _rebase_fail(mem, case.get("close_script", {}).get("fail", {}))
        t0 = asyncio.get_running_loop().time()
        end = await _run_close(backend, tls.aclose, inj)
        end["duration"] = asyncio.get_running_loop().time() - t0
        facts = {"underlying": [("wrapped", mem.closed)], "outer_closing": tls.is_closing()}
        mem.script["fail"] = {}
        facts["second"] = await _second_close(tls)
        return {"end": end, "facts": facts}
    finally:
        wire.stop = True
        wire.kick()
        conductor.cancel()
        await asyncio.gather(conductor, return_exceptions=True)


async def _sc_tls_wrap(case: dict, inj: _Inject) -> dict:
    backend, mem, peer, wire = tlsharness.new_session(case)
    behaviour = case["peer"]
    conductor = None
    if behaviour == "normal":
        conductor = asyncio.create_task(wire.conductor())
    elif behaviour == "garbage":
        mem.feed(b"\x16\x03\x01\x00\x05hello-this-is-not-tls" * 3)
    elif behaviour == "reset":
        asyncio.get_running_loop().call_later(1.0, mem.feed_error, ConnectionResetError(104, "reset"))
    elif behaviour == "eof":
        asyncio.get_running_loop().call_later(1.0, mem.feed_eof)
    elif behaviour == "stall":
        pass
    else:
        raise HarnessError(behaviour)
    mem.script.update({k: v for k, v in case.get("close_script", {}).items() if k != "fail"})
    _rebase_fail(mem, case.get("close_script", {}).get("fail", {}))
    holder: dict[str, Any] = {}

    async def do_wrap() -> None:
        holder["tls"] = await tlsharness.wrap_sut(case, mem, handshake_timeout=case.get("handshake_timeout", 10.0))

    try:
        end = await _run_close(backend, do_wrap, inj)
        facts: dict[str, Any] = {"underlying": [], "outer_closing": None, "second": None}
        if "tls" in holder:
            # wrap() returned the transport to its caller (even if the caller's task was cancelled right after the return):
            # nothing must be closed by wrap(); close it now (not part of the path under test)
            facts["wrap_ok"] = True
            try:
                with backend.move_on_after(0):
                    await holder["tls"].aclose()
            except Exception:  # noqa: BLE001 - scripted aclose_error of the wrapped transport, not under test here
                pass
        else:
            facts["wrap_ok"] = False
            facts["underlying"] = [("wrapped", mem.closed)]
        return {"end": end, "facts": facts}
    finally:
        wire.stop = True
        wire.kick()
        if conductor is not None:
            conductor.cancel()
            await asyncio.gather(conductor, return_exceptions=True)


async def _sc_stapled(case: dict, inj: _Inject) -> dict:
    backend = AsyncIOBackend()
    if case["path"] == "stapled-stream":
        a = MemStreamTransport(backend, name="send", script=case["send_script"])
        b = MemStreamTransport(backend, name="recv", script=case["recv_script"])
        outer: Any = AsyncStapledStreamTransport(a, b)
    else:
        a = MemDatagramTransport(backend, script=case["send_script"])  # type: ignore[assignment]
        b = MemDatagramTransport(backend, script=case["recv_script"])  # type: ignore[assignment]
        outer = AsyncStapledDatagramTransport(a, b)
    end = await _run_close(backend, outer.aclose, inj)
    facts = {"underlying": [("send_half", a.closed), ("recv_half", b.closed)], "outer_closing": outer.is_closing()}
    a.script.pop("aclose_error", None)
    b.script.pop("aclose_error", None)
    facts["second"] = await _second_close(outer)
    return {"end": end, "facts": facts}


async def _sc_endpoint(case: dict, inj: _Inject) -> dict:
    backend = AsyncIOBackend()
    mem = MemStreamTransport(backend, script=case["mem_script"])
    ep = AsyncStreamEndpoint(mem, StreamProtocol(StringLineSerializer()), max_recv_size=1024)
    end = await _run_close(backend, ep.aclose, inj)
    facts = {"underlying": [("transport", mem.closed)], "outer_closing": ep.is_closing()}
    mem.script.pop("aclose_error", None)
    facts["second"] = await _second_close(ep)
    return {"end": end, "facts": facts}


async def _sc_client(case: dict, inj: _Inject) -> dict:
    backend = VerifBackend()
    script = dict(case["mem_script"])
    mem = MemStreamTransport(backend, script=script)
    backend.connect_transports.append(mem)
    client = AsyncTCPNetworkClient(("localhost", 9000), StreamProtocol(StringLineSerializer()), backend)
    await client.wait_connected()
    sender = None
    if case["contention"]:
        # another task is in the middle of send_packet, parked on backpressure and holding the client's send lock
        mem.set_writable(False)
        sender = asyncio.create_task(client.send_packet("parked"))
        for _ in range(5):
            await asyncio.sleep(0)
        if mem.pending_senders != 1:
            raise HarnessError("sender not parked")
        if case.get("unblock_after") is not None:
            asyncio.get_running_loop().call_later(case["unblock_after"], mem.set_writable, True)
    try:
        end = await _run_close(backend, client.aclose, inj)
        facts = {"underlying": [("transport", mem.closed)], "outer_closing": client.is_closing()}
        facts["contention_still_parked"] = bool(sender is not None and not sender.done())
        if not (sender is not None and not sender.done()):
            mem.script.pop("aclose_error", None)
            facts["second"] = await _second_close(client)
        else:
            facts["second"] = None
        return {"end": end, "facts": facts}
    finally:
        if sender is not None:
            sender.cancel()
            await asyncio.gather(sender, return_exceptions=True)


async def _sc_client_unused_socket(case: dict, inj: _Inject) -> dict:
    """A client built from an already connected socket.socket owns it ("You must close the client to close the socket"):
    aclose() before the client was ever connected (no wait_connected(), no I/O) must still close that socket."""
    import socket as _socket

    from easynetwork.clients.async_udp import AsyncUDPNetworkClient
    from easynetwork.protocol import DatagramProtocol

    backend = AsyncIOBackend()
    udp = case["proto"] == "udp"
    peer = None
    if udp:
        sock = _socket.socket(_socket.AF_INET, _socket.SOCK_DGRAM)
        sock.bind(("127.0.0.1", 0))
        sock.connect(("127.0.0.1", 9))
        client: Any = AsyncUDPNetworkClient(sock, DatagramProtocol(StringLineSerializer()), backend)
    else:
        lst = _socket.socket(_socket.AF_INET, _socket.SOCK_STREAM)
        lst.bind(("127.0.0.1", 0))
        lst.listen(1)
        sock = _socket.socket(_socket.AF_INET, _socket.SOCK_STREAM)
        sock.connect(lst.getsockname())
        peer, _ = lst.accept()
        lst.close()
        client = AsyncTCPNetworkClient(sock, StreamProtocol(StringLineSerializer()), backend)
    try:
        end = await _run_close(backend, client.aclose, inj)
        facts: dict[str, Any] = {"underlying": [("socket-given-to-the-client", sock.fileno() == -1)], "outer_closing": client.is_closing()}
        facts["second"] = await _second_close(client)
        return {"end": end, "facts": facts}
    finally:
        sock.close()
        if peer is not None:
            peer.close()


async def _sc_listener(case: dict, inj: _Inject) -> dict:
    """ListenerSocketAdapter.aclose() on a real listening socket (loopback), with or without a serve() task parked in accept"""
    import socket as _socket

    from easynetwork.lowlevel.api_async.backend._asyncio.stream.listener import AcceptedSocketFactory, ListenerSocketAdapter

    backend = AsyncIOBackend()
    sock = _socket.socket(_socket.AF_INET, _socket.SOCK_STREAM)
    serve_task = None
    try:
        sock.bind(("127.0.0.1", 0))
        sock.listen(5)
        listener = ListenerSocketAdapter(backend, sock, AcceptedSocketFactory())
        if case["accept_pending"]:

            async def serve() -> None:
                async def handler(stream: Any) -> None:
                    await stream.aclose()

                async with backend.create_task_group() as tg:
                    await listener.serve(handler, tg)

            serve_task = asyncio.create_task(serve())
            for _ in range(case["serve_ticks"]):
                await asyncio.sleep(0)
        end = await _run_close(backend, listener.aclose, inj)
        for _ in range(3):
            await asyncio.sleep(0)
        facts: dict[str, Any] = {"underlying": [("listening-socket", sock.fileno() == -1)], "outer_closing": listener.is_closing()}
        facts["second"] = await _second_close(listener)
        return {"end": end, "facts": facts}
    finally:
        if serve_task is not None:
            serve_task.cancel()
            await asyncio.gather(serve_task, return_exceptions=True)
        sock.close()


async def _sc_udp_client(case: dict, inj: _Inject) -> dict:
    """AsyncUDPNetworkClient.aclose(), optionally while another task is parked in send_packet() (datagram flow control)
    and holds the client's send lock"""
    from easynetwork.clients.async_udp import AsyncUDPNetworkClient
    from easynetwork.protocol import DatagramProtocol

    from ..memtransports import MemDatagramTransport

    backend = VerifBackend()
    mem = MemDatagramTransport(backend, script={k: v for k, v in case["mem_script"].items() if k in ("aclose_yields",)})
    backend.connect_dgram_transports.append(mem)
    client = AsyncUDPNetworkClient(("localhost", 9000), DatagramProtocol(StringLineSerializer()), backend)
    await client.wait_connected()
    sender = None
    if case["contention"]:
        mem.set_writable(False)
        sender = asyncio.create_task(client.send_packet("parked"))
        for _ in range(5):
            await asyncio.sleep(0)
        if mem.pending_senders != 1:
            raise HarnessError("datagram sender not parked")
        if case.get("unblock_after") is not None:
            asyncio.get_running_loop().call_later(case["unblock_after"], mem.set_writable, True)
    try:
        end = await _run_close(backend, client.aclose, inj)
        facts = {"underlying": [("datagram-transport", mem.closed)], "outer_closing": client.is_closing()}
        facts["contention_still_parked"] = bool(sender is not None and not sender.done())
        if not (sender is not None and not sender.done()):
            facts["second"] = await _second_close(client)
        else:
            facts["second"] = None
        return {"end": end, "facts": facts}
    finally:
        if sender is not None:
            sender.cancel()
            await asyncio.gather(sender, return_exceptions=True)


async def _sc_adapter(case: dict, inj: _Inject) -> dict:
    """AsyncioTransportStreamSocketAdapter.aclose over the fake selector transport, with or without unsent data"""
    from easynetwork.lowlevel.api_async.backend._asyncio.stream.socket import AsyncioTransportStreamSocketAdapter, StreamReaderBufferedProtocol

    from ..fakeasyncio import FakeAsyncioTransport

    loop = asyncio.get_running_loop()
    backend = AsyncIOBackend()
    protocol = StreamReaderBufferedProtocol(loop=loop)
    transport = FakeAsyncioTransport(loop, protocol, kernel_capacity=case["capacity"])
    adapter = AsyncioTransportStreamSocketAdapter(backend, transport, protocol)
    sender = None
    if case["pending_bytes"]:
        sender = asyncio.create_task(adapter.send_all(b"x" * case["pending_bytes"]))
        for _ in range(3):
            await asyncio.sleep(0)
    if case.get("peer_drains_after") is not None:

        def peer_reads_everything() -> None:
            transport.kernel_capacity = None
            transport.max_send = None
            transport.drain(None)

        loop.call_later(case["peer_drains_after"], peer_reads_everything)
    if case.get("lost_after") is not None:
        loop.call_later(case["lost_after"], transport.lose_connection, ConnectionResetError(104, "reset"))
    try:
        end = await _run_close(backend, adapter.aclose, inj)
        facts: dict[str, Any] = {"underlying": [("asyncio-transport", transport.is_closing())], "outer_closing": adapter.is_closing(), "second": None}
        if end["cancelled"]:
            # "If aclose() is cancelled, the transport is closed abruptly": the socket must be released now, not when (if
            # ever) the peer has read the unsent data; and the second close below gets no help from the harness
            for _ in range(5):
                await asyncio.sleep(0)
            facts["underlying"].append(("socket-after-cancelled-close", transport._sock is None))
            facts["unsent_at_cancel"] = transport.get_write_buffer_size()
        else:
            # the first close returned or failed: once the connection is gone (here: the peer drops it), a second close from
            # a task nobody cancelled must return promptly
            transport.abort()
            for _ in range(3):
                await asyncio.sleep(0)
        try:
            facts["second"] = await _second_close(adapter)
        except asyncio.CancelledError:
            if asyncio.current_task().cancelling():  # type: ignore[union-attr]
                raise
            facts["second_error"] = "CancelledError"
        except Exception as exc:  # noqa: BLE001
            facts["second_error"] = type(exc).__name__
        return {"end": end, "facts": facts}
    finally:
        transport.abort()
        if sender is not None:
            sender.cancel()
            await asyncio.gather(sender, return_exceptions=True)
        for _ in range(3):
            await asyncio.sleep(0)


async def _sc_server_client(case: dict, inj: _Inject) -> dict:
    """server-side client object of a running AsyncTCPNetworkServer: aclose() called from the request handler (optionally
    while another task of the handler is parked inside send_packet), then the client task's own teardown"""
    from easynetwork.servers.async_tcp import AsyncTCPNetworkServer
    from easynetwork.servers.handlers import AsyncStreamRequestHandler

    backend = VerifBackend()
    result: dict[str, Any] = {}
    handler_done = asyncio.Event()

    class H(AsyncStreamRequestHandler):
        async def handle(self, client: Any):  # noqa: ANN202
            yield
            try:
                async with client.backend().create_task_group() as tg:
                    if case["contention"]:
                        mem.set_writable(False)

                        async def parked() -> None:
                            try:
                                await client.send_packet("parked")
                            except Exception:  # noqa: BLE001
                                pass

                        tg.start_soon(parked)
                        for _ in range(5):
                            await asyncio.sleep(0)
                        # the peer eventually reads again (otherwise an un-cancelled aclose() legitimately waits for ever)
                        asyncio.get_running_loop().call_later(2.0, mem.set_writable, True)
                    try:
                        if inj.mode == "scope":
                            with client.backend().open_cancel_scope() as scope:
                                inj.scope = scope
                                await stepped(client.aclose(), inj)
                        else:
                            inj.task = asyncio.current_task()
                            await stepped(client.aclose(), inj)
                    except asyncio.CancelledError:
                        result["ended"] = "cancelled"
                        raise
                    except BaseException as exc:  # noqa: BLE001
                        result["ended"] = type(exc).__name__
                        raise
                    else:
                        result["ended"] = "returned"
                    finally:
                        result["closed_right_after"] = mem.closed
                        result["closing_right_after"] = client.is_closing()
                        result["steps"] = inj.steps
            finally:
                handler_done.set()

    srv = AsyncTCPNetworkServer(None, 0, StreamProtocol(StringLineSerializer()), H(), backend)
    up = asyncio.Event()
    serve_task = asyncio.create_task(srv.serve_forever(is_up_event=up))
    await up.wait()
    mem = MemStreamTransport(backend, script=case["mem_script"])
    backend.tcp_listeners[0].connect(mem)
    mem.feed(b"go\n")
    await handler_done.wait()
    # the client task's own teardown follows the handler's end; give it a bounded number of iterations
    for _ in range(50):
        if mem.closed:
            break
        await asyncio.sleep(0)
    facts = {
        # closed when the handler's own aclose() call ended (however it ended) - not only after the server tore the client task down
        "underlying": [("transport-right-after-aclose", bool(result.get("closed_right_after"))), ("transport-after-teardown", mem.closed)],
        "outer_closing": result.get("closing_right_after"),
        "second": None,
        "closed_right_after": result.get("closed_right_after"),
    }
    end = {"cancelled": result.get("ended") == "cancelled" or (inj.mode == "scope" and inj.fired), "exception": None, "steps": result.get("steps", 0)}
    if result.get("ended") not in ("cancelled", "returned", None):
        end["exception"] = result["ended"]
    await srv.shutdown()
    await serve_task
    await srv.server_close()
    return {"end": end, "facts": facts}


async def _sc_client_connecting(case: dict, inj: _Inject) -> dict:
    """AsyncTCPNetworkClient that is still connecting: a send_packet() started the (slow) connection and holds the send
    lock meanwhile; aclose() must abort the attempt instead of waiting for it"""
    backend = VerifBackend()
    mem = MemStreamTransport(backend, script=case["mem_script"])
    backend.connect_transports.append(mem)
    backend.connect_gate = asyncio.Event()
    client = AsyncTCPNetworkClient(("localhost", 9000), StreamProtocol(StringLineSerializer()), backend)
    starter = asyncio.create_task(client.send_packet("first") if case["starter"] == "send" else client.wait_connected())
    for _ in range(case["start_ticks"]):
        await asyncio.sleep(0)
    if case.get("connect_completes_after") is not None:
        asyncio.get_running_loop().call_later(case["connect_completes_after"], backend.connect_gate.set)
    try:
        end = await _run_close(backend, client.aclose, inj)
        # a transport that was handed to the client before/while closing must be closed; one that never left the backend's
        # queue was never opened
        handed_out = mem not in backend.connect_transports
        facts: dict[str, Any] = {
            "underlying": [("transport", mem.closed)] if handed_out else [],
            "outer_closing": client.is_closing(),
            "second": None,
        }
        if not starter.done():
            for _ in range(10):
                await asyncio.sleep(0)
        facts["starter_done"] = starter.done()
        facts["second"] = await _second_close(client)
        return {"end": end, "facts": facts}
    finally:
        backend.connect_gate.set()
        if not starter.done():
            starter.cancel()
        await asyncio.gather(starter, return_exceptions=True)
        if not mem.closed:
            await mem.aclose()


SCENARIOS = {
    "client-connecting": _sc_client_connecting,
    "adapter": _sc_adapter,
    "server-client": _sc_server_client,
    "tls-aclose": _sc_tls_aclose,
    "tls-wrap": _sc_tls_wrap,
    "stapled-stream": _sc_stapled,
    "stapled-datagram": _sc_stapled,
    "endpoint": _sc_endpoint,
    "client": _sc_client,
    "udp-client": _sc_udp_client,
    "listener": _sc_listener,
    "client-unused-socket": _sc_client_unused_socket,
}


def _one_run(case: dict, mode: str | None, k: int | None) -> dict:
    inj = _Inject(mode, k)
    try:
        return run_virtual(SCENARIOS[case["path"]], case, inj, max_ticks=400_000, real_wait_s=0.5 if case["path"] == "listener" else 0.0)
    except Deadlock as exc:
        raise Violation(
            "deadlock", f"close path did not finish (inject={mode}@{k}): {exc}", path=case["path"], inject_mode=mode, inject_step=k
        ) from exc


def _judge(case: dict, r: dict, mode: str | None, k: int | None) -> None:
    facts, end = r["facts"], r["end"]
    where = {
        "path": case["path"],
        "inject_mode": mode,
        "inject_step": k,
        "ended": "cancelled" if end["cancelled"] else (end["exception"] or "returned"),
        "contention": bool(case.get("contention")),
    }
    if case["path"] == "tls-wrap" and facts.get("wrap_ok"):
        return
    if case["path"] in ("client", "udp-client") and facts.get("contention_still_parked") and not end["cancelled"] and end["exception"] is None:
        raise HarnessError("client close returned while the sender still holds the lock?")
    for name, closed in facts["underlying"]:
        if not closed:
            raise Violation(
                "not-closed",
                f"{case['path']}: {name} transport still open after the close task ended ({where['ended']}; inject={mode}@{k})",
                resource=name,
                **where,
            )
    if facts.get("outer_closing") is False:
        raise Violation("not-closing", f"{case['path']}: is_closing() is False after the close task ended ({where['ended']})", **where)
    if case["path"] == "client-connecting" and facts.get("starter_done") is False:
        raise Violation("pending-operation-not-aborted", f"client-connecting: the operation that was connecting is still pending after the close task ended ({where['ended']})", **where)
    if facts.get("second_error"):
        raise Violation(
            "second-close-failed", f"{case['path']}: a second close() from an uncancelled task raised {facts['second_error']} (first close {where['ended']})", **where
        )
    sec = facts.get("second")
    if sec is not None:
        ticks, dt = sec
        if dt > 0 or ticks > 10:
            raise Violation("second-close-slow", f"{case['path']}: second close took {ticks} loop iterations / {dt}s virtual", **where)


def run_case(case: dict) -> Outcome:
    logging.disable(logging.CRITICAL)
    base = _one_run(case, None, None)
    _judge(case, base, None, None)
    n = base["end"]["steps"]
    if n <= MAX_STEPS:
        ks = list(range(n))
        exhaustive = True
    else:  # very long paths (byte-wise delivery of a large flight): first/last 40 steps and a stride in between
        ks = sorted(set(range(40)) | set(range(n - 40, n)) | set(range(40, n - 40, max(1, n // 40))))
        exhaustive = False
    runs = 1
    landed_inside = 0
    violations: list[Violation] = []
    for mode in ("task", "scope"):
        for k in ks:
            try:
                r = _one_run(case, mode, k)
                _judge(case, r, mode, k)
            except Violation as v:
                violations.append(v)
            runs += 1
            if 0 < k < n - 1:
                landed_inside += 1
    raise_preferring_unknown("C14", case, violations)
    classes = [case["path"], f"steps-{min(n, 9)}", "all-steps" if exhaustive else "sampled-steps", "ended-" + ("error" if base["end"]["exception"] else "ok")]
    if case.get("contention"):
        classes.append("contention")
    if case.get("peer_reply"):
        classes.append(f"peer-{case['peer_reply']}")
    if case.get("peer"):
        classes.append(f"hs-{case['peer']}")
    return Outcome(nontrivial=landed_inside > 0, classes=tuple(classes), note=f"steps={n} runs={runs}")


# ----------------------------------------------------------------------------------------------
# strategies


def st_close_script() -> st.SearchStrategy[dict]:
    fail = st.one_of(
        st.just({}),
        st.fixed_dictionaries({"send_all": st.dictionaries(st.sampled_from(["0", "1"]), st.sampled_from(ERRS), min_size=1, max_size=1)}),
        st.fixed_dictionaries({"recv_into": st.dictionaries(st.sampled_from(["0", "1"]), st.sampled_from(ERRS), min_size=1, max_size=1)}),
    )
    return st.fixed_dictionaries(
        {
            "aclose_yields": st.integers(0, 3),
            "aclose_error": st.sampled_from([None, None, "OSError", "ConnectionResetError"]),
            "send_yield": st.lists(st.integers(0, 2), min_size=1, max_size=3),
            "fail": fail,
        }
    )


def st_mem_script() -> st.SearchStrategy[dict]:
    return st.fixed_dictionaries(
        {
            "aclose_yields": st.integers(0, 4),
            "aclose_error": st.sampled_from([None, None, "OSError", "ConnectionResetError", "ValueError"]),
        }
    )


@st.composite
def st_case(draw: st.DrawFn, tier: str) -> dict:
    path = draw(
        st.sampled_from(
            ["tls-aclose", "tls-aclose", "tls-wrap", "stapled-stream", "stapled-datagram", "endpoint", "client", "client", "udp-client", "listener", "client-unused-socket", "client-connecting", "adapter", "adapter", "server-client", "server-client"]
        )
    )
    if path == "tls-aclose":
        return {
            "path": path,
            "sut_role": draw(st.sampled_from(["client", "server"])),
            "version": draw(st.sampled_from(["1.2", "1.3"])),
            "standard_compatible": draw(st.sampled_from([True, True, True, False])),
            "peer_reply": draw(st.sampled_from(["prompt", "late", "never", "closed-first"])),
            "late_delay": draw(st.sampled_from([0.5, 5.0, 29.5])),
            "shutdown_timeout": draw(st.sampled_from([30.0, 30.0, 0.0, 0.5])),
            "frag_to_sut": draw(st.sampled_from([[1 << 20], [7], [1]])),
            "frag_to_peer": [1 << 20],
            "delays": draw(st.sampled_from([[0.0], [0.01]])),
            "mem_script": {},
            "close_script": draw(st_close_script()),
        }
    if path == "tls-wrap":
        return {
            "path": path,
            "sut_role": draw(st.sampled_from(["client", "server"])),
            "version": draw(st.sampled_from(["1.2", "1.3"])),
            "peer": draw(st.sampled_from(["normal", "normal", "normal", "stall", "garbage", "reset", "eof"])),
            "handshake_timeout": 10.0,
            "frag_to_sut": draw(st.sampled_from([[1 << 20], [300], [100]])),
            "frag_to_peer": [1 << 20],
            "delays": draw(st.sampled_from([[0.0], [0.01]])),
            "mem_script": {},
            "close_script": draw(st_close_script()),
        }
    if path in ("stapled-stream", "stapled-datagram"):
        return {"path": path, "send_script": draw(st_mem_script()), "recv_script": draw(st_mem_script())}
    if path == "endpoint":
        return {"path": path, "mem_script": draw(st_mem_script())}
    if path == "client-connecting":
        return {
            "path": path,
            "starter": draw(st.sampled_from(["send", "send", "wait_connected"])),
            "start_ticks": draw(st.integers(1, 4)),
            # the connection attempt never completes by itself (None) or completes later: aclose() must not depend on it
            "connect_completes_after": draw(st.sampled_from([None, None, 50.0])),
            "mem_script": {"aclose_yields": draw(st.integers(0, 2)), "aclose_error": None},
        }
    if path == "adapter":
        pending = draw(st.sampled_from([0, 0, 10, 5000]))
        drains = draw(st.sampled_from([None, 1.0, 3.0])) if pending else None
        lost = draw(st.sampled_from([None, None, 2.0]))
        if pending and drains is None and lost is None:
            drains = 1.0  # otherwise an un-cancelled close legitimately waits for ever for the unsent data
        return {
            "path": path,
            "capacity": draw(st.sampled_from([None, 0, 4])) if pending else None,
            "pending_bytes": pending,
            "peer_drains_after": drains,
            "lost_after": lost,
        }
    if path == "server-client":
        # no scripted aclose() error here: an exception from transport.aclose() during the client task's teardown escapes
        # into the server's task group (observation recorded in DESIGN 7.4; outside the statement of C14)
        return {"path": path, "contention": draw(st.booleans()), "mem_script": {"aclose_yields": draw(st.integers(0, 4)), "aclose_error": None}}
    if path == "client-unused-socket":
        return {"path": path, "proto": draw(st.sampled_from(["tcp", "udp"]))}
    if path == "listener":
        return {"path": path, "accept_pending": draw(st.sampled_from([True, True, False])), "serve_ticks": draw(st.integers(1, 4))}
    contention = draw(st.booleans())
    if path == "udp-client":
        return {
            "path": path,
            "contention": contention,
            "unblock_after": draw(st.sampled_from([1.0, 3.0])) if contention else None,
            "mem_script": {"aclose_yields": draw(st.integers(0, 3))},
        }
    return {
        "path": "client",
        "contention": contention,
        "unblock_after": draw(st.sampled_from([1.0, 3.0])) if contention else None,
        "mem_script": draw(st_mem_script()),
    }


CHECK = Check(
    id="C14",
    level="fault_enumeration",
    rule=(
        "scenario = close path (TLS aclose with prompt/late/never close_notify reply; TLS wrap with normal/stalled/garbage/"
        "reset/eof handshake; stapled stream/datagram transports; stream endpoint; AsyncTCPNetworkClient with or without a "
        "sender parked on backpressure; AsyncUDPNetworkClient likewise (datagram flow control); ListenerSocketAdapter on a real loopback "
        "listening socket with or without a pending accept; AsyncioTransportStreamSocketAdapter over a fake selector transport with unsent data; "
        "the server-side client of a running AsyncTCPNetworkServer closed from its handler (judged right after the aclose() call ended and again after the client task's teardown)) x scripted errors/suspensions of the wrapped transport's aclose/send_all/recv_into; "
        "each scenario is run uncancelled to count its n task steps, then re-run with a cancellation delivered before every "
        "step k<n, as task.cancel() and from an enclosing scope (exhaustive per scenario); non-trivial = a cancellation "
        "landed strictly between the first and the last await; distinct = sha1(scenario)"
    ),
    layers=[Layer("close-paths", st_case, run_case, {"quick": 300, "thorough": 1000})],
    assumptions=[
        "underlying transports are in-memory objects whose aclose() marks them closed synchronously when called (as the asyncio adapter does with transport.close())",
        "a step is one resumption of the close coroutine by the event loop; the cancellation requested before step k is delivered at the first suspension reached in step k",
    ],
)
