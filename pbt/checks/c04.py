"""C04 — send_packet writes exactly the packet's bytes and always terminates (DESIGN.md section 3, C04)."""

from __future__ import annotations

import asyncio
import math
import socket
from collections import deque
from typing import Any

from hypothesis import strategies as st

import easynetwork.lowlevel.constants as en_constants
from easynetwork.lowlevel.api_sync.endpoints.stream import StreamEndpoint
from easynetwork.lowlevel.api_sync.transports.socket import SocketStreamTransport

from .. import tlsharness, tlspeer, zoo
from ..core import Check, HarnessError, Layer, Outcome, Violation
from ..syncworld import FakeSocket, HarnessHang, SpinGuard, World, make_selector_factory, virtual_clock
from ..vloop import Deadlock, run_virtual

EPS = 1e-9

# ----------------------------------------------------------------------------------------------
# layer "socket": SocketStreamTransport / StreamEndpoint over FakeSocket


def st_chunks(tier: str) -> st.SearchStrategy[list[bytes]]:
    big = [0, 1, 2, 3, 7, 100, 1000] + ([70000] if tier == "thorough" else [5000])
    chunk = st.one_of(st.just(b""), st.binary(min_size=0, max_size=12), st.sampled_from(big).map(lambda n: bytes((i * 7 + n) & 0xFF for i in range(n))))
    return st.lists(chunk, min_size=0, max_size=8)


def st_send_script() -> st.SearchStrategy[list[tuple]]:
    op = st.one_of(
        st.just(("ok",)),
        st.tuples(st.just("partial"), st.integers(1, 9)),
        st.tuples(st.just("partial"), st.sampled_from([1, 64, 4096])),
        st.just(("block",)),
        st.just(("eintr",)),
    )
    return st.lists(op, max_size=14)


@st.composite
def st_socket_case(draw: st.DrawFn, tier: str) -> dict:
    mode = draw(st.sampled_from(["send_all", "iterable", "iterable", "endpoint"]))
    case: dict[str, Any] = {
        "mode": mode,
        "hide_sendmsg": draw(st.booleans()),
        "iov_max": draw(st.sampled_from([None, None, 0, -1, 1, 2, 3])),
        "send_script": draw(st_send_script()),
        "fail_at": draw(st.one_of(st.none(), st.none(), st.tuples(st.integers(0, 8), st.sampled_from([32, 104, 113])))),  # EPIPE ECONNRESET EHOSTUNREACH
        "timeout": draw(st.sampled_from(["inf", "inf", 0.0, 1.0, 5.5])),
        "retry_interval": draw(st.sampled_from(["inf", 0.3, 2.0])),
        "capacity": draw(st.sampled_from([None, None, 1, 5, 64, 4096])),
        # environment: (time, drained bytes or None for unlimited) — the peer reading
        "drains": draw(st.lists(st.tuples(st.sampled_from([0.1, 0.5, 0.9, 1.5, 2.5, 4.0, 7.0]), st.sampled_from([1, 3, 50, 5000, None])), max_size=6)),
        "unblock_times": draw(st.lists(st.sampled_from([0.2, 0.7, 1.2, 3.3, 6.1]), max_size=4)),
    }
    if mode == "endpoint":
        spec = draw(zoo.st_stream_spec(kinds=["line", "json", "zlib", "bz2", "autosep", "lenprefixed", "hfile", "base64"]))
        case["spec"] = spec
        case["packet"] = draw(zoo.st_packet(spec))
    elif mode == "send_all":
        case["chunks"] = [b"".join(draw(st_chunks(tier)))]
    else:
        case["chunks"] = draw(st_chunks(tier))
    return case


def run_socket_case(case: dict) -> Outcome:
    world = World()
    sock = FakeSocket(world, socket.SOCK_STREAM, hide_sendmsg=case["hide_sendmsg"])
    old_iov = en_constants.SC_IOV_MAX
    try:
        script = [tuple(op) for op in case["send_script"]]
        if case["fail_at"] is not None:
            idx, err = case["fail_at"]
            script = script[:idx] + [("error", err)] + script[idx:]
        sock.send_script = deque(script)
        sock.tx_capacity = case["capacity"]
        sock.spin_limit = 2000
        for t, n in case["drains"]:
            world.at(t, lambda n=n: sock.env_drain(n))
        world.at(50.0, lambda: sock.env_drain(None))
        if case["iov_max"] is not None:
            en_constants.SC_IOV_MAX = case["iov_max"]  # type: ignore[misc]
        timeout = math.inf if case["timeout"] == "inf" else float(case["timeout"])
        retry = math.inf if case["retry_interval"] == "inf" else float(case["retry_interval"])
        transport = SocketStreamTransport(sock, retry, selector_factory=make_selector_factory(world, sock))
        if case["mode"] == "endpoint":
            entry = zoo.build(case["spec"])
            chunks = [bytes(c) for c in entry.stream_protocol().generate_chunks(entry.to_packet(case["packet"]))]
        else:
            chunks = [bytes(c) for c in case["chunks"]]
        expected = b"".join(chunks)
        outcome = "returned"
        err: BaseException | None = None
        with virtual_clock(world):
            try:
                if case["mode"] == "endpoint":
                    ep = StreamEndpoint(transport, entry.stream_protocol(), max_recv_size=1024)
                    ep.send_packet(entry.to_packet(case["packet"]), timeout=None if timeout == math.inf else timeout)
                elif case["mode"] == "send_all":
                    transport.send_all(chunks[0], timeout)
                else:
                    transport.send_all_from_iterable(iter(chunks), timeout)
            except TimeoutError as exc:
                outcome, err = "timeout", exc
            except OSError as exc:
                outcome, err = "oserror", exc
            except HarnessHang as exc:
                raise Violation("blocks-forever", f"send blocked with nothing scheduled: {exc}", mode=case["mode"]) from exc
            except SpinGuard as exc:
                raise Violation(
                    "spins-forever",
                    f"send never terminates: {exc} (sent {len(sock.tx)}/{len(expected)} bytes, {sock.calls} socket calls)",
                    mode=case["mode"],
                    trailing_empty=bool(chunks) and len(chunks[-1]) == 0,
                ) from exc
        sent = bytes(sock.tx)
        detail = {"mode": case["mode"], "outcome": outcome, "sent": len(sent), "expected": len(expected)}
        if outcome == "returned":
            if sent != expected:
                raise Violation("bytes-mismatch", f"send returned but the peer got {len(sent)} bytes, expected {len(expected)} (first diff {_first_diff(sent, expected)})", **detail)
        else:
            if not expected.startswith(sent):
                raise Violation("bytes-mismatch", "send failed and the bytes on the wire are not a prefix of the packet", **detail)
            if outcome == "oserror" and case["fail_at"] is None:
                raise Violation("spurious-error", f"send raised {err!r} although the socket never failed", **detail)
            if outcome == "timeout":
                if timeout == math.inf:
                    raise Violation("spurious-timeout", "TimeoutError with an infinite timeout", **detail)
                if world.total_waited > timeout + EPS:
                    raise Violation("overrun", f"waited {world.total_waited} in total with timeout {timeout}", **detail)
        if timeout == 0.0 and world.total_waited > 0:
            raise Violation("zero-timeout-blocked", f"timeout=0 waited {world.total_waited}", **detail)
        classes = [case["mode"], f"end-{outcome}", "sendmsg-hidden" if case["hide_sendmsg"] else "sendmsg"]
        partial = any(op[0] in ("partial", "block", "eintr") for op in script) or case["capacity"] is not None
        empties = any(len(c) == 0 for c in chunks)
        if partial:
            classes.append("partial-or-block")
        if empties:
            classes.append("empty-chunk")
        if chunks and len(chunks[-1]) == 0:
            classes.append("trailing-empty-chunk")
        if case["iov_max"] is not None:
            classes.append(f"iov-{case['iov_max']}")
        nt = (partial and len(chunks) >= 2) or empties
        return Outcome(nontrivial=nt, classes=tuple(classes))
    finally:
        en_constants.SC_IOV_MAX = old_iov  # type: ignore[misc]
        sock.close()


def _first_diff(a: bytes, b: bytes) -> int:
    for i, (x, y) in enumerate(zip(a, b)):
        if x != y:
            return i
    return min(len(a), len(b))


# ----------------------------------------------------------------------------------------------
# layer "async-tls": AsyncTLSStreamTransport write backlog with chunk iterables incl. empty chunks


@st.composite
def st_tls_case(draw: st.DrawFn, tier: str) -> dict:
    sends = draw(st.lists(st.lists(st.sampled_from([0, 0, 1, 5, 100, 17000]), min_size=0, max_size=5), min_size=1, max_size=4))
    return {
        "sut_role": draw(st.sampled_from(["client", "server"])),
        "version": draw(st.sampled_from(["1.2", "1.3"])),
        "sends": sends,  # each send = list of chunk sizes (send_all_from_iterable) or a single size (send_all)
        "single": draw(st.booleans()),
        "frag_to_sut": draw(st.sampled_from([[1 << 20], [100], [7]])),
        "frag_to_peer": draw(st.sampled_from([[1 << 20], [1000], [13]])),
        "delays": [0.0],
        "mem_script": {"send_yield": draw(st.lists(st.integers(0, 2), min_size=1, max_size=3)), "send_split": draw(st.sampled_from([[0], [0, 5], [1000]]))},
        # per SSLObject.write() call: what the TLS engine does (see _ScriptedSSLObject); empty = the real engine only
        "ssl_script": draw(
            st.one_of(
                st.just([]),
                st.lists(st.one_of(st.just("ok"), st.just("ok"), st.just("want_read"), st.tuples(st.just("partial"), st.sampled_from([1, 3, 50, 16000])).map(list)), max_size=8),
            )
        ),
        # a second task of the same client parked in recv() while the sends run (request/response clients with a reader task)
        "reader": draw(st.booleans()),
    }


class _ScriptedSSLObject:
    """Stands in front of the transport's ssl.SSLObject and makes write() behave as OpenSSL legitimately may: accept only
    part of the buffer (the return value is the number of bytes taken), or refuse with SSLWantReadError because the engine
    must first read a record from the peer (renegotiation, key update: not reachable with a stdlib peer, hence injected).
    After a want-read the caller has to retry with the same data once more ciphertext has arrived; `on_want_read` lets the
    harness make the peer send a small record so that there is something to read."""

    def __init__(self, real: Any, script: list, on_want_read: Any) -> None:
        self._real = real
        self._script = deque(script)
        self._on_want_read = on_want_read
        self.injected: list[str] = []

    def write(self, data: Any) -> int:
        import ssl

        step = self._script.popleft() if self._script else "ok"
        with memoryview(data) as view:
            if step == "want_read" and view.nbytes > 0:
                self.injected.append("want_read")
                self._on_want_read()
                raise ssl.SSLWantReadError(ssl.SSL_ERROR_WANT_READ, "injected: the engine needs to read first")
            if isinstance(step, list) and step[0] == "partial" and 0 < step[1] < view.nbytes:
                self.injected.append("partial")
                return self._real.write(view[: step[1]])
            return self._real.write(view)

    def __getattr__(self, name: str) -> Any:
        return getattr(self._real, name)


_tls_progress: dict = {}


async def _tls_session(case: dict) -> dict:
    _tls_progress.clear()
    backend, mem, peer, wire = tlsharness.new_session(case)
    conductor = asyncio.create_task(wire.conductor())
    expected = bytearray()
    try:
        tls = await tlsharness.wrap_sut(case, mem)
        nudges: list[bytes] = []

        def nudge() -> None:
            nudges.append(b"nudge-%d;" % len(nudges))
            peer.write(nudges[-1])
            wire.kick()

        proxy = None
        if case.get("ssl_script"):
            proxy = _ScriptedSSLObject(tls._ssl_object, [list(x) if isinstance(x, (list, tuple)) else x for x in case["ssl_script"]], nudge)
            tls._ssl_object = proxy
        got_in = bytearray()
        reader_task = None
        if case.get("reader"):

            async def reader_loop() -> None:
                while True:
                    data = await tls.recv(65536)
                    if not data:
                        return
                    got_in.extend(data)

            reader_task = asyncio.create_task(reader_loop())
            for _ in range(3):
                await asyncio.sleep(0)
        _tls_progress.update(reader=bool(reader_task))
        idx = 0
        for sizes in case["sends"]:
            chunks = []
            for n in sizes:
                chunks.append(tlspeer.payload("sut", idx, n))
                idx += 1
            if case["single"]:
                data = b"".join(chunks)
                expected += data
                await tls.send_all(data)
            else:
                expected += b"".join(chunks)
                await tls.send_all_from_iterable(iter(chunks))
        _tls_progress.update(sends_done=True, expected=bytes(expected), peer=peer)
        await wire.wait_until(lambda: len(peer.plain_in) >= len(expected) or peer.error is not None)
        for _ in range(3):
            await asyncio.sleep(0)
        # what the peer sent to unblock injected want-reads is ordinary application data for the SUT's reader
        want_in = b"".join(nudges)
        if reader_task is not None:
            _tls_progress.update(waiting_reader=True, want_in=want_in, got_in=got_in)
            # (polled: the reader appending to got_in does not set the wire's progress event)
            for _ in range(5000):
                if len(got_in) >= len(want_in) or reader_task.done():
                    break
                wire.kick()
                await asyncio.sleep(0)
            else:
                raise Violation(
                    "inbound-withheld",
                    f"the reader task never gets records that reached the transport while a write was waiting for the engine: {bytes(got_in)!r} of {want_in!r}",
                )
            _tls_progress.update(waiting_reader=False)
            reader_task.cancel()
            await asyncio.gather(reader_task, return_exceptions=True)
        while len(got_in) < len(want_in):
            data = await tls.recv(65536)
            if not data:
                break
            got_in += data
        injected = list(proxy.injected) if proxy is not None else []
        await tls.aclose()
    finally:
        wire.stop = True
        wire.kick()
        conductor.cancel()
        await asyncio.gather(conductor, return_exceptions=True)
    return {
        "expected": bytes(expected),
        "got": bytes(peer.plain_in),
        "peer_error": repr(peer.error) if peer.error else None,
        "nudges_in": bytes(got_in),
        "nudges_want": want_in,
        "injected": injected,
    }


def run_tls_case(case: dict) -> Outcome:
    try:
        r = run_virtual(_tls_session, case)
    except Deadlock as exc:
        if _tls_progress.get("waiting_reader"):
            raise Violation(
                "inbound-withheld",
                f"the reader task never gets records that reached the transport while a write was waiting for the engine: "
                f"{bytes(_tls_progress['got_in'])!r} of {_tls_progress['want_in']!r}",
            ) from exc
        if _tls_progress.get("sends_done"):
            got = bytes(_tls_progress["peer"].plain_in)
            exp = _tls_progress["expected"]
            raise Violation(
                "bytes-mismatch",
                f"every send returned but the peer only ever decrypts {len(got)} of {len(exp)} bytes (first diff {_first_diff(got, exp)})",
            ) from exc
        raise Violation("blocks-forever", f"async TLS send did not terminate: {exc}") from exc
    if r["peer_error"]:
        raise Violation("peer-error", r["peer_error"])
    if r["got"] != r["expected"]:
        raise Violation("bytes-mismatch", f"peer decrypted {len(r['got'])} bytes, expected {len(r['expected'])} (first diff {_first_diff(r['got'], r['expected'])})")
    if r["nudges_in"] != r["nudges_want"]:
        raise Violation("inbound-mismatch", f"records read while a write was waiting for the engine were lost: {r['nudges_in']!r} != {r['nudges_want']!r}")
    flat = [n for s in case["sends"] for n in s]
    classes = ["single" if case["single"] else "iterable"] + sorted({f"engine-{x}" for x in r["injected"]})
    if case.get("reader"):
        classes.append("concurrent-reader")
        if "want_read" in r["injected"]:
            classes.append("want-read-with-concurrent-reader")
    if 0 in flat:
        classes.append("empty-chunk")
    if any(len(s) == 0 for s in case["sends"]):
        classes.append("empty-iterable")
    nt = ((0 in flat or any(len(s) == 0 for s in case["sends"])) and len(flat) >= 2) or (bool(r["injected"]) and len(flat) >= 2) or ("want_read" in r["injected"] and bool(case.get("reader")))
    return Outcome(nontrivial=nt, classes=tuple(classes))


CHECK = Check(
    id="C04",
    level="exploration",
    rule=(
        "socket layer: chunk sequences (0-8 chunks, empty chunks in any position, sizes up to 70000, or real serializer output "
        "through StreamEndpoint.send_packet) x per-call fault script of the socket (partial sizes, EAGAIN, EINTR, errno failure) x "
        "kernel capacity + peer-drain timeline x timeout {0, finite, inf} x retry_interval x sendmsg present/hidden x SC_IOV_MAX "
        "{real,0,-1,1,2,3}, single-threaded under a fake selector and virtual clock; async-tls layer: send_all / "
        "send_all_from_iterable sequences incl. empty chunks against the stdlib-ssl peer, engine script (partial writes, want-read) and "
        "optionally a second task parked in recv(). non-trivial = (a partial write or would-block and >= 2 chunks) or an empty "
        "chunk present or an injected want-read with the concurrent reader; distinct = sha1(case)"
    ),
    layers=[
        Layer("socket", st_socket_case, run_socket_case, {"quick": 2500, "thorough": 12000}),
        Layer("async-tls", st_tls_case, run_tls_case, {"quick": 120, "thorough": 600}),
    ],
    assumptions=[
        "the socket is a socket.socket subclass whose send/sendmsg/recv follow a generated script; the selector passed through selector_factory is the scheduler; ElapsedTime reads a virtual perf_counter",
        "non-termination is decided deterministically: select() asked to wait with nothing scheduled, or more than 2000 socket calls without progress",
    ],
)

# thorough tier: the same strategy and oracle driven by the coverage-guided engine (pbt/covfuzz.py)
from ..covfuzz import cov_layer  # noqa: E402

CHECK.layers.append(cov_layer("C04", CHECK.layer("socket"), runs=8000, time_s=100))
