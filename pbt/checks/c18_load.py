"""C18, layer `stop-under-load` — a stop request against a server whose client never stops sending.

"... for every order and interleaving of serve_forever, shutdown, server_close and client activity ... no call
deadlocks": `shutdown()` (or cancelling `serve_forever()`, or a cancel scope around a handler's request loop) must get
through to a client task whose peer is *ahead* of the server, i.e. whose receive buffers are never empty.  On that path
the client task only ever suspends in checkpoints that have something to return, and those are cancel-shielded; if every
one of them postpones the cancellation again, the stop request is at the mercy of the remote peer.

Harness: the unmodified `AsyncTCPNetworkServer` on the virtual-time loop; its one connection is the real asyncio
`StreamReaderBufferedProtocol` + `AsyncioTransportStreamSocketAdapter` over the fake selector transport, whose kernel
receive queue a feeder tops up on every loop iteration (the flood stops by itself only when the verdict is in).
Oracle: after the stop request, the handler is resumed with at most the requests that were already in user space at
that moment (protocol buffer + consumer), plus what the event loop can buffer on its own while the task works (one
protocol buffer) and two receive buffers of slack; then the request must have taken effect.
"""

from __future__ import annotations

import asyncio
import logging
from typing import Any

from hypothesis import strategies as st

from ..core import HarnessError, Layer, Outcome, Violation
from ..vloop import Deadlock, run_virtual

PROTOCOL_BUFFER = 256 * 1024  # StreamReaderBufferedProtocol.max_size: what the event loop may receive on its own while the task is busy
MARGIN = 300  # requests handled beyond the bound before the verdict "does not get through" is given


async def _client_main(case: dict) -> dict:
    """the same question for a client-side consumer: `while True: await endpoint.recv_packet()` under a flooding peer, stopped
    by task.cancel() or by a cancel scope around the loop"""
    from easynetwork.lowlevel.api_async.backend._asyncio.stream.socket import AsyncioTransportStreamSocketAdapter, StreamReaderBufferedProtocol
    from easynetwork.lowlevel.api_async.endpoints.stream import AsyncStreamEndpoint
    from easynetwork.protocol import BufferedStreamProtocol, StreamProtocol
    from easynetwork.serializers.line import StringLineSerializer

    from ..fakeasyncio import FakeAsyncioTransport
    from ..memtransports import VerifBackend

    loop = asyncio.get_running_loop()
    backend = VerifBackend()
    f = case["frame"]
    frame = b"x" * (f - 1) + b"\n"
    res: dict[str, Any] = {"handled": 0, "ended": [], "fed": 0, "scope": None, "bad": 0}
    serializer = StringLineSerializer()
    proto: Any = BufferedStreamProtocol(serializer) if case["buffered"] else StreamProtocol(serializer)
    aio_protocol = StreamReaderBufferedProtocol(loop=loop)
    aio_transport = FakeAsyncioTransport(loop, aio_protocol, kernel_capacity=None, max_recv=case["max_recv"])
    adapter = AsyncioTransportStreamSocketAdapter(backend, aio_transport, aio_protocol)
    endpoint = AsyncStreamEndpoint(adapter, proto, max_recv_size=case["max_recv_size"])

    async def consumer() -> None:
        try:
            with backend.open_cancel_scope() as scope:
                res["scope"] = scope
                while True:
                    if case.get("handler_style", "plain").startswith("poll"):
                        # a consumer that polls ("what is there now") and does something else in between
                        try:
                            with backend.timeout(0):
                                packet = await endpoint.recv_packet()
                        except TimeoutError:
                            await asyncio.sleep(0)
                            continue
                    else:
                        packet = await endpoint.recv_packet()
                    res["handled"] += 1
                    if len(packet) != f - 1:
                        res["bad"] += 1
            res["ended"].append("scope-left")
        except BaseException as exc:  # noqa: BLE001
            res["ended"].append(type(exc).__name__)
            raise

    stop_feeding = False

    async def feeder() -> None:
        chunk = frame * case["chunk_frames"]
        cut = case.get("feed_cut") or 0
        pieces = [chunk] if not cut else [chunk[: len(chunk) - f + cut], chunk[len(chunk) - f + cut :]]
        i = 0
        while not stop_feeding:
            piece = pieces[i % len(pieces)]
            if len(aio_transport.inbox) < len(piece) and not aio_transport.is_closing():
                aio_transport.feed(piece)
                res["fed"] += len(piece)
                i += 1
            await asyncio.sleep(0)

    task = asyncio.create_task(consumer())
    feed_task = asyncio.create_task(feeder())
    while res["handled"] < case["warmup"]:
        await asyncio.sleep(0)
        if task.done():
            raise HarnessError(f"consumer ended during warm-up: {task!r}")
    for _ in range(case["extra_ticks"]):
        await asyncio.sleep(0)
    handled_at_call = res["handled"]
    user_space = res["fed"] - len(aio_transport.inbox) - handled_at_call * f
    bound = 2 * max(case["max_recv_size"], 65536 if case["buffered"] else 0) // f + 10
    verdict: dict[str, Any] = {"handled_at_call": handled_at_call, "user_space": user_space, "bound": bound}
    if case["op"] == "client-task-cancel":
        task.cancel()
    else:
        res["scope"].cancel()
    while not task.done():
        if res["handled"] - handled_at_call > bound + MARGIN:
            verdict["stuck"] = True
            break
        await asyncio.sleep(0)
    verdict["handled_after"] = res["handled"] - handled_at_call
    stop_feeding = True
    await asyncio.gather(feed_task, return_exceptions=True)
    if not task.done():
        aio_transport.feed_eof()
    await asyncio.gather(task, return_exceptions=True)
    await endpoint.aclose()
    verdict["ended"] = list(res["ended"])
    verdict["bad"] = res["bad"]
    return verdict


async def _udp_main(case: dict) -> dict:
    """datagram server: one client whose datagrams keep arriving (its queue is never empty once a backlog has formed), stopped
    by shutdown() or by a cancel scope around the handler's request loop"""
    from easynetwork.protocol import DatagramProtocol
    from easynetwork.serializers.line import StringLineSerializer
    from easynetwork.servers.async_udp import AsyncUDPNetworkServer
    from easynetwork.servers.handlers import AsyncDatagramRequestHandler

    from ..memtransports import VerifBackend

    backend = VerifBackend()
    res: dict[str, Any] = {"handled": 0, "ended": [], "fed": 0, "scope": None}
    PEER = ("127.0.0.1", 40001)

    class Handler(AsyncDatagramRequestHandler):  # type: ignore[type-arg]
        async def handle(self, client: Any) -> Any:
            try:
                with backend.open_cancel_scope() as scope:
                    res["scope"] = scope
                    first = True
                    while True:
                        if case.get("handler_style") in ("poll-yield0", "poll-backend0") and not first:
                            try:
                                if case["handler_style"] == "poll-yield0":
                                    request = yield 0
                                else:
                                    with backend.timeout(0):
                                        request = yield
                            except TimeoutError:
                                res["empty_polls"] = res.get("empty_polls", 0) + 1
                                await asyncio.sleep(0)
                                continue
                        else:
                            request = yield
                        res["handled"] += 1
                        if first:
                            first = False
                            for _ in range(case["warmup"] + 2):
                                await asyncio.sleep(0)  # a slow first request: a backlog forms
                        if case["echo"]:
                            await client.send_packet(request)
                res["ended"].append("scope-left")
            except GeneratorExit:
                res["ended"].append("GeneratorExit")
                raise
            except BaseException as exc:  # noqa: BLE001
                res["ended"].append(type(exc).__name__)
                raise

    srv = AsyncUDPNetworkServer(None, 0, DatagramProtocol(StringLineSerializer()), Handler(), backend)
    up = asyncio.Event()
    serve_task = asyncio.create_task(srv.serve_forever(is_up_event=up))
    await up.wait()
    listener = backend.udp_listeners[-1]
    stop_feeding = False

    async def feeder() -> None:
        while not stop_feeding:
            for _ in range(case["chunk_frames"]):
                try:
                    listener.deliver(b"x" * 8, PEER)
                except RuntimeError:
                    return  # the server's task group is shutting down
                res["fed"] += 1
            await asyncio.sleep(0)

    feed_task = asyncio.create_task(feeder())
    ticks = 0
    while res["handled"] < max(2, case["warmup"] // 4):
        await asyncio.sleep(0)
        ticks += 1
        if serve_task.done():
            raise HarnessError(f"udp warm-up did not complete: handled={res['handled']} {serve_task!r}")
        if ticks > 20_000:
            raise Violation(
                "no-progress",
                f"the datagram handler ({case.get('handler_style', 'plain')}) received {res['handled']} datagrams in 20000 loop iterations although "
                f"{res['fed']} were delivered for it ({res.get('empty_polls', 0)} polls came back empty): its backlog is never drained",
                handler_style=case.get("handler_style", "plain"),
            )
    for _ in range(case["extra_ticks"]):
        await asyncio.sleep(0)
    handled_at_call = res["handled"]
    backlog = res["fed"] - handled_at_call
    bound = 12  # the cancellation is delivered at the next checkpoint of the client task: a handful of datagrams at most
    verdict: dict[str, Any] = {"handled_at_call": handled_at_call, "user_space": backlog * 8, "bound": bound}
    op_task = None
    if case["op"] == "udp-shutdown":
        op_task = asyncio.create_task(srv.shutdown())
    else:
        res["scope"].cancel()
    while not (op_task.done() if op_task is not None else bool(res["ended"])):
        if res["handled"] - handled_at_call > bound + MARGIN:
            verdict["stuck"] = True
            break
        await asyncio.sleep(0)
    verdict["handled_after"] = res["handled"] - handled_at_call
    stop_feeding = True
    await asyncio.gather(feed_task, return_exceptions=True)
    if not serve_task.done():
        if op_task is not None:
            await asyncio.gather(op_task, return_exceptions=True)
        else:
            await srv.shutdown()
    await asyncio.gather(serve_task, return_exceptions=True)
    await srv.server_close()
    verdict["ended"] = list(res["ended"])
    verdict["bad"] = 0
    return verdict


async def _main(case: dict) -> dict:
    if case["op"].startswith("client-"):
        return await _client_main(case)
    if case["op"].startswith("udp-"):
        return await _udp_main(case)
    from easynetwork.lowlevel.api_async.backend._asyncio.stream.socket import AsyncioTransportStreamSocketAdapter, StreamReaderBufferedProtocol
    from easynetwork.protocol import BufferedStreamProtocol, StreamProtocol
    from easynetwork.serializers.line import StringLineSerializer
    from easynetwork.servers.async_tcp import AsyncTCPNetworkServer
    from easynetwork.servers.handlers import AsyncStreamRequestHandler

    from ..fakeasyncio import FakeAsyncioTransport
    from ..memtransports import VerifBackend

    loop = asyncio.get_running_loop()
    backend = VerifBackend()
    f = case["frame"]
    frame = b"x" * (f - 1) + b"\n"
    res: dict[str, Any] = {"handled": 0, "ended": [], "fed": 0, "scope": None, "bad": 0, "empty_polls": 0}

    class Handler(AsyncStreamRequestHandler):  # type: ignore[type-arg]
        async def handle(self, client: Any) -> Any:
            try:
                if case["op"] == "scope-cancel":
                    with backend.open_cancel_scope() as scope:
                        res["scope"] = scope
                        while True:
                            await self._one(client, (yield))
                    res["ended"].append("scope-left")
                    await client.aclose()
                    return
                style = case.get("handler_style", "plain")
                while True:
                    if style == "plain":
                        request = yield
                    else:
                        # polling handlers: "take a request if there is one, otherwise do something else for a moment"
                        try:
                            if style == "poll-yield0":
                                request = yield 0
                            elif style == "poll-backend0":
                                with backend.timeout(0):
                                    request = yield
                            else:
                                async with asyncio.timeout(0):
                                    request = yield
                        except TimeoutError:
                            res["empty_polls"] += 1
                            await asyncio.sleep(0)
                            continue
                    await self._one(client, request)
            except GeneratorExit:
                res["ended"].append("GeneratorExit")
                raise
            except BaseException as exc:  # noqa: BLE001
                res["ended"].append(type(exc).__name__)
                raise

        async def _one(self, client: Any, request: Any) -> None:
            res["handled"] += 1
            if len(request) != f - 1:
                res["bad"] += 1
            if case["echo"]:
                await client.send_packet("k")

    serializer = StringLineSerializer()
    proto: Any = BufferedStreamProtocol(serializer) if case["buffered"] else StreamProtocol(serializer)
    srv = AsyncTCPNetworkServer(None, 0, proto, Handler(), backend, max_recv_size=case["max_recv_size"])
    up = asyncio.Event()
    serve_task = asyncio.create_task(srv.serve_forever(is_up_event=up))
    await up.wait()
    listener = backend.tcp_listeners[-1]
    aio_protocol = StreamReaderBufferedProtocol(loop=loop)
    aio_transport = FakeAsyncioTransport(loop, aio_protocol, kernel_capacity=None, max_recv=case["max_recv"])
    adapter = AsyncioTransportStreamSocketAdapter(backend, aio_transport, aio_protocol)
    listener.connect(adapter)

    stop_feeding = False
    verdict: dict[str, Any] = {}

    async def feeder() -> None:
        chunk = frame * case["chunk_frames"]
        cut = case.get("feed_cut") or 0
        # (feed_cut: the segments end in the middle of a frame, so that a poll regularly finds the beginning of a request
        # whose rest has not arrived yet)
        pieces = [chunk] if not cut else [chunk[: len(chunk) - f + cut], chunk[len(chunk) - f + cut :]]
        i = 0
        while not stop_feeding:
            piece = pieces[i % len(pieces)]
            if len(aio_transport.inbox) < len(piece) and not aio_transport.is_closing():
                aio_transport.feed(piece)
                res["fed"] += len(piece)
                i += 1
            aio_transport.peer_read()  # the peer reads the answers as they come: sending never blocks
            await asyncio.sleep(0)

    feed_task = asyncio.create_task(feeder())
    # warm-up: let the flood establish itself
    warm_ticks = 0
    while res["handled"] < case["warmup"]:
        await asyncio.sleep(0)
        warm_ticks += 1
        if serve_task.done():
            raise HarnessError(f"server ended during warm-up: {serve_task!r}")
        if warm_ticks > 100_000:
            raise Violation(
                "no-progress",
                f"the handler ({case.get('handler_style', 'plain')}) received {res['handled']} of the first {case['warmup']} requests in 100000 loop "
                f"iterations although {res['fed']} bytes were sent ({res['empty_polls']} empty polls)",
                handler_style=case.get("handler_style", "plain"),
            )
    for _ in range(case["extra_ticks"]):
        await asyncio.sleep(0)

    handled_at_call = res["handled"]
    user_space = res["fed"] - len(aio_transport.inbox) - handled_at_call * f
    # what the task has already taken from the transport (at most one receive buffer) may still be handled, plus one more
    # receive (a cancellation is delivered at a checkpoint: the task may be past the one of the receive in progress)
    bound = 2 * max(case["max_recv_size"], 65536 if case["buffered"] else 0) // f + 10
    verdict.update(handled_at_call=handled_at_call, user_space=user_space, bound=bound)

    op = case["op"]
    if op == "shutdown":
        op_task = asyncio.create_task(srv.shutdown())
    elif op == "cancel-serve":
        serve_task.cancel()
        op_task = serve_task
    elif op == "scope-cancel":
        if res["scope"] is None:
            raise HarnessError("handler scope not entered")
        res["scope"].cancel()
        op_task = None
    else:
        raise HarnessError(f"unknown op {op}")

    def effective() -> bool:
        if op == "scope-cancel":
            return bool(res["ended"])
        return op_task.done()  # type: ignore[union-attr]

    while not effective():
        if res["handled"] - handled_at_call > bound + MARGIN:
            verdict["stuck"] = True
            break
        await asyncio.sleep(0)
    verdict["handled_after"] = res["handled"] - handled_at_call
    stop_feeding = True
    await asyncio.gather(feed_task, return_exceptions=True)
    # the peer has stopped: everything must wind down now
    if not serve_task.done():
        if op_task is not None and op != "cancel-serve":
            await asyncio.gather(op_task, return_exceptions=True)
        if not serve_task.done():
            await srv.shutdown()
    await asyncio.gather(serve_task, return_exceptions=True)
    await srv.server_close()
    verdict["ended"] = list(res["ended"])
    verdict["bad"] = res["bad"]
    return verdict


def run(case: dict) -> Outcome:
    logging.disable(logging.CRITICAL)
    try:
        v = run_virtual(_main, case, max_ticks=3_000_000)
    except Deadlock as exc:
        raise Violation("hang", f"server under load did not wind down: {str(exc)[:800]}", op=case["op"]) from exc
    finally:
        logging.disable(logging.NOTSET)
    if v["bad"]:
        raise HarnessError(f"stop-under-load: {v['bad']} requests with an unexpected size reached the handler")
    detail = {"op": case["op"], "handled_after": v["handled_after"], "bound": v["bound"], "user_space_bytes": v["user_space"], "ended": v["ended"]}
    if v.get("stuck"):
        what = {
            "shutdown": "server.shutdown() does not return",
            "cancel-serve": "the cancelled serve_forever() task does not end",
            "scope-cancel": "the cancelled scope around the handler's request loop is not left",
            "client-task-cancel": "the cancelled task looping on endpoint.recv_packet() does not end",
            "client-scope-cancel": "the cancelled scope around a recv_packet() loop is not left",
            "udp-shutdown": "shutdown() of the datagram server does not return",
            "udp-scope-cancel": "the cancelled scope around the datagram handler's request loop is not left",
        }[case["op"]]
        raise Violation(
            "stop-request-starved",
            f"{what} while the client keeps sending: {v['handled_after']} requests were handled after the request, although only "
            f"{v['user_space']} bytes ({v['user_space'] // case['frame']} requests) had been received at that moment (bound {v['bound']}); "
            "the cancellation is postponed by every checkpoint of the client task for as long as the peer stays ahead",
            **detail,
        )
    classes = [f"op-{case['op']}", "buffered" if case["buffered"] else "copying", "echo" if case["echo"] else "silent", f"handler-{case.get('handler_style', 'plain')}"]
    classes.append("ended-" + (v["ended"][0] if v["ended"] else "none"))
    ahead = v["user_space"] > (0 if case["op"].startswith("udp-") else 2 * case["max_recv_size"])
    classes.append("peer-ahead" if ahead else "reader-keeps-up")
    return Outcome(nontrivial=ahead, classes=tuple(classes), note=f"handled after the request: {v['handled_after']} (bound {v['bound']})")


@st.composite
def st_case(draw: st.DrawFn, tier: str) -> dict:
    frame = draw(st.sampled_from([64, 512, 4096]))
    return {
        "op": draw(st.sampled_from(["shutdown", "shutdown", "cancel-serve", "scope-cancel", "client-task-cancel", "client-scope-cancel", "udp-shutdown", "udp-scope-cancel"])),
        "buffered": draw(st.booleans()),
        "echo": draw(st.booleans()),
        "frame": frame,
        "chunk_frames": draw(st.sampled_from([1, 3, 16, 64])),
        "max_recv": draw(st.sampled_from([None, 4096, 1000, 100])),
        # (small values: a client-side consumer has no per-request checkpoint, the peer only stays ahead of a slow reader)
        "max_recv_size": draw(st.sampled_from([16, 256, 4096, 16384, 65536])),
        "warmup": draw(st.integers(1, 40)),
        "extra_ticks": draw(st.integers(0, 7)),
        "handler_style": draw(st.sampled_from(["plain", "plain", "poll-yield0", "poll-backend0"])),
        "feed_cut": draw(st.sampled_from([0, 0, 1, frame // 2, frame - 1])),
    }


LAYER = Layer("stop-under-load", st_case, run, {"quick": 300, "thorough": 1500}, shards=8)
