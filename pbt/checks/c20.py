"""C20 — sending applies backpressure and never hangs on a dead connection (DESIGN.md section 3, C20).

Layers
* ``flow``      `WriteFlowControl` driven directly by generated pause/resume/connection_lost/drain/cancel sequences,
                compared with a waiter-set model (resume => every parked waiter done, lost => every one failed).
* ``stream``    the real `StreamReaderBufferedProtocol` + `AsyncioTransportStreamSocketAdapter` on top of
                `FakeAsyncioTransport` (asyncio's own water-mark logic, harness-driven kernel pipe): generated
                schedules of senders, peer reads, writable notifications, connection loss, aclose, cancellations.
* ``datagram``  the same for `DatagramEndpointProtocol`/`DatagramEndpoint`/`AsyncioTransportDatagramSocketAdapter`
                and `DatagramListenerProtocol`/`DatagramListenerSocketAdapter` over `FakeAsyncioDatagramTransport`.
* ``real``      8 MiB through `AsyncIOBackend().wrap_stream_socket` on a real `socketpair()` whose peer does not
                read, then reads (real loop, wall-clock watchdog -> Inconclusive).

A case is a list of *steps*; the operations of one step are applied back to back inside one loop iteration, then
the loop runs a few (2-4) + `gap` iterations and the oracle looks at every sender.
"""

from __future__ import annotations

import asyncio
import errno as _errno
import logging
import os
import socket as _socket
import threading
import time
from typing import Any

from hypothesis import strategies as st

from ..core import Check, HarnessError, Inconclusive, Layer, Outcome, Violation
from ..fakeasyncio import FakeAsyncioDatagramTransport, FakeAsyncioTransport
from ..vloop import Deadlock, run_virtual

ERRORS = {
    "ConnectionResetError": lambda: ConnectionResetError(_errno.ECONNRESET, "Connection reset by peer"),
    "BrokenPipeError": lambda: BrokenPipeError(_errno.EPIPE, "Broken pipe"),
    "ConnectionAbortedError": lambda: ConnectionAbortedError(_errno.ECONNABORTED, "Software caused connection abort"),
    "TimeoutError": lambda: TimeoutError(_errno.ETIMEDOUT, "Connection timed out"),
    "OSError": lambda: OSError(_errno.EIO, "Input/output error"),
}
ERRNAMES = sorted(ERRORS)

# DatagramListenerProtocol.error_received() logs every non-fatal OSError; the generated schedules contain many
logging.getLogger("easynetwork").setLevel(logging.CRITICAL)


async def _ticks(n: int) -> None:
    for _ in range(n):
        await asyncio.sleep(0)


def _spawn(loop: asyncio.AbstractEventLoop, coro: Any, eager: bool) -> asyncio.Task:
    if eager:
        return asyncio.Task(coro, loop=loop, eager_start=True)
    return loop.create_task(coro)


def _same_error(got: BaseException, want: BaseException) -> bool:
    return type(got) is type(want) and got.args == want.args


# ==============================================================================================
# layer "flow": WriteFlowControl against the waiter-set model


class _ClosingFlag:
    closing = False

    def is_closing(self) -> bool:
        return self.closing


def run_flow(case: dict) -> Outcome:
    from easynetwork.lowlevel.api_async.backend._asyncio._flow_control import WriteFlowControl

    lost_errno = {"ECONNABORTED": _errno.ECONNABORTED, "ECONNRESET": _errno.ECONNRESET}[case["lost_errno"]]
    eager = case["eager"]
    stats = {"max_parked": 0, "hit": False, "cancel_parked": False, "lost_parked": False, "resume_parked": False, "lost_exc": False, "closing": False}

    async def main() -> None:
        loop = asyncio.get_running_loop()
        flag = _ClosingFlag()
        flow = WriteFlowControl(flag, loop, connection_lost_errno=lost_errno)  # type: ignore[arg-type]
        tasks: list[asyncio.Task] = []
        model: list[dict] = []  # per drain task: status new|parked|ok|err|gone, cancel flag
        m = {"paused": False, "lost": False, "lost_exc": None}

        def evaluate(rec: dict) -> None:
            if m["lost"]:
                rec["status"] = "err"
            elif not m["paused"]:
                rec["status"] = "ok"
            else:
                rec["status"] = "parked"

        def parked() -> list[dict]:
            return [r for r in model if r["status"] == "parked" and not r["cancel"]]

        def verify(where: str) -> None:
            stats["max_parked"] = max(stats["max_parked"], len(parked()))
            for j, (task, rec) in enumerate(zip(tasks, model)):
                if rec["status"] == "gone":
                    continue
                status = rec["status"]
                if status == "parked" and not rec["cancel"]:
                    if task.done():
                        how = "cancelled" if task.cancelled() else f"exception {task.exception()!r}" if task.exception() else "returned"
                        raise Violation(
                            "backpressure", f"{where}: drain #{j} {how} while writing is paused and nothing resumed it", waiter=j, where=where
                        )
                    continue
                if not task.done():
                    raise Violation(
                        "stranded",
                        f"{where}: drain #{j} is still pending although the model says {status}{' + cancel' if rec['cancel'] else ''} "
                        f"(paused={m['paused']} lost={m['lost']})",
                        waiter=j,
                        expected=status,
                        where=where,
                    )
                rec_status, rec["status"] = status, "gone"
                if task.cancelled():
                    if not rec["cancel"]:
                        raise Violation("spurious-cancel", f"{where}: drain #{j} was cancelled but nobody cancelled it", waiter=j)
                    continue
                exc = task.exception()
                if rec_status == "parked":  # cancel requested on a parked waiter: only cancellation can end it
                    raise Violation("backpressure", f"{where}: parked drain #{j} ended with {exc!r} instead of CancelledError", waiter=j)
                if rec_status == "ok":
                    if exc is not None:
                        raise Violation("spurious-failure", f"{where}: drain #{j} raised {exc!r} although writing was resumed / never paused", waiter=j)
                else:
                    if exc is None:
                        raise Violation("lost-not-reported", f"{where}: drain #{j} returned normally after connection_lost()", waiter=j)
                    want = m["lost_exc"]
                    if want is not None:
                        if not _same_error(exc, want):
                            raise Violation("wrong-error", f"{where}: drain #{j} raised {exc!r}, connection_lost() was given {want!r}", waiter=j)
                    elif not (isinstance(exc, OSError) and exc.errno == lost_errno):
                        raise Violation("wrong-error", f"{where}: drain #{j} raised {exc!r}, expected errno {lost_errno}", waiter=j)

        for si, step in enumerate(case["steps"]):
            for op in step["ops"]:
                kind = op[0]
                if kind == "pause":
                    flow.pause_writing()
                    m["paused"] = True
                elif kind == "resume":
                    if len(parked()) >= 1:
                        stats["resume_parked"] = True
                    flow.resume_writing()
                    m["paused"] = False
                    for r in model:
                        if r["status"] == "parked":
                            r["status"] = "ok"
                elif kind == "lost":
                    if len(parked()) >= 2:
                        stats["hit"] = True
                    if parked():
                        stats["lost_parked"] = True
                    exc = ERRORS[op[1]]() if op[1] else None
                    stats["lost_exc"] = stats["lost_exc"] or exc is not None
                    flow.connection_lost(exc)
                    m.update(paused=False, lost=True, lost_exc=exc)
                    for r in model:
                        if r["status"] == "parked":
                            r["status"] = "err"
                elif kind == "closing":
                    flag.closing = bool(op[1])
                    stats["closing"] = True
                elif kind == "drain":
                    rec = {"status": "new", "cancel": False}
                    model.append(rec)
                    if eager and not flag.closing:
                        evaluate(rec)
                    tasks.append(_spawn(loop, flow.drain(), eager))
                elif kind == "cancel":
                    j = op[1]
                    if j < len(tasks):
                        if model[j]["status"] == "parked" and not model[j]["cancel"]:
                            stats["cancel_parked"] = True
                            if len(parked()) >= 2:
                                stats["hit"] = True
                        tasks[j].cancel()
                        model[j]["cancel"] = True
                else:
                    raise HarnessError(f"unknown op {op!r}")
                if flow.writing_paused() != m["paused"]:
                    raise Violation("paused-flag", f"writing_paused() is {flow.writing_paused()} after {op!r}, model says {m['paused']}")
            stats["max_parked"] = max(stats["max_parked"], len(parked()))
            await _ticks(1)
            for rec in model:
                if rec["status"] == "new":
                    evaluate(rec)
            await _ticks(1 + step["gap"])
            verify(f"after step {si}")
        # quiescence: the peer reads again / the connection dies -> nobody may stay parked
        if not m["lost"]:
            if case["finale"] == "resume":
                if m["paused"]:
                    flow.resume_writing()
                    m["paused"] = False
                    for r in model:
                        if r["status"] == "parked":
                            r["status"] = "ok"
            else:
                exc = ERRORS[case["finale"]]() if case["finale"] != "lost" else None
                flow.connection_lost(exc)
                m.update(paused=False, lost=True, lost_exc=exc)
                for r in model:
                    if r["status"] == "parked":
                        r["status"] = "err"
        await _ticks(3)
        verify("at quiescence")
        if any(not t.done() for t in tasks):
            raise Violation("stranded", "a drain() is still pending at quiescence")

    try:
        run_virtual(main, max_ticks=5000)
    except Deadlock as exc:
        raise Violation("deadlock", str(exc)) from exc
    classes = [f"max-parked-{min(stats['max_parked'], 3)}", "eager" if eager else "lazy"]
    for key in ("cancel_parked", "lost_parked", "resume_parked", "lost_exc", "closing"):
        if stats[key]:
            classes.append(key.replace("_", "-"))
    return Outcome(nontrivial=stats["hit"], classes=tuple(classes))


@st.composite
def st_flow(draw: st.DrawFn, tier: str) -> dict:
    steps = []
    paused = lost = False
    ndrains = 0
    budget = draw(st.integers(3, 10 if tier == "quick" else 14))
    if draw(st.integers(0, 3)) > 0:
        # most schedules start with writing paused and a few waiters parked
        k = draw(st.integers(1, 3))
        steps.append({"ops": [["pause"]] + [["drain"]] * k, "gap": draw(st.sampled_from([0, 0, 1]))})
        paused, ndrains = True, k
        budget -= 1 + k
    while budget > 0:
        nops = min(budget, draw(st.sampled_from([1, 1, 2, 2, 3, 4])))
        ops: list[list] = []
        for _ in range(nops):
            choices = ["drain"] * 4 + ["closing"]
            if not lost:
                choices += ["resume"] * 2 if paused else ["pause"] * 4
                choices += ["lost"]
            if ndrains:
                choices += ["cancel"] * 2
            kind = draw(st.sampled_from(choices))
            if kind == "drain":
                ops.append(["drain"])
                ndrains += 1
            elif kind == "cancel":
                ops.append(["cancel", draw(st.integers(0, ndrains - 1))])
            elif kind == "lost":
                ops.append(["lost", draw(st.sampled_from([None, None] + ERRNAMES))])
                lost, paused = True, False
            elif kind == "closing":
                ops.append(["closing", draw(st.booleans())])
            else:
                ops.append([kind])
                paused = kind == "pause"
        budget -= nops
        steps.append({"ops": ops, "gap": draw(st.sampled_from([0, 0, 1, 2]))})
    return {
        "steps": steps,
        "eager": draw(st.booleans()),
        "lost_errno": draw(st.sampled_from(["ECONNABORTED", "ECONNRESET"])),
        "finale": draw(st.sampled_from(["resume", "resume", "lost"] + ERRNAMES[:2])),
    }


# ==============================================================================================
# layers "stream" and "datagram": real protocols + adapters over the fake asyncio transports


def _payload(j: int, n: int, view: str | None = None) -> Any:
    data = bytes([0x41 + (j % 26)]) * n
    if view == "Q" and n >= 8:
        # the same bytes as a memoryview with 8-byte items (array / numpy / struct views): len() counts items
        import array

        arr = array.array("Q")
        arr.frombytes(data[: n - n % 8])
        return memoryview(arr)
    return data


def run_transport(case: dict) -> Outcome:
    from easynetwork.lowlevel.api_async.backend._asyncio.backend import AsyncIOBackend
    from easynetwork.lowlevel.api_async.backend._asyncio.datagram.endpoint import DatagramEndpoint, DatagramEndpointProtocol
    from easynetwork.lowlevel.api_async.backend._asyncio.datagram.listener import DatagramListenerProtocol, DatagramListenerSocketAdapter
    from easynetwork.lowlevel.api_async.backend._asyncio.datagram.socket import AsyncioTransportDatagramSocketAdapter
    from easynetwork.lowlevel.api_async.backend._asyncio.stream.socket import (
        AsyncioTransportStreamSocketAdapter,
        StreamReaderBufferedProtocol,
    )

    flavour = case["flavour"]  # stream | endpoint | listener
    eager = case["eager"]
    stats = {"max_parked": 0, "hit": False, "cancel_parked": False, "lost_parked": False, "resumed": 0, "aclose": False, "bufsize_nonzero_at_return": False}
    PEER = ("192.0.2.9", 9999)

    async def main() -> None:
        loop = asyncio.get_running_loop()
        backend = AsyncIOBackend()
        tr: Any
        if flavour == "stream":
            protocol: Any = StreamReaderBufferedProtocol(loop=loop)
            tr = FakeAsyncioTransport(loop, protocol, kernel_capacity=case["capacity"], max_send=case.get("max_send"))
            adapter: Any = AsyncioTransportStreamSocketAdapter(backend, tr, protocol)
            log = tr.write_log
        elif flavour == "endpoint":
            recv_queue: asyncio.Queue = asyncio.Queue()
            exception_queue: asyncio.Queue = asyncio.Queue()
            protocol = DatagramEndpointProtocol(loop=loop, recv_queue=recv_queue, exception_queue=exception_queue)
            tr = FakeAsyncioDatagramTransport(loop, protocol, address=PEER, kernel_slots=case["capacity"])
            endpoint = DatagramEndpoint(tr, protocol, recv_queue=recv_queue, exception_queue=exception_queue)
            adapter = AsyncioTransportDatagramSocketAdapter(backend, endpoint)
            log = tr.send_log
        else:
            protocol = DatagramListenerProtocol(loop=loop)
            tr = FakeAsyncioDatagramTransport(loop, protocol, address=None, kernel_slots=case["capacity"])
            adapter = DatagramListenerSocketAdapter(backend, tr, protocol)
            log = tr.send_log

        senders: list[dict] = []
        aclose_tasks: list[asyncio.Task] = []

        async def sender(rec: dict, sizes: list[int]) -> None:
            rec["log_index"] = len(log)
            rec["state"] = "running"
            j = rec["j"]
            try:
                if flavour == "stream":
                    if len(sizes) == 1:
                        await adapter.send_all(_payload(j, sizes[0]))
                    else:
                        await adapter.send_all_from_iterable([_payload(j, n) for n in sizes])
                elif flavour == "endpoint":
                    await adapter.send(_payload(j, sizes[0], case.get("view")))
                else:
                    await adapter.send_to(_payload(j, sizes[0], case.get("view")), PEER)
            except asyncio.CancelledError:
                rec["state"] = "cancelled"
                raise
            except BaseException as exc:  # noqa: BLE001
                rec["state"] = "failed"
                rec["exc"] = exc
                rec["lost_at_end"] = tr.connection_lost_called
            else:
                rec["state"] = "returned"
                rec["bufsize_at_return"] = tr.get_write_buffer_size()
                rec["resume_count_at_return"] = tr.resume_count
                if flavour == "stream":
                    rec["handed_at_return"] = tr.bytes_handed
                else:
                    rec["wire_len_at_return"] = len(tr.wire)

        def pending() -> list[dict]:
            return [r for r in senders if not r["task"].done() and not r["cancel"] and r["state"] == "running"]

        def verify(where: str, quiescent: bool = False) -> None:
            stats["max_parked"] = max(stats["max_parked"], len(pending()))
            for rec in senders:
                task: asyncio.Task = rec["task"]
                j = rec["j"]
                if rec["verified"]:
                    continue
                if not task.done():
                    if rec["cancel"]:
                        raise Violation("stranded", f"{where}: sender #{j} was cancelled but is still pending", sender=j, where=where)
                    if tr.connection_lost_called:
                        raise Violation(
                            "stranded",
                            f"{where}: sender #{j} is still pending although connection_lost({tr.connection_lost_exc!r}) was delivered",
                            sender=j,
                            where=where,
                            flavour=flavour,
                        )
                    if not tr.protocol_paused():
                        raise Violation(
                            "stranded",
                            f"{where}: sender #{j} is still pending although the transport resumed writing "
                            f"(buffer {tr.get_write_buffer_size()} bytes, {tr.resume_count} resume_writing calls)",
                            sender=j,
                            where=where,
                            flavour=flavour,
                        )
                    if quiescent:
                        raise Violation("stranded", f"{where}: sender #{j} is still pending", sender=j, where=where)
                    continue
                rec["verified"] = True
                if task.cancelled() or rec["state"] == "cancelled":
                    if not rec["cancel"]:
                        raise Violation("spurious-cancel", f"{where}: sender #{j} was cancelled but nobody cancelled it", sender=j)
                    continue
                if task.exception() is not None:
                    raise HarnessError(f"sender wrapper raised {task.exception()!r}")
                entry = log[rec["log_index"]] if rec["log_index"] < len(log) else None
                if entry is None or rec["empty"]:
                    if rec["empty"] and rec["state"] in ("returned", "failed"):
                        continue
                    raise HarnessError(f"sender #{j} finished without calling write()/sendto()")
                if rec["state"] == "failed":
                    exc = rec["exc"]
                    if not rec["lost_at_end"]:
                        raise Violation(
                            "spurious-failure", f"{where}: sender #{j} raised {exc!r} while the connection is alive", sender=j, flavour=flavour
                        ) from exc
                    if not isinstance(exc, OSError):
                        raise Violation(
                            "wrong-error", f"{where}: sender #{j} raised {type(exc).__name__}: {exc!r}, not a connection error", sender=j, flavour=flavour
                        ) from exc
                    continue
                # returned normally
                if entry["dropped"] and entry.get("error") is None:
                    raise Violation(
                        "lost-not-reported",
                        f"{where}: sender #{j} returned normally although the transport dropped its data (connection already lost)",
                        sender=j,
                        flavour=flavour,
                    )
                if flavour == "stream":
                    end = entry["start"] + entry["len"]
                    if rec["bufsize_at_return"]:
                        stats["bufsize_nonzero_at_return"] = True
                    if rec["handed_at_return"] < end:
                        missing = min(end - rec["handed_at_return"], entry["len"])
                        raise Violation(
                            "backpressure",
                            f"{where}: stream sender #{j} returned although {missing} of its {entry['len']} bytes had not been handed to the kernel "
                            f"(get_write_buffer_size() == {rec['bufsize_at_return']} at return, connection lost: {tr.connection_lost_called})",
                            sender=j,
                            flavour=flavour,
                        )
                if flavour != "stream" and not entry["dropped"]:
                    # datagrams leave the user-space queue in FIFO order: this sender's datagram has reached the kernel iff as
                    # many datagrams were handed over as were accepted (not dropped) up to and including its own
                    need = sum(1 for e in log[: entry["index"] + 1] if not e["dropped"])
                    if rec["wire_len_at_return"] < need:
                        raise Violation(
                            "backpressure",
                            f"{where}: datagram sender #{j} returned although its datagram was still queued in user space "
                            f"(get_write_buffer_size() == {rec['bufsize_at_return']} at return, {need - rec['wire_len_at_return']} datagram(s) "
                            f"not handed to the kernel, connection lost: {tr.connection_lost_called})",
                            sender=j,
                            flavour=flavour,
                        )
                if entry["paused_after"] and rec["resume_count_at_return"] <= entry["resume_count"]:
                    raise Violation(
                        "backpressure",
                        f"{where}: sender #{j} returned although its write paused the protocol and no resume_writing() happened since",
                        sender=j,
                        flavour=flavour,
                    )

        def lose(errname: str | None) -> None:
            tr.lose_connection(ERRORS[errname]() if errname else None)

        for si, step in enumerate(case["steps"]):
            for op in step["ops"]:
                kind = op[0]
                if kind in ("send", "sendv"):
                    sizes = [op[1]] if kind == "send" else list(op[1])
                    rec = {"j": len(senders), "cancel": False, "verified": False, "state": "new", "empty": sum(sizes) == 0}
                    rec["task"] = _spawn(loop, sender(rec, sizes), eager)
                    senders.append(rec)
                elif kind == "peer_read":
                    tr.peer_read(op[1])
                elif kind == "pump":
                    stats["resumed"] += 1 if tr.pump() else 0
                elif kind == "drain":
                    tr.drain(op[1])
                elif kind == "lost":
                    if len(pending()) >= 2:
                        stats["hit"] = True
                    if pending():
                        stats["lost_parked"] = True
                    lose(op[1])
                elif kind == "send_error":
                    tr.send_error = ERRORS[op[1]]()
                elif kind == "dgram_error":
                    tr.datagram_error = ERRORS[op[1]]()
                elif kind == "aclose":
                    stats["aclose"] = True
                    aclose_tasks.append(_spawn(loop, adapter.aclose(), eager))
                elif kind == "cancel":
                    j = op[1]
                    if j < len(senders):
                        r = senders[j]
                        if not r["task"].done() and not r["cancel"] and r["state"] == "running":
                            stats["cancel_parked"] = True
                            if len(pending()) >= 2:
                                stats["hit"] = True
                        r["task"].cancel()
                        r["cancel"] = True
                else:
                    raise HarnessError(f"unknown op {op!r}")
            # a sender started with create_task writes in the 1st iteration; if that write kills the connection,
            # connection_lost is delivered in the 2nd and the parked senders run in the 3rd
            await _ticks(4 + step["gap"])
            verify(f"after step {si}")

        # quiescence
        if case["finale"] == "drain":
            # the peer reads again, and fast: the kernel pipe stops being the bottleneck
            if flavour == "stream":
                tr.kernel_capacity = None
                tr.max_send = None
            else:
                tr.kernel_slots = None
            for _ in range(200):
                if not tr.wants_write() or tr.connection_lost_called:
                    break
                tr.drain(None)
                await _ticks(1)
            else:
                raise HarnessError("fake transport never drained")
        else:
            lose(None if case["finale"] == "lost" else case["finale"])
        await _ticks(4)
        verify("at quiescence", quiescent=True)
        # teardown (also finishes pending aclose() calls)
        aclose_tasks.append(loop.create_task(adapter.aclose()))
        await _ticks(4)
        if not tr.connection_lost_called:
            raise HarnessError("the fake transport did not deliver connection_lost() at teardown")
        for t in aclose_tasks:
            if not t.done():
                raise Violation("stranded", "aclose() is still pending after the connection was lost / flushed", flavour=flavour)
            if not t.cancelled() and t.exception() is not None:
                raise Violation("aclose-failed", f"aclose() raised {t.exception()!r}", flavour=flavour)
        lossy = any(op[0] in ("lost", "send_error") for step in case["steps"] for op in step["ops"])
        if flavour == "stream" and not lossy and case["finale"] == "drain":
            total = sum(e["len"] for e in tr.write_log if not e["dropped"])
            if tr.bytes_handed != total:
                raise Violation("bytes-missing", f"{total} bytes were accepted by write() but {tr.bytes_handed} reached the kernel after a full drain")

    try:
        run_virtual(main, max_ticks=20_000)
    except Deadlock as exc:
        raise Violation("deadlock", str(exc), flavour=flavour) from exc
    classes = [f"flavour-{flavour}", f"max-parked-{min(stats['max_parked'], 3)}", "eager" if eager else "lazy"]
    for key in ("cancel_parked", "lost_parked", "aclose", "bufsize_nonzero_at_return"):
        if stats[key]:
            classes.append(key.replace("_", "-"))
    return Outcome(nontrivial=stats["hit"], classes=tuple(classes))


def _st_transport(flavours: list[str]):  # type: ignore[no-untyped-def]
    @st.composite
    def strat(draw: st.DrawFn, tier: str) -> dict:
        flavour = draw(st.sampled_from(flavours))
        stream = flavour == "stream"
        if stream:
            capacity = draw(st.sampled_from([0, 0, 1, 4, 16, 64]))
            sizes = [1, 2, 5, 16, 17, 64, 100]
        else:
            capacity = draw(st.sampled_from([0, 0, 1, 2]))
            sizes = [1, 1000, 30000, 40000, 40000, 65000, 65507, 65507]
        steps = []
        nsend = 0
        lost = closed = False
        budget = draw(st.integers(4, 10 if tier == "quick" else 14))
        if draw(st.integers(0, 2)) > 0:
            # most schedules start with a few senders hitting a peer that does not read
            k = draw(st.integers(2, 3)) + (0 if stream else 1)
            big = sizes[-3:] if not stream else sizes
            steps.append({"ops": [["send", draw(st.sampled_from(big))] for _ in range(k)], "gap": draw(st.sampled_from([0, 0, 1]))})
            nsend = k
            budget -= k
        while budget > 0:
            nops = min(budget, draw(st.sampled_from([1, 1, 2, 2, 3])))
            ops: list[list] = []
            for _ in range(nops):
                choices = []
                if not closed:
                    choices += ["send"] * 5
                    if stream:
                        choices += ["sendv"]
                if not lost:
                    choices += ["peer_read", "pump", "drain", "drain"]
                    choices += ["lost"]
                    if not closed:
                        choices += ["aclose"]
                    choices += ["send_error"] if stream else ["dgram_error"]
                if nsend:
                    choices += ["cancel"] * 2
                if not choices:
                    break
                kind = draw(st.sampled_from(choices))
                if kind == "send":
                    ops.append(["send", draw(st.sampled_from(sizes))])
                    nsend += 1
                elif kind == "sendv":
                    ops.append(["sendv", draw(st.lists(st.sampled_from(sizes + [0]), min_size=2, max_size=4))])
                    nsend += 1
                elif kind in ("peer_read", "drain"):
                    if stream:
                        ops.append([kind, draw(st.sampled_from([None, 1, 3, 16, 50, 200]))])
                    else:
                        ops.append([kind, draw(st.sampled_from([None, 1, 1, 2]))])
                elif kind == "cancel":
                    ops.append(["cancel", draw(st.integers(0, nsend - 1))])
                elif kind == "lost":
                    ops.append(["lost", draw(st.sampled_from([None, None] + ERRNAMES))])
                    lost = True
                elif kind in ("send_error", "dgram_error"):
                    ops.append([kind, draw(st.sampled_from(ERRNAMES))])
                elif kind == "aclose":
                    ops.append(["aclose"])
                    closed = True
                else:
                    ops.append([kind])
            budget -= nops
            if ops:
                steps.append({"ops": ops, "gap": draw(st.sampled_from([0, 0, 1, 2]))})
        case = {
            "flavour": flavour,
            "capacity": capacity,
            "steps": steps,
            "eager": draw(st.booleans()),
            "finale": draw(st.sampled_from(["drain", "drain", "lost"] + ERRNAMES[:2])),
        }
        if not stream and draw(st.integers(0, 3)) == 0:
            case["view"] = "Q"  # datagrams given as memoryviews with 8-byte items
        if stream:
            case["max_send"] = draw(st.sampled_from([None, None, 1, 7]))
        return case

    return strat


# ==============================================================================================
# layer "real": a real socketpair whose peer does not read


# On CPython 3.12.1 `_SelectorSocketTransport.writelines()` does not call `_maybe_pause_protocol()`, so
# `send_all_from_iterable()` over a real socket returns while its data is still in the user-space buffer
# (listed in known_findings.json; the committed replay replays/C20-writelines-3121.json carries "known_finding_probe": true, which
# bypasses the exclusion so that every run re-observes the finding and prints its KNOWN-FINDING line).  Generated cases exclude the shape
# by construction so that the search continues past it.
EXCLUDE_WRITELINES_STDLIB = False  # repaired in /repo: the adapter no longer uses writelines(); the shape is searched again


def run_real(case: dict) -> Outcome:
    from easynetwork.lowlevel.api_async.backend._asyncio.backend import AsyncIOBackend

    if case.get("api") == "iterable" and EXCLUDE_WRITELINES_STDLIB and not case.get("known_finding_probe"):
        return Outcome(nontrivial=False, classes=("excluded-writelines-stdlib",))
    size = case["size"]
    nsends = case["nsends"]
    watchdog = 60.0
    result: dict[str, Any] = {}

    async def main() -> None:
        backend = AsyncIOBackend()
        a, b = _socket.socketpair()
        try:
            if case.get("sndbuf"):
                a.setsockopt(_socket.SOL_SOCKET, _socket.SO_SNDBUF, case["sndbuf"])
            transport = await backend.wrap_stream_socket(a)
            aio_transport = getattr(transport, "_AsyncioTransportStreamSocketAdapter__transport")
            result["limits"] = aio_transport.get_write_buffer_limits()
            chunk = size // nsends
            progress = {"returned": 0, "bufsizes": []}

            async def send_all() -> None:
                for i in range(nsends):
                    data: Any = bytes([65 + i]) * chunk
                    if case.get("view") == "Q" and case.get("api") != "iterable":
                        # the same bytes as a memoryview with 8-byte items (array / numpy / struct views): send_all() is
                        # typed bytes | bytearray | memoryview
                        import array

                        arr = array.array("Q")
                        arr.frombytes(data[: chunk - chunk % 8])
                        data = memoryview(arr)
                    elif case.get("view") == "2D" and case.get("api") != "iterable":
                        # (preceded by the same kind of view sliced to zero rows: an empty chunk like any other)
                        await transport.send_all(memoryview(bytearray(8)).cast("B", [2, 4])[0:0])
                        # contiguous bytes with two dimensions (an image, a ctypes 2-D array): len() counts rows
                        data = memoryview(data[: chunk - chunk % 1024]).cast("B", shape=[(chunk - chunk % 1024) // 1024, 1024])
                    if case.get("api") == "iterable":
                        step = chunk // 16
                        await transport.send_all_from_iterable([data[o : o + step] for o in range(0, chunk, step)])
                    else:
                        await transport.send_all(data)
                    progress["returned"] += 1
                    progress["bufsizes"].append(aio_transport.get_write_buffer_size())

            task = asyncio.get_running_loop().create_task(send_all())
            # the peer does not read: after a bounded number of loop iterations (and a little real time for the
            # kernel buffers to fill) the sender must be parked inside the first send_all()
            peak = 0
            for i in range(case["iterations"]):
                await asyncio.sleep(0 if i % 10 else 0.001)
                peak = max(peak, aio_transport.get_write_buffer_size())
            result["pending_while_blocked"] = not task.done()
            result["returned_while_blocked"] = progress["returned"]
            result["peak_buffer"] = peak

            received = bytearray()
            done_reading = threading.Event()

            def reader() -> None:
                b.settimeout(watchdog)
                try:
                    while len(received) < chunk * nsends:
                        data = b.recv(1 << 20)
                        if not data:
                            break
                        received.extend(data)
                except OSError:
                    pass
                finally:
                    done_reading.set()

            th = threading.Thread(target=reader, daemon=True)
            th.start()
            try:
                await asyncio.wait_for(asyncio.shield(task), watchdog)
                result["completed"] = True
            except asyncio.TimeoutError:
                result["completed"] = False
                task.cancel()
            result["bufsizes"] = progress["bufsizes"]
            result["final_buffer"] = aio_transport.get_write_buffer_size()
            await asyncio.get_running_loop().run_in_executor(None, done_reading.wait, 10.0)
            result["received"] = len(received)
            if case.get("view") == "Q" and case.get("api") != "iterable":
                chunk -= chunk % 8
            elif case.get("view") == "2D" and case.get("api") != "iterable":
                chunk -= chunk % 1024
            result["content_ok"] = bytes(received) == b"".join(bytes([65 + i]) * chunk for i in range(nsends))
            await transport.aclose()
        finally:
            a.close()
            b.close()

    t0 = time.monotonic()
    asyncio.run(main())
    wall = time.monotonic() - t0
    chunk = size // nsends
    if result["limits"] != (0, 0):
        raise Violation("buffer-limits", f"write buffer limits are {result['limits']}, expected (0, 0)")
    if not result["pending_while_blocked"]:
        raise Violation(
            "backpressure",
            f"{size} bytes were 'sent' in {result['returned_while_blocked']} completed send calls (api {case.get('api', 'send_all')}) while the peer was not reading "
            f"(peak user-space buffer {result['peak_buffer']})",
            api=case.get("api", "send_all"),
            where="real-socket",
        )
    if result["returned_while_blocked"] * chunk > 6 * 1024 * 1024:
        # more than the kernel can plausibly hold on a socketpair (a few hundred KiB) were reported as sent
        raise Violation("backpressure", f"{result['returned_while_blocked']} sends of {chunk} bytes returned while the peer was not reading")
    if result["peak_buffer"] > chunk:
        raise Violation("unbounded-buffer", f"user-space write buffer reached {result['peak_buffer']} bytes, more than one send ({chunk})")
    if not result["completed"]:
        raise Inconclusive(f"send did not complete within {watchdog}s after the peer started reading (wall {wall:.1f}s)")
    if any(result["bufsizes"]):
        raise Violation("backpressure", f"get_write_buffer_size() at send_all() return: {result['bufsizes']}")
    if result["received"] != chunk * nsends or not result["content_ok"]:
        raise Violation("bytes-missing", f"peer received {result['received']} of {chunk * nsends} bytes (content ok: {result['content_ok']})")
    return Outcome(nontrivial=True, classes=(f"api-{case.get('api', 'send_all')}", f"nsends-{nsends}", f"peak-buffer-{'full' if result['peak_buffer'] >= chunk // 2 else 'partial'}"))


def st_real(tier: str):  # type: ignore[no-untyped-def]
    return st.fixed_dictionaries(
        {
            "size": st.just(8 << 20),
            "nsends": st.sampled_from([1, 2, 8]),
            "iterations": st.sampled_from([50, 100, 200]),
            "sndbuf": st.sampled_from([0, 65536]),
            "api": st.sampled_from(["send_all", "send_all", "send_all", "iterable"]),
            "view": st.sampled_from(["bytes", "bytes", "Q", "2D"]),
        }
    )


# ==============================================================================================

CHECK = Check(
    id="C20",
    level="exploration",
    rule=(
        "case = list of steps (operations applied inside one loop iteration, then a few + gap iterations): flow layer ops = "
        "pause_writing/resume_writing/connection_lost(exc|None)/drain()/cancel(j)/is_closing flag on WriteFlowControl vs a waiter-set "
        "model; stream/datagram layer ops = sender j send_all(n)/send_all_from_iterable/send/send_to, peer reads k, writable "
        "notification, connection loss (with/without exception, or failing kernel send), aclose, cancel sender j, over "
        "FakeAsyncioTransport/FakeAsyncioDatagramTransport with a generated kernel capacity under the real protocols and adapters, "
        "eager or next-iteration task start, finale = peer drains everything or connection lost; non-trivial = at least 2 senders "
        "parked at once and a cancel or connection loss is applied while they are parked; the real layer (a handful of cases) is always "
        "non-trivial; distinct = sha1 of the canonical case JSON"
    ),
    layers=[
        Layer("flow", st_flow, run_flow, {"quick": 1500, "thorough": 6000}),
        Layer("stream", _st_transport(["stream"]), run_transport, {"quick": 1200, "thorough": 5000}),
        Layer("datagram", _st_transport(["endpoint", "listener"]), run_transport, {"quick": 800, "thorough": 3000}),
        Layer("real", st_real, run_real, {"quick": 8, "thorough": 24}, shards=1, case_timeout_s=200.0),
    ],
    assumptions=[
        "the asyncio selector transports are replaced by pbt/fakeasyncio.py (same callback order and water-mark code, harness-driven kernel pipe); "
        "its writelines() pauses the protocol like write() does; on this 3.12.1 interpreter the real selector transport's writelines() never calls "
        "_maybe_pause_protocol(), so send_all_from_iterable() on a real socket returns with the data still in user space — that shape is excluded "
        "from the real layer behind EXCLUDE_WRITELINES_STDLIB (counted as class excluded-writelines-stdlib; the committed replay with known_finding_probe re-observes it)",
        "with several concurrent senders 'its bytes have been handed to the OS' is judged per sender from the transport's write log "
        "(get_write_buffer_size()==0 at return is the single-sender special case and is what the real layer checks)",
        "datagram senders are judged like stream senders: when send()/send_to() returns, as many datagrams must have been handed to the "
        "kernel as were accepted up to and including the sender's own (FIFO); datagrams dropped by a non-fatal socket error are not counted",
        "senders are not started after aclose() (write() after write_eof() is a caller error in asyncio); pause/resume notifications strictly "
        "alternate and stop after connection_lost, as _FlowControlMixin guarantees",
        "real layer: wall-clock watchdog 60 s; an expiry is recorded as inconclusive",
    ],
)
