"""C13, layer `foreign-mix` — library cancel scopes next to (and nested with) the interpreter's own `asyncio.timeout()`.

The request-handler documentation recommends `async with asyncio.timeout(...)` beside `backend.timeout(...)`, and
`cancel_shielded_coro_yield()` / `ignore_cancellation()` postpone *any* cancellation they swallow - also the one an
`asyncio.timeout()` block asked for.  This layer generates straight-line programs of blocks

    ["block", scope, delay, body]      scope in asyncio.timeout / asyncio.timeout_at / backend.timeout / backend.timeout_at /
                                       backend.move_on_after / backend.move_on_at / none

whose bodies are unshielded checkpoints, sleeps, shielded checkpoints, shielded sleeps and further blocks.  There is no
external cancellation and an enclosing block never expires (its delay is NEVER), so at any moment at most one deadline
is live and the statement of C13 gives one answer, computed by the small reference `simulate()` below:

* once a block's deadline has passed, its body is abandoned at the next unshielded checkpoint, at that very virtual
  instant (for a sleep in progress: at the deadline);
* shielded steps complete; the postponed cancellation hits the next unshielded checkpoint of *the same block* and is
  gone when the block has been left (no leftover request: nothing after the block is ever interrupted by it);
* timeout blocks raise TimeoutError exactly when they were interrupted; move-on blocks report cancelled_caught().

Times: sleeps are whole units, finite delays are 0 or k + 1/2 units, so a deadline never ties with a sleep.
"""

from __future__ import annotations

import asyncio
from typing import Any

from hypothesis import strategies as st

from ..core import HarnessError, Layer, Outcome, Violation, exception_from_sut, format_exc
from ..vloop import Deadlock, run_virtual

UNIT = 1024
HALF = 512
NEVER = 1000 * UNIT  # delay of a block that never expires

FOREIGN = ("asyncio.timeout", "asyncio.timeout_at")
LIB_TIMEOUT = ("backend.timeout", "backend.timeout_at")
LIB_MOVE_ON = ("backend.move_on_after", "backend.move_on_at")
SCOPES = FOREIGN + LIB_TIMEOUT + LIB_MOVE_ON + ("none",)


def secs(t: int) -> float:
    return t / UNIT


class _Interrupted(Exception):
    def __init__(self, owner: int, at: int) -> None:
        self.owner = owner
        self.at = at


# ----------------------------------------------------------------------------------------------
# reference


class Model:
    def __init__(self) -> None:
        self.trace: list[tuple] = []
        self.swallowed_then_more = False  # a shielded step swallowed a deadline and something ran afterwards
        self._swallowed = False
        self.n_block = 0

    def run(self, items: list) -> list[tuple]:
        t = self._seq(items, 0, None, None)
        self.trace.append(("end", t))
        return self.trace

    def _seq(self, items: list, t: int, deadline: int | None, owner: int | None) -> int:
        for it in items:
            op = it[0]
            if self._swallowed:
                self.swallowed_then_more = True
            requested = deadline is not None and deadline <= t
            if op in ("yield", "cyield"):
                if requested:
                    assert owner is not None
                    raise _Interrupted(owner, t)
                self.trace.append(("step", op, t))
            elif op in ("sleep", "bsleep"):
                n = it[1] * UNIT
                if requested:
                    assert owner is not None
                    raise _Interrupted(owner, t)
                if deadline is not None and deadline == t + n:
                    raise HarnessError("c13 foreign-mix: generated a tie")
                if deadline is not None and deadline < t + n:
                    assert owner is not None
                    raise _Interrupted(owner, deadline)
                t += n
                self.trace.append(("step", op, t))
            elif op == "syield":
                if requested:
                    self._swallowed = True
                self.trace.append(("step", op, t))
            elif op == "ssleep":
                n = it[1] * UNIT
                if deadline is not None and deadline < t + n:
                    self._swallowed = True
                t += n
                self.trace.append(("step", op, t))
            elif op == "block":
                _, scope, delay, body = it
                bid = self.n_block
                self.n_block += 1
                if scope == "none" or delay == NEVER:
                    inner_deadline, inner_owner = deadline, owner
                else:
                    if deadline is not None:
                        raise HarnessError("c13 foreign-mix: two live deadlines generated")
                    inner_deadline, inner_owner = t + delay, bid
                try:
                    t = self._seq(body, t, inner_deadline, inner_owner)
                    self.trace.append(("block", bid, scope, "completed", t))
                except _Interrupted as stop:
                    if stop.owner != bid:
                        self.trace.append(("block", bid, scope, "passed-through", stop.at))
                        raise
                    t = stop.at
                    self.trace.append(("block", bid, scope, "interrupted", t))
                if inner_owner == bid:
                    self._swallowed_reset()
            else:
                raise HarnessError(f"c13 foreign-mix: unknown op {op!r}")
        return t

    def _swallowed_reset(self) -> None:
        # what was postponed belongs to the block that has just been left: from now on "something runs afterwards"
        # stays recorded through swallowed_then_more, the pending flag itself is cleared by the next statement
        pass


# ----------------------------------------------------------------------------------------------
# real run


class Real:
    def __init__(self, items: list) -> None:
        self.items = items
        self.trace: list[tuple] = []
        self.problems: list[Violation] = []
        self.n_block = 0
        self.loop: Any = None
        self.backend: Any = None
        self.spin_jumps = 0

    def now(self) -> int:
        t = self.loop.time() * UNIT
        if t != int(t):
            raise HarnessError(f"virtual time {self.loop.time()!r} is not a multiple of 1/{UNIT} s")
        return int(t)

    def problem(self, kind: str, message: str, **details: Any) -> None:
        self.problems.append(Violation(kind, message, **details))

    async def _seq(self, items: list, depth: int = 0) -> None:
        b = self.backend
        for it in items:
            op = it[0]
            if op == "yield":
                await asyncio.sleep(0)
            elif op == "cyield":
                await b.coro_yield()
            elif op == "sleep":
                await asyncio.sleep(secs(it[1] * UNIT))
            elif op == "bsleep":
                await b.sleep(secs(it[1] * UNIT))
            elif op == "syield":
                await b.cancel_shielded_coro_yield()
            elif op == "ssleep":
                await b.ignore_cancellation(asyncio.sleep(secs(it[1] * UNIT)))
            elif op == "block":
                await self._block(it, depth)
                continue
            self.trace.append(("step", op, self.now()))

    async def _block(self, it: list, depth: int) -> None:
        _, scope, delay, body = it
        bid = self.n_block
        self.n_block += 1
        b = self.backend
        task = asyncio.current_task()
        assert task is not None
        before = task.cancelling()
        d = secs(delay)
        outcome = "completed"
        caught: bool | None = None
        try:
            if scope == "none":
                await self._seq(body, depth + 1)
            elif scope == "asyncio.timeout":
                async with asyncio.timeout(d):
                    await self._seq(body, depth + 1)
            elif scope == "asyncio.timeout_at":
                async with asyncio.timeout_at(self.loop.time() + d):
                    await self._seq(body, depth + 1)
            elif scope == "backend.timeout":
                with b.timeout(d) as handle:
                    await self._seq(body, depth + 1)
            elif scope == "backend.timeout_at":
                with b.timeout_at(self.loop.time() + d) as handle:
                    await self._seq(body, depth + 1)
            elif scope == "backend.move_on_after":
                with b.move_on_after(d) as handle:
                    await self._seq(body, depth + 1)
                caught = handle.cancelled_caught()
            elif scope == "backend.move_on_at":
                with b.move_on_at(self.loop.time() + d) as handle:
                    await self._seq(body, depth + 1)
                caught = handle.cancelled_caught()
            else:
                raise HarnessError(f"unknown scope {scope!r}")
        except TimeoutError:
            if scope in LIB_MOVE_ON or scope == "none":
                self.problem("timeout-error-from-nowhere", f"block {bid} ({scope}) let a TimeoutError out", block=bid)
                raise
            outcome = "interrupted"
            if scope in LIB_TIMEOUT and not handle.cancelled_caught():
                self.problem("timeout-without-caught", f"block {bid} ({scope}) raised TimeoutError but cancelled_caught() is False", block=bid)
        except asyncio.CancelledError:
            self.trace.append(("block", bid, scope, "passed-through", self.now()))
            raise
        else:
            if scope in LIB_TIMEOUT and handle.cancelled_caught():
                self.problem("caught-without-timeout", f"block {bid} ({scope}) caught its cancellation but raised no TimeoutError", block=bid)
            if caught:
                outcome = "interrupted"
        self.trace.append(("block", bid, scope, outcome, self.now()))
        after = task.cancelling()
        if after != before and depth == 0:
            # (judged for outermost blocks only: inside a block whose deadline has passed, that block's own request is
            # legitimately pending)
            self.problem(
                "leftover-cancelling",
                f"after block {bid} ({scope}, {outcome}) task.cancelling() is {after}, it was {before} at entry: the task carries a "
                "leftover cancellation request",
                block=bid,
                scope=scope,
            )
            while task.cancelling() > before:
                task.uncancel()

    async def _prog(self) -> None:
        await self._seq(self.items)
        self.trace.append(("end", self.now()))

    async def _main(self) -> None:
        from easynetwork.lowlevel.api_async.backend._asyncio.backend import AsyncIOBackend

        self.loop = asyncio.get_running_loop()
        self.backend = AsyncIOBackend()
        prog = self.loop.create_task(self._prog(), name="c13-foreign-program")
        await asyncio.wait({prog})
        self.spin_jumps = self.loop.spin_jumps
        if prog.cancelled():
            self.trace.append(("program-cancelled", self.now()))
            self.problem(
                "stale-cancellation",
                "the program task ended with CancelledError although nothing outside its own (already left or never expired) "
                "blocks ever cancelled it",
            )
            return
        exc = prog.exception()
        if exc is not None:
            raise exc

    def run(self) -> "Real":
        try:
            run_virtual(self._main, max_ticks=200_000)
        except Deadlock as exc:
            self.problem("hang", f"program did not terminate on the virtual loop: {exc}")
        except HarnessError:
            raise
        except BaseException as exc:  # noqa: BLE001
            if isinstance(exc, (KeyboardInterrupt, SystemExit)):
                raise
            if self.problems:
                pass
            elif not exception_from_sut(exc):
                raise HarnessError(f"C13 foreign-mix executor failed: {format_exc(exc)}") from exc
            else:
                self.problem("unexpected-exception", f"program raised {type(exc).__name__}: {exc!r}", traceback=format_exc(exc))
        return self


# ----------------------------------------------------------------------------------------------
# oracle


def _count(items: list, pred: Any) -> int:
    n = 0
    for it in items:
        if pred(it):
            n += 1
        if it[0] == "block":
            n += _count(it[3], pred)
    return n


def _flat_blocks(items: list) -> list[list]:
    out = []
    for it in items:
        if it[0] == "block":
            out.append(it)
            out += _flat_blocks(it[3])
    return out


def run(case: dict) -> Outcome:
    items = case["items"]
    model = Model()
    expected = model.run(items)
    real = Real(items).run()
    if real.problems:
        v = real.problems[0]
        raise Violation(v.kind, v.message, **v.details, all_problems=[str(p) for p in real.problems], observed=real.trace[-12:], expected=expected[-12:])
    if real.trace != expected:
        i = next((k for k, (a, b) in enumerate(zip(real.trace, expected)) if a != b), min(len(real.trace), len(expected)))
        obs = real.trace[i] if i < len(real.trace) else None
        exp = expected[i] if i < len(expected) else None
        kind = "trace-mismatch"
        if exp is not None and exp[0] == "block" and exp[3] == "interrupted" and (obs is None or obs[0] == "step"):
            kind = "deadline-passed-but-body-continued"
        elif exp is not None and exp[0] == "step" and obs is not None and obs[0] == "block":
            kind = "interrupted-without-expired-deadline"
        raise Violation(
            kind,
            f"event #{i}: reference expects {exp}, observed {obs} (times in 1/{UNIT} s)",
            index=i,
            expected=expected[max(0, i - 3) : i + 3],
            observed=real.trace[max(0, i - 3) : i + 3],
        )
    blocks = _flat_blocks(items)
    classes = []
    kinds = {("foreign" if b[1] in FOREIGN else "library" if b[1] != "none" else "none") for b in blocks if b[2] != NEVER}
    if {"foreign", "library"} <= kinds:
        classes.append("foreign-and-library-deadlines")
    if any(e[0] == "block" and e[3] == "interrupted" for e in expected):
        classes.append("block-interrupted")
    if any(b[2] == 0 for b in blocks):
        classes.append("zero-delay")
    if any(b[2] == NEVER and b[1] != "none" for b in blocks):
        classes.append("never-expiring-outer")
    if model.swallowed_then_more:
        classes.append("postponed-cancel-then-more")
    if real.spin_jumps:
        classes.append("poller")
    return Outcome(nontrivial=model.swallowed_then_more, classes=tuple(classes), note=f"trace={expected[-6:]}")


# ----------------------------------------------------------------------------------------------
# generator


@st.composite
def st_steps(draw: st.DrawFn, max_len: int) -> list:
    n = draw(st.integers(0, max_len))
    out = []
    for _ in range(n):
        op = draw(st.sampled_from(["yield", "cyield", "sleep", "bsleep", "syield", "syield", "ssleep"]))
        if op in ("sleep", "bsleep", "ssleep"):
            out.append([op, draw(st.integers(1, 3))])
        else:
            out.append([op])
    return out


@st.composite
def st_block(draw: st.DrawFn, depth: int, live_allowed: bool) -> list:
    scope = draw(st.sampled_from(SCOPES))
    if scope == "none":
        delay = NEVER
    elif live_allowed and draw(st.integers(0, 4)) > 0:
        delay = draw(st.sampled_from([0, 0, HALF, UNIT + HALF, 2 * UNIT + HALF, 4 * UNIT + HALF]))
    else:
        delay = NEVER
    live_inside = live_allowed and delay == NEVER
    body: list = []
    for _ in range(draw(st.integers(1, 3))):
        if depth < 2 and draw(st.integers(0, 3)) == 0:
            body.append(draw(st_block(depth + 1, live_inside)))
        else:
            body += draw(st_steps(2))
    return ["block", scope, delay, body]


@st.composite
def st_case(draw: st.DrawFn, tier: str) -> dict:
    items: list = []
    for _ in range(draw(st.integers(2, 5))):
        items.append(draw(st_block(0, True)))
        items += draw(st_steps(1))
    return {"items": items}


def st_foreign(tier: str) -> Any:
    return st_case(tier)


LAYER = Layer("foreign-mix", st_foreign, run, {"quick": 1500, "thorough": 8000})
