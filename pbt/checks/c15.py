"""C15 — stream server: each request reaches the handler exactly once, in order (DESIGN.md section 3, C15).

A case is: serializer spec + receive path + max_recv_size, a list of good / malformed frames, a partition of the
resulting byte stream with integer virtual arrival gaps, the position of the client's EOF (or none), and a *handler
shape* (pure data) interpreted by one generic request handler that logs everything it observes.  A reference model
(pure Python, no asyncio) replays frames + arrival times against the shape and predicts that log; the unmodified
server runs on the virtual-time loop over the in-memory transports and its log must equal the prediction.

Time discipline (ties are impossible by construction): chunk / EOF arrival times and handler "work" sleeps are
integers; the j-th yielded timeout of a connection is `base_j + 2**-(j+1)`, so no deadline (a sum of an integer and
distinct negative powers of two) is ever an integer.  A yielded timeout of exactly 0 is also generated; it is only
judged when its outcome is unambiguous (next request already inside the consumer, or not yet arrived at all),
otherwise the comparison stops at that yield (class `zero-timeout-ambiguous`).
"""

from __future__ import annotations

import asyncio
import contextlib
import logging
from typing import Any

from hypothesis import strategies as st

from easynetwork.exceptions import StreamProtocolParseError
from easynetwork.lowlevel.api_async.servers.stream import AsyncStreamServer
from easynetwork.servers.async_tcp import AsyncTCPNetworkServer
from easynetwork.servers.handlers import AsyncStreamClient, AsyncStreamRequestHandler
from easynetwork.servers.misc import build_lowlevel_stream_server_handler

from .. import drivers, zoo
from ..core import Check, HarnessError, Layer, Outcome, Violation
from ..memtransports import MemListener, MemStreamTransport, VerifBackend
from ..vloop import Deadlock, run_virtual

T_END = 100_000.0  # virtual seconds after which the case is judged (far beyond every generated event)
MAX_TIMEOUTS = 14
SAME_TIME_RUN_MAX = 24


# ----------------------------------------------------------------------------------------------
# frames


def _is_marked(p: Any) -> bool:
    """packets that the harness converter / harness serializers treat as malformed (never generated as *good*)"""
    if p == "!bad" or p == b"!bad":
        return True
    if isinstance(p, dict) and "!bad" in p:
        return True
    if isinstance(p, (bytes, bytearray)) and (bytes(p).startswith(zoo.BAD_MARK) or bytes(p[:1]) == b"\xff"):
        return True
    return False


def bad_frame_bytes(spec: dict, fill: bytes) -> bytes:
    """A malformed frame for `spec`: one parse error when its last byte is received, nothing else disturbed."""
    k = spec["kind"]
    if k == "line":
        nl = zoo.NEWLINES[spec["newline"]]
        body = b"\xff\xfe" + bytes(b for b in fill if b not in nl and b < 0x80)
        return body + nl
    if k == "json":
        body = b'{"a": nope' + bytes(b for b in fill if b not in b"\n\r" and 0x20 <= b < 0x7F) + b"}"
        return body + b"\n"
    if k == "autosep":
        sep = spec["separator"]
        body = zoo.BAD_MARK + bytes(b for b in fill if b not in sep)
        while (body + sep).find(sep) != len(body):  # documented precondition: separator not inside the payload
            idx = (body + sep).find(sep)
            body = body[:idx] + body[idx + 1 :]
        if not body.startswith(zoo.BAD_MARK):
            raise HarnessError("bad autosep frame lost its mark")
        return body + sep
    if k == "lenprefixed":
        return b"%d\n" % len(fill) + fill + bytes([(sum(fill) + 1) & 0xFF])
    if k == "hfile":
        payload = b"\xff" + fill
        return len(payload).to_bytes(2, "big") + payload
    raise HarnessError(f"no malformed frame for kind {k}")


def conv_bad_packet(spec: dict) -> Any:
    k = spec["kind"]
    if k == "line":
        return "!bad"
    if k == "json":
        return {"!bad": 1}
    return b"!bad"


def frame_bytes(entry: zoo.Entry, spec: dict, fr: dict) -> bytes:
    if fr["k"] == "good":
        return b"".join(entry.frame(fr["p"]))
    if fr["k"] == "conv":
        # a well-formed frame whose packet the converter refuses (PacketConversionError)
        return b"".join(entry.stream_protocol().generate_chunks(zoo.Wrapped(conv_bad_packet(spec))))
    return bad_frame_bytes(spec, fr["fill"])


# ----------------------------------------------------------------------------------------------
# strategy


@st.composite
def st_spec(draw: st.DrawFn) -> dict:
    k = draw(st.sampled_from(["line", "line", "json", "autosep", "lenprefixed", "hfile"]))
    if k == "line":
        spec: dict = {
            "kind": "line",
            "newline": draw(st.sampled_from(["LF", "CR", "CRLF"])),
            "encoding": draw(st.sampled_from(["ascii", "utf-8"])),
            "keep_end": False,
        }
    elif k == "json":
        spec = {"kind": "json", "use_lines": draw(st.sampled_from([True, True, False])), "ensure_ascii": True, "encoding": "utf-8"}
    elif k == "autosep":
        spec = {"kind": "autosep", "separator": draw(st.sampled_from(zoo.SEPARATORS_1_3)), "check": True}
    else:
        spec = {"kind": k}
    if draw(st.integers(0, 4)) == 0:
        spec["conv"] = True
    return spec


def _st_timeouts(draw: st.DrawFn) -> list:
    n = draw(st.integers(0, MAX_TIMEOUTS))
    out: list = []
    if draw(st.integers(0, 4)) == 0:
        # the "drain what is already there" handler: wait for one request, then poll with timeout 0 until nothing is left
        for j in range(draw(st.integers(1, 3))):
            out.append(draw(st.sampled_from([None, None, 1 + 2.0 ** -(len(out) + 1)])))
            out += [0.0] * draw(st.integers(1, 4))
        return out[:MAX_TIMEOUTS]
    for j in range(n):
        r = draw(st.integers(0, 9))
        if r <= 3:
            out.append(None)
        elif r <= 5:
            out.append(0.0)
        else:
            out.append(draw(st.sampled_from([0, 0, 1, 1, 2, 3, 6])) + 2.0 ** -(j + 1))
    return out


@st.composite
def st_case(draw: st.DrawFn, tier: str, sut: str) -> dict:
    if sut == "highlevel":
        draw(st.integers(0, 7))  # de-correlate the two layers (the runner seeds them identically)
    spec = draw(st_spec())
    entry = zoo.build(spec)
    can_be_bad = not (spec["kind"] == "json" and not spec["use_lines"])
    n = draw(st.integers(1, 8))
    pkt = zoo.st_packet(spec).filter(lambda p: not _is_marked(p))
    frames: list[dict] = []
    for _ in range(n):
        r = draw(st.integers(0, 9))
        if r >= 7 and can_be_bad:
            if spec.get("conv") and r == 7:
                frames.append({"k": "conv"})
            else:
                frames.append({"k": "bad", "fill": draw(st.binary(max_size=6))})
        else:
            frames.append({"k": "good", "p": draw(pkt)})
    raws = [frame_bytes(entry, spec, fr) for fr in frames]
    stream = b"".join(raws)
    boundaries = []
    pos = 0
    for r_ in raws:
        pos += len(r_)
        boundaries.append(pos)

    # client disconnect position
    r = draw(st.integers(0, 19))
    if r <= 2:
        eof_pos = None
    elif r <= 10:
        eof_pos = len(stream)
    elif r <= 13:
        eof_pos = draw(st.sampled_from(boundaries))
    else:
        eof_pos = draw(st.integers(0, len(stream)))
    sent_len = len(stream) if eof_pos is None else eof_pos

    seplen = zoo.seplen_for_limit(entry)
    pc = drivers.interesting_positions(stream, boundaries, seplen)
    interesting = sorted(set(pc["sep"]) | set(pc["header"]) | set(boundaries))
    cuts = [c for c in draw(drivers.st_cuts(len(stream), interesting)) if 0 < c < sent_len]

    path = draw(st.sampled_from(["copy", "buffered", "buffered"])) if entry.buffered else "copy"
    shape = {
        "on_connection": draw(
            st.one_of(
                st.just({"kind": "coro"}),
                st.just({"kind": "coro"}),
                st.builds(lambda k: {"kind": "gen", "k": k}, st.sampled_from([0, 1, 1, 2])),
            )
        ),
        "per_gen": draw(st.lists(st.sampled_from([1, 1, 1, 1, 2, 2, 2, 3, 3, None, None, None, 0]), min_size=1, max_size=3)),
        "timeouts": _st_timeouts(draw),
        "timeout_style": draw(st.sampled_from(["yield", "yield", "asyncio", "backend", "mixed", "mixed"])),
        "style_seq": draw(st.lists(st.sampled_from(["yield", "asyncio", "backend"]), min_size=2, max_size=4)),
        "on_bad": draw(st.sampled_from(["continue", "reyield", "return"])),
        "on_timeout": draw(st.sampled_from(["continue", "reyield", "return"])),
        "close_at": draw(st.one_of(st.none(), st.none(), st.integers(0, n - 1))),
        "after_close": draw(st.sampled_from(["return", "yield"])),
        "respond": draw(st.lists(st.booleans(), min_size=1, max_size=4)),
        "work": draw(st.lists(st.sampled_from([0, 0, 0, 0, 1, 2, 4]), min_size=1, max_size=4)),
    }
    return {
        "sut": sut,
        "path": path,
        "spec": spec,
        "frames": frames,
        "eof_pos": eof_pos,
        "eof_gap": draw(st.sampled_from([0, 0, 1, 2, 9])),
        "cuts": cuts,
        "first_at": draw(st.sampled_from([0, 0, 1, 2])),
        "gaps": draw(st.lists(st.sampled_from([0, 1, 1, 1, 2, 3, 5]), min_size=1, max_size=8)),
        "max_recv_size": draw(st.one_of(st.integers(1, 16), st.sampled_from([64, 1024, 65536]))),
        "recv_max": draw(st.one_of(st.just([1 << 30]), st.just([1 << 30]), st.lists(st.integers(1, 9), min_size=1, max_size=4))),
        "aclose_yields": draw(st.sampled_from([0, 0, 1, 3])),
        "shape": shape,
    }


# ----------------------------------------------------------------------------------------------
# timeline derived from the case (shared by the model and the driver)


class Timeline:
    def __init__(self, case: dict) -> None:
        self.spec = case["spec"]
        self.entry = zoo.build(self.spec)
        self.frames = case["frames"]
        raws = [frame_bytes(self.entry, self.spec, fr) for fr in self.frames]
        self.stream = b"".join(raws)
        self.starts: list[int] = []
        self.ends: list[int] = []
        pos = 0
        for r in raws:
            self.starts.append(pos)
            pos += len(r)
            self.ends.append(pos)
        self.eof_pos = case["eof_pos"]
        sent = self.stream if self.eof_pos is None else self.stream[: self.eof_pos]
        self.chunks = drivers.split_at(sent, case["cuts"])
        gaps = case["gaps"]
        t = int(case["first_at"])
        self.times: list[int] = []
        run = 0
        for i in range(len(self.chunks)):
            if i > 0:
                g = int(gaps[(i - 1) % len(gaps)])
                if g == 0:
                    run += 1
                    if run >= SAME_TIME_RUN_MAX:  # keep same-instant delivery chains far below the loop's busy-run threshold
                        g = 1
                if g:
                    run = 0
                t += g
            self.times.append(t)
        last = self.times[-1] if self.times else int(case["first_at"])
        self.t_eof: int | None = None if self.eof_pos is None else last + int(case["eof_gap"])
        # arrival time of every byte offset: time_of[offset] for offset in [0, len(sent))
        self.chunk_ends: list[int] = []
        pos = 0
        for c in self.chunks:
            pos += len(c)
            self.chunk_ends.append(pos)
        self.sent_len = len(sent)

    def arrival_of_byte(self, offset: int) -> int | None:
        """virtual time at which stream[offset] arrives (None: never sent)"""
        if offset >= self.sent_len:
            return None
        for end, t in zip(self.chunk_ends, self.times):
            if offset < end:
                return t
        raise HarnessError("offset beyond chunks")

    def events(self) -> list[tuple[int, str, int]]:
        """(completion time, 'req'|'bad', frame index) for every frame whose last byte is sent"""
        out = []
        for i, fr in enumerate(self.frames):
            t = self.arrival_of_byte(self.ends[i] - 1)
            if t is None:
                break
            out.append((t, "req" if fr["k"] == "good" else "bad", i))
        return out

    def bytes_arrived_by(self, t: float) -> int:
        n = 0
        for end, tt in zip(self.chunk_ends, self.times):
            if tt <= t:
                n = end
        return n


# ----------------------------------------------------------------------------------------------
# reference model


class Model:
    """Replays the timeline against the handler shape.  Log entries:
    ("on_connection", t) ("start", role, gid, t) ("yield", gid, t, timeout) ("req", gid, t, frame_index)
    ("bad", gid, t, frame_index) ("timeout", gid, t) ("gen_exit", gid, t) ("closed", t) ("final", gid, t)
    ("on_disconnection", t)"""

    def __init__(self, tl: Timeline, shape: dict) -> None:
        self.tl = tl
        self.shape = shape
        self.events = tl.events()
        self.p = 0
        self.t: float = 0.0
        self.yield_idx = 0
        self.nreq = 0
        self.closed_by_handler = False
        self.gid = 0
        self.log: list[tuple] = []
        self.sent: list[int] = []
        self.end = "?"  # "eof" | "handler-close" | "early-return" | "parked"
        self.conn_closed = False
        self.zero_timeout_checks: list[dict] = []  # per zero-timeout yield: info needed to decide ambiguity
        self.restart_with_partial = False

    def _next_timeout(self) -> float | None:
        ts = self.shape["timeouts"]
        j = self.yield_idx
        self.yield_idx += 1
        return ts[j] if j < len(ts) else None

    def _wait(self, timeout: float | None) -> tuple:
        y = self.t
        if self.closed_by_handler:
            return ("gen_exit",)
        cand: tuple | None
        cand_t: float = 0.0
        if self.p < len(self.events):
            t_i, kind, i = self.events[self.p]
            cand_t = max(y, float(t_i))
            cand = (kind, i)
        elif self.tl.t_eof is not None:
            cand_t = max(y, float(self.tl.t_eof))
            cand = ("gen_exit",)
        else:
            cand = None
        if timeout is not None:
            dl = y + timeout
            if timeout == 0.0:
                # outcome judged only when unambiguous; the driver decides with the observed transport counters
                self.zero_timeout_checks.append(
                    {
                        "log_index": len(self.log) - 1,  # index of the ("yield", ...) entry
                        "need_bytes": self.tl.ends[cand[1]] if cand is not None and cand[0] in ("req", "bad") else None,
                        "available": cand is not None and cand_t <= y,
                        "is_eof": cand is not None and cand[0] == "gen_exit",
                    }
                )
                if cand is None or cand_t > y:
                    self.t = dl
                    return ("timeout",)
            else:
                if cand is None or cand_t > dl:
                    self.t = dl
                    return ("timeout",)
                if cand_t == dl:
                    raise HarnessError(f"tie between deadline and arrival at t={dl!r}")
        if cand is None:
            return ("parked",)
        self.t = cand_t
        if cand[0] in ("req", "bad"):
            self.p += 1
        return cand

    def _partial_buffered(self) -> bool:
        """the next undelivered frame has some but not all of its bytes received at self.t"""
        i = self.events[self.p][2] if self.p < len(self.events) else (self.events[-1][2] + 1 if self.events else 0)
        if i >= len(self.tl.frames):
            return False
        got = self.tl.bytes_arrived_by(self.t)
        return self.tl.starts[i] < got < self.tl.ends[i]

    def _run_gen(self, role: str, k: int | None) -> tuple[str, bool]:
        gid = self.gid
        self.gid += 1
        if gid > 0 and self.log and self.log[-1][0] == "final" and self._partial_buffered():
            self.restart_with_partial = True
        self.log.append(("start", role, gid, self.t))
        got = 0
        yielded = False
        result = "returned"
        sh = self.shape
        while k is None or got < k:
            timeout = self._next_timeout()
            self.log.append(("yield", gid, self.t, timeout))
            yielded = True
            ev = self._wait(timeout)
            if ev[0] == "parked":
                return "parked", True
            if ev[0] == "gen_exit":
                self.log.append(("gen_exit", gid, self.t))
                result = "gen_exit"
                break
            if ev[0] == "timeout":
                self.log.append(("timeout", gid, self.t))
                reaction = sh["on_timeout"]
            elif ev[0] == "bad":
                self.log.append(("bad", gid, self.t, ev[1]))
                reaction = sh["on_bad"]
            else:
                self.log.append(("req", gid, self.t, ev[1]))
                n = self.nreq
                self.nreq += 1
                if sh["respond"][n % len(sh["respond"])]:
                    self.sent.append(ev[1])
                self.t += float(sh["work"][n % len(sh["work"])])
                if sh["close_at"] == n:
                    self.closed_by_handler = True
                    self.log.append(("closed", self.t))
                    if sh["after_close"] == "return":
                        break
                got += 1
                continue
            if reaction == "continue":
                got += 1
            elif reaction == "return":
                break
        self.log.append(("final", gid, self.t))
        return result, yielded

    def run(self) -> None:
        oc = self.shape["on_connection"]
        if oc["kind"] == "coro":
            self.log.append(("on_connection", self.t))
        else:
            res, _ = self._run_gen("oc", oc["k"])
            if res == "parked":
                self.end = "parked"
                return
            if res == "gen_exit":
                # connection closed while on_connection was still active: on_disconnection is documented not to run
                self.end = "handler-close" if self.closed_by_handler else "eof"
                self.conn_closed = True
                return
        per_gen = self.shape["per_gen"]
        g = 0
        self.end = "handler-close"
        while not self.closed_by_handler:
            k = per_gen[g % len(per_gen)]
            g += 1
            res, yielded = self._run_gen("handle", k)
            if res == "parked":
                self.end = "parked"
                return
            if res == "gen_exit":
                self.end = "handler-close" if self.closed_by_handler else "eof"
                break
            if not yielded:
                self.end = "early-return"  # documented: returning before the first yield closes the connection
                break
        self.log.append(("on_disconnection", self.t))
        self.conn_closed = True


# ----------------------------------------------------------------------------------------------
# generic handler (interprets the shape, logs what it observes)


class ShapeHandler(AsyncStreamRequestHandler[Any, Any]):
    def __init__(self, shape: dict) -> None:
        self.shape = shape
        self.log: list[tuple] = []
        self.yield_idx = 0
        self.nreq = 0
        self.gid = 0
        self.transport: MemStreamTransport | None = None
        self.received_at_yield: dict[int, int] = {}  # log index of a ("yield", ...) entry -> transport.total_received
        self.disconnect_is_closing: list[bool] = []

    @staticmethod
    def _now() -> float:
        return asyncio.get_running_loop().time()

    def _next_timeout(self) -> float | None:
        ts = self.shape["timeouts"]
        j = self.yield_idx
        self.yield_idx += 1
        return ts[j] if j < len(ts) else None

    async def _gen(self, client: AsyncStreamClient[Any], role: str, k: int | None):  # noqa: ANN202
        gid = self.gid
        self.gid += 1
        sh = self.shape
        self.log.append(("start", role, gid, self._now()))
        try:
            got = 0
            while k is None or got < k:
                timeout = self._next_timeout()
                self.received_at_yield[len(self.log)] = self.transport.total_received if self.transport is not None else -1
                self.log.append(("yield", gid, self._now(), timeout))
                try:
                    style = sh.get("timeout_style", "yield")
                    if style == "mixed":
                        # a different way of bounding the wait at every yield (D30: a library scope right after an asyncio one)
                        seq = sh.get("style_seq") or ["yield"]
                        style = seq[(self.yield_idx - 1) % len(seq)]
                    if style == "yield" or timeout is None:
                        req = yield timeout
                    elif style == "asyncio":
                        # the documented alternative to yielding the timeout ("Using with / asyncio")
                        async with asyncio.timeout(timeout):
                            req = yield
                    else:
                        with client.backend().timeout(timeout):
                            req = yield
                except GeneratorExit:
                    self.log.append(("gen_exit", gid, self._now()))
                    raise
                except StreamProtocolParseError as exc:
                    self.log.append(("bad", gid, self._now(), type(exc.error).__name__))
                    reaction = sh["on_bad"]
                except TimeoutError:
                    self.log.append(("timeout", gid, self._now()))
                    reaction = sh["on_timeout"]
                except BaseException as exc:
                    self.log.append(("exc", gid, self._now(), type(exc).__name__))
                    raise
                else:
                    self.log.append(("req", gid, self._now(), req))
                    n = self.nreq
                    self.nreq += 1
                    if sh["respond"][n % len(sh["respond"])]:
                        await client.send_packet(req)
                    w = sh["work"][n % len(sh["work"])]
                    if w:
                        await asyncio.sleep(w)
                    if sh["close_at"] == n:
                        await client.aclose()
                        self.log.append(("closed", self._now()))
                        if sh["after_close"] == "return":
                            return
                    got += 1
                    continue
                if reaction == "continue":
                    got += 1
                elif reaction == "return":
                    return
        finally:
            self.log.append(("final", gid, self._now()))

    def handle(self, client: AsyncStreamClient[Any], /):  # noqa: ANN201
        per_gen = self.shape["per_gen"]
        g = getattr(self, "_g", 0)
        self._g = g + 1
        return self._gen(client, "handle", per_gen[g % len(per_gen)])

    def on_connection(self, client: AsyncStreamClient[Any], /):  # noqa: ANN201
        oc = self.shape["on_connection"]
        if oc["kind"] == "coro":

            async def coro() -> None:
                self.log.append(("on_connection", self._now()))

            return coro()
        return self._gen(client, "oc", oc["k"])

    async def on_disconnection(self, client: AsyncStreamClient[Any], /) -> None:
        self.disconnect_is_closing.append(client.is_closing())
        self.log.append(("on_disconnection", self._now()))


class _LowLevelClient(AsyncStreamClient[Any]):
    """what a user of the low-level API writes around ConnectedStreamClient"""

    __slots__ = ("_client", "_closing")

    def __init__(self, client: Any) -> None:
        self._client = client
        self._closing = False

    def is_closing(self) -> bool:
        return self._closing or self._client.is_closing()

    async def aclose(self) -> None:
        self._closing = True
        await self._client.aclose()

    async def send_packet(self, packet: Any, /) -> None:
        await self._client.send_packet(packet)

    def backend(self) -> Any:
        return self._client.backend()

    @property
    def extra_attributes(self) -> Any:
        return self._client.extra_attributes


# ----------------------------------------------------------------------------------------------
# driver


def _schedule_arrivals(loop: asyncio.AbstractEventLoop, base: float, tl: Timeline, c: MemStreamTransport) -> None:
    """chunks with the same virtual time are fed in successive loop iterations (call_soon chain), in order"""
    groups: dict[int, list[Any]] = {}
    for chunk, t in zip(tl.chunks, tl.times):
        groups.setdefault(t, []).append(chunk)
    if tl.t_eof is not None:
        groups.setdefault(tl.t_eof, []).append(None)

    def step(items: list[Any], i: int) -> None:
        item = items[i]
        if item is None:
            c.feed_eof()
        elif not c.closed:
            c.feed(item)
        if i + 1 < len(items):
            loop.call_soon(step, items, i + 1)

    for t, items in sorted(groups.items()):
        loop.call_at(base + t, step, items, 0)


async def _drive(case: dict, tl: Timeline, handler: ShapeHandler) -> dict:
    loop = asyncio.get_running_loop()
    backend = VerifBackend()
    entry = tl.entry
    protocol = entry.buffered_protocol() if case["path"] == "buffered" else entry.stream_protocol()
    c = MemStreamTransport(backend, script={"recv_max": case["recv_max"], "aclose_yields": case["aclose_yields"]})
    handler.transport = c
    res: dict[str, Any] = {}
    if case["sut"] == "highlevel":
        srv = AsyncTCPNetworkServer(
            None, 0, protocol, handler, backend, max_recv_size=case["max_recv_size"], log_client_connection=False
        )
        up = asyncio.Event()
        task = asyncio.create_task(srv.serve_forever(is_up_event=up))
        await up.wait()
        listener = backend.tcp_listeners[0]
    else:
        listener = MemListener(backend)
        server = AsyncStreamServer(listener, protocol, case["max_recv_size"])

        @contextlib.asynccontextmanager
        async def initializer(lowlevel_client: Any):  # noqa: ANN202
            yield _LowLevelClient(lowlevel_client)

        cb = build_lowlevel_stream_server_handler(initializer, handler)
        task = asyncio.create_task(server.serve(cb))
        await asyncio.sleep(0)
    base = loop.time()
    if base != 0.0:
        raise HarnessError(f"server start-up consumed virtual time: {base}")
    _schedule_arrivals(loop, base, tl, c)
    listener.connect(c)
    await asyncio.sleep(T_END)
    res["log"] = list(handler.log)
    res["closed"] = c.closed
    res["sent"] = bytes(c.sent)
    res["server_alive"] = not task.done()
    # tear down (handlers parked on a yield are cancelled by the server's own shutdown path)
    try:
        if case["sut"] == "highlevel":
            await srv.shutdown()
            await task
            await srv.server_close()
        else:
            task.cancel()
            try:
                await task
            except asyncio.CancelledError:
                pass
            await server.aclose()
    except Exception as exc:  # judged after the log comparison
        res["teardown_exc"] = exc
    res["final_log"] = list(handler.log)
    res["closed_after"] = c.closed
    res["spin_jumps"] = loop.spin_jumps  # type: ignore[attr-defined]
    return res


def _show(e: tuple) -> str:
    return repr(e)[:300]


def _entries_equal(entry: zoo.Entry, tl: Timeline, pred: tuple, obs: tuple) -> bool:
    if pred[0] != obs[0] or len(pred) != len(obs):
        return False
    if pred[0] == "req":
        return pred[1:3] == obs[1:3] and entry.eq(obs[3], tl.frames[pred[3]]["p"])
    if pred[0] == "bad":
        return pred[1:3] == obs[1:3]  # which inner error class is not part of the property
    return pred == obs


def run_case(case: dict) -> Outcome:
    logging.disable(logging.CRITICAL)
    tl = Timeline(case)
    shape = case["shape"]
    model = Model(tl, shape)
    model.run()
    handler = ShapeHandler(shape)
    try:
        res = run_virtual(_drive, case, tl, handler, max_ticks=400_000)
    except Deadlock as exc:
        raise Violation("deadlock", f"server did not make progress: {exc}", log=[_show(e) for e in handler.log[-12:]]) from exc

    entry = tl.entry
    info = {"sut": case["sut"], "path": case["path"], "serializer": case["spec"]["kind"], "end": model.end}
    # nobody cancels anything before the tear-down: a CancelledError thrown into the handler while the server is serving
    # is a cancellation that outlived whoever asked for it (e.g. the handler's own, already exited, timeout scope)
    for e in res["log"]:
        if e[0] == "exc" and e[3] == "CancelledError":
            raise Violation(
                "spurious-cancellation",
                f"the request handler (generator #{e[1]}) was cancelled at t={e[2]} although neither the server nor the test cancelled anything "
                f"(timeout style: {shape.get('timeout_style', 'yield')})",
                log=[_show(x) for x in res["log"][-10:]],
                **info,
            )
    classes = [f"path-{case['path']}", f"kind-{case['spec']['kind']}", f"end-{model.end}"]

    # zero-timeout yields: find the first ambiguous one (comparison stops there)
    cut_at: int | None = None
    for z in model.zero_timeout_checks:
        idx = z["log_index"]
        if z["is_eof"] and z["available"]:
            ambiguous = True  # EOF already signalled vs deadline already passed: both orders are legitimate
        elif z["available"]:
            got = handler.received_at_yield.get(idx)
            if got is None or idx >= len(res["log"]) or res["log"][idx][0] != "yield":
                ambiguous = False  # logs already diverge before this yield: reported by the comparison below
            else:
                ambiguous = got < z["need_bytes"]  # complete at the transport, not yet read into the consumer
        else:
            ambiguous = False
        if ambiguous:
            cut_at = idx + 1
            break
        classes.append("zero-timeout-judged")
    if cut_at is not None:
        classes.append("zero-timeout-ambiguous")

    pred_log = model.log if cut_at is None else model.log[:cut_at]
    obs_log = res["log"] if cut_at is None else res["log"][:cut_at]
    for i in range(max(len(pred_log), len(obs_log))):
        p = pred_log[i] if i < len(pred_log) else None
        o = obs_log[i] if i < len(obs_log) else None
        if p is None or o is None or not _entries_equal(entry, tl, p, o):
            raise Violation(
                "log-mismatch",
                f"handler-side log differs from the reference model at entry #{i}: expected {_show(p) if p else 'nothing more'}, "
                f"observed {_show(o) if o else 'nothing more'}",
                index=i,
                expected=[_show(e) for e in pred_log[max(0, i - 6) : i + 3]],
                observed=[_show(e) for e in obs_log[max(0, i - 6) : i + 3]],
                **info,
            )

    if res.get("teardown_exc") is not None:
        from ..core import exception_from_sut, format_exc

        texc = res["teardown_exc"]
        if not exception_from_sut(texc):
            raise HarnessError(f"teardown failed in the harness: {texc!r}")
        raise Violation("teardown-exception", f"stopping the server raised {texc!r}", traceback=format_exc(texc), **info)
    final_log = res["final_log"]
    if cut_at is None:
        if not res["server_alive"]:
            raise Violation("server-stopped", "the serving task ended on its own", **info)
        if res["closed"] != model.conn_closed:
            raise Violation(
                "connection-state",
                f"connection closed={res['closed']} but the model expects closed={model.conn_closed} (end={model.end})",
                **info,
            )
        expected_sent = b"".join(b"".join(entry.frame(tl.frames[i]["p"])) for i in model.sent)
        if res["sent"] != expected_sent:
            raise Violation(
                "responses",
                f"responses written differ: expected {len(model.sent)} frames / {len(expected_sent)} bytes, got {len(res['sent'])} bytes",
                expected=expected_sent[:200],
                got=res["sent"][:200],
                **info,
            )
        if model.conn_closed and len(final_log) != len(res["log"]):
            raise Violation(
                "late-events",
                f"handler observed events after its connection was closed: {[_show(e) for e in final_log[len(res['log']) :]][:6]}",
                **info,
            )
    # every started generator is finalised exactly once, and never two at once (also after server teardown)
    active: int | None = None
    finals: dict[int, int] = {}
    for e in final_log:
        if e[0] == "start":
            if active is not None:
                raise Violation("two-active-generators", f"generator {e[2]} started while {active} was still active", **info)
            active = e[2]
        elif e[0] == "final":
            finals[e[1]] = finals.get(e[1], 0) + 1
            if active == e[1]:
                active = None
    starts = [e[2] for e in final_log if e[0] == "start"]
    for gid in starts:
        if finals.get(gid, 0) != 1:
            raise Violation("finalisation", f"generator {gid} finalised {finals.get(gid, 0)} times", log=[_show(e) for e in final_log[-10:]], **info)
    if not res["closed_after"]:
        raise Violation("connection-leak", "connection still open after the server was shut down", **info)
    if res["spin_jumps"]:
        # generated schedules keep their own zero-delay chains far below the virtual loop's busy-run threshold (200 consecutive
        # non-idle iterations), so a busy run can only come from the server itself keeping the loop busy without waiting
        # for anything (e.g. re-feeding the same input to fresh handlers for ever)
        raise Violation(
            "busy-loop",
            f"the %s server kept the event loop busy for at least 200 consecutive iterations without any timer "
            f"({res['spin_jumps']} busy-run clock jump(s) of the virtual loop)" % "stream",
            **info,
        )

    # classification
    kinds = [e[0] for e in pred_log]
    seen_req = False
    pending_mid = False
    mid = False
    for kd in kinds:
        if kd == "req":
            if seen_req and pending_mid:
                mid = True
            seen_req = True
            pending_mid = False
        elif kd in ("bad", "timeout") and seen_req:
            pending_mid = True
    if mid:
        classes.append("bad-or-timeout-between-requests")
    if model.restart_with_partial:
        classes.append("restart-with-partial-frame")
    if "timeout" in kinds:
        classes.append("timeout")
    if "bad" in kinds:
        classes.append("parse-error")
    if sum(1 for e in pred_log if e[0] == "start" and e[1] == "handle") >= 2:
        classes.append("generator-restart")
    if shape["on_connection"]["kind"] == "gen":
        classes.append("on_connection-generator")
    if "closed" in kinds:
        classes.append("handler-closed-client")
    if case["sut"] == "highlevel" and handler.disconnect_is_closing and not handler.disconnect_is_closing[0]:
        classes.append("is_closing-false-in-on_disconnection")
    nreq = kinds.count("req")
    classes.append("requests-0" if nreq == 0 else "requests-1" if nreq == 1 else "requests-2+")
    nt = cut_at is None and (mid or model.restart_with_partial)
    return Outcome(nontrivial=nt, classes=tuple(classes))


def _strategy(sut: str):  # noqa: ANN202
    return lambda tier: st_case(tier, sut)


CHECK = Check(
    id="C15",
    level="exploration",
    rule=(
        "case = serializer (line/json/autosep/length-prefixed/file-based, optional converter) x receive path x max_recv_size x "
        "1-8 good/malformed frames x partition with integer virtual arrival gaps x client EOF position (or none) x handler shape "
        "(on_connection coroutine/generator, requests per handle() generator 0-3 or loop, yielded timeouts None / 0 / k+2^-(j+1) given by `yield T`, `async with asyncio.timeout(T)` or `with backend.timeout(T)` around the yield, "
        "reaction to parse error / TimeoutError, closing the client at a request, responses, work sleeps); the handler-side log "
        "(starts, yields, requests, parse errors, timeouts, GeneratorExit, finalisations, on_connection/on_disconnection, with "
        "virtual times) must equal the reference model's; non-trivial = a handle() generator restarts while the next frame is "
        "partially received, or a parse error / timeout is observed between two delivered requests; distinct = sha1 of the case"
    ),
    layers=[
        Layer("lowlevel", _strategy("lowlevel"), run_case, {"quick": 1200, "thorough": 8000}),
        Layer("highlevel", _strategy("highlevel"), run_case, {"quick": 1200, "thorough": 8000}),
    ],
    assumptions=[
        "malformed frames are those with a frame-exact error (bad encoding / bad JSON line / marked payload / bad trailer / bad record / "
        "converter refusal); oversized frames and raw (non line-delimited) JSON garbage are C02/C07 material and not generated here",
        "arrival times are integers and timeouts k+2^-(j+1): a deadline never coincides with an arrival; a timeout of exactly 0 is judged "
        "only when the next request is already inside the consumer or has not reached the transport yet",
        "transports are in-memory (H5): recv returns what is in the inbox without suspending, send commits synchronously",
        "client.is_closing() inside on_disconnection is recorded as a class only (it is False after a peer EOF although the docstring "
        "says it should be True); the property statement does not cover it",
    ],
)
