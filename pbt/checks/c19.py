"""C19 — connection racing returns one socket and leaks none (DESIGN.md section 3, C19).

SUT: `BaseAsyncDNSResolver.create_stream_connection` / `create_datagram_connection` (the staggered race and the
sequential `_create_connection_impl`) on the real `AsyncIOBackend`, on a virtual-time loop.  The module global
`_socket` of the resolver module is replaced for the duration of one run by a namespace that keeps every real
constant but whose `socket` class records creations and `close()` calls and whose `getaddrinfo` answers from the
plan.  `connect_socket` follows the plan: the j-th connect call completes after a virtual delay with success or an
errno.  A case is a *plan*; `run_case` first runs it uncancelled, measures the loop ticks it takes, then re-runs the
same plan with `task.cancel()` delivered at every tick (two placements inside the tick), and with an enclosing
`move_on_after` / `timeout` scope expiring at every virtual instant at which something happened.
"""

from __future__ import annotations

import asyncio
import errno as _errno
import math
import os
import socket as _real_socket
from typing import Any

from hypothesis import strategies as st

from ..core import Check, HarnessError, Layer, Outcome, Violation
from ..vloop import Deadlock, run_virtual

ERRNOS = {
    "ECONNREFUSED": _errno.ECONNREFUSED,
    "ETIMEDOUT": _errno.ETIMEDOUT,
    "ENETUNREACH": _errno.ENETUNREACH,
    "EHOSTUNREACH": _errno.EHOSTUNREACH,
    "EADDRINUSE": _errno.EADDRINUSE,
    "EADDRNOTAVAIL": _errno.EADDRNOTAVAIL,
    "EAFNOSUPPORT": _errno.EAFNOSUPPORT,
    "EMFILE": _errno.EMFILE,
    "EBADF": _errno.EBADF,
    "ENOTSOCK": _errno.ENOTSOCK,
}
FAMILIES = {4: _real_socket.AF_INET, 6: _real_socket.AF_INET6}
REMOTE_HOST = "remote.test"
LOCAL_HOST = "local.test"
PORT = 4000
LOCAL_PORT = 5000


def _oserror(name: str) -> OSError:
    code = ERRNOS[name]
    return OSError(code, os.strerror(code))


# ----------------------------------------------------------------------------------------------
# recording socket namespace


class _Recorder:
    def __init__(self, plan: dict) -> None:
        self.plan = plan
        self.created: list[_FakeSocket] = []
        self.connect_calls = 0
        self.inflight = 0
        self.max_inflight = 0
        self.successes: list[_FakeSocket] = []
        self.event_times: list[float] = []
        self.misuse: list[str] = []

    def open_sockets(self) -> list["_FakeSocket"]:
        return [s for s in self.created if not s.closed]


class _FakeSocket:
    """what `_socket.socket(family, type, proto)` returns while a case runs"""

    _rec: _Recorder  # set on the per-run subclass

    def __init__(self, family: int = -1, type: int = -1, proto: int = -1, fileno: Any = None) -> None:
        rec = self._rec
        fam = {v: k for k, v in FAMILIES.items()}.get(family)
        fail = rec.plan.get("sock_fail", {}).get(str(fam))
        if fail:
            raise _oserror(fail)
        self.family = family
        self.type = type
        self.proto = proto
        self.closed = False
        self.close_calls = 0
        self.bound: Any = None
        self.blocking = True
        self.connected = False
        self.index = len(rec.created)
        rec.created.append(self)

    def __repr__(self) -> str:
        return f"<sock#{self.index} fam={self.family} {'closed' if self.closed else 'open'}{' connected' if self.connected else ''}>"

    def fileno(self) -> int:
        return -1 if self.closed else 100 + self.index

    def bind(self, address: Any) -> None:
        rec = self._rec
        if self.closed:
            rec.misuse.append(f"bind() on closed {self!r}")
            raise OSError(_errno.EBADF, os.strerror(_errno.EBADF))
        for entry in rec.plan.get("local") or []:
            if _sockaddr(entry["family"], entry["i"], LOCAL_PORT) == tuple(address):
                if entry["bind"] != "ok":
                    raise _oserror(entry["bind"])
                self.bound = tuple(address)
                return
        raise HarnessError(f"bind() to an address the plan does not know: {address!r}")

    def setblocking(self, flag: bool) -> None:
        if self.closed:
            self._rec.misuse.append(f"setblocking() on closed {self!r}")
            raise OSError(_errno.EBADF, os.strerror(_errno.EBADF))
        fam = {v: k for k, v in FAMILIES.items()}.get(self.family)
        fail = self._rec.plan.get("setblock_fail", {}).get(str(fam))
        if fail:
            raise _oserror(fail)
        self.blocking = bool(flag)

    def close(self) -> None:
        self.close_calls += 1
        self.closed = True


def _sockaddr(fam: int, i: int, port: int) -> tuple:
    if fam == 4:
        return (f"192.0.2.{i + 1}", port)
    return (f"2001:db8::{i + 1}", port, 0, 0)


class _Namespace:
    """stands in for the `socket` module inside dns_resolver.py: real constants, recording `socket`, scripted
    `getaddrinfo` (numeric-host fast path: answers directly, so `backend.getaddrinfo` is never needed)"""

    def __init__(self, rec: _Recorder) -> None:
        self._rec = rec
        self.socket = type("RecordingSocket", (_FakeSocket,), {"_rec": rec})

    def __getattr__(self, name: str) -> Any:
        return getattr(_real_socket, name)

    def getaddrinfo(self, host: Any, port: Any, family: int = 0, type: int = 0, proto: int = 0, flags: int = 0) -> list:
        plan = self._rec.plan
        if host == REMOTE_HOST:
            entries = [(a["family"], a["i"]) for a in plan["addrs"]]
        elif host == LOCAL_HOST:
            entries = [(a["family"], a["i"]) for a in plan.get("local") or []]
        else:
            raise HarnessError(f"getaddrinfo for unknown host {host!r}")
        ipproto = _real_socket.IPPROTO_TCP if type == _real_socket.SOCK_STREAM else _real_socket.IPPROTO_UDP
        out = []
        for fam, i in entries:
            if family not in (_real_socket.AF_UNSPEC, FAMILIES[fam]):
                continue
            out.append((FAMILIES[fam], type, ipproto, "", _sockaddr(fam, i, port)))
        return out


# ----------------------------------------------------------------------------------------------
# one run of a plan


def _import_sut() -> tuple[Any, Any, Any]:
    from easynetwork.lowlevel.api_async.backend._asyncio.backend import AsyncIOBackend
    from easynetwork.lowlevel.api_async.backend._common import dns_resolver as dns_mod

    return dns_mod, dns_mod.BaseAsyncDNSResolver, AsyncIOBackend


def _make_resolver(base: Any, rec: _Recorder) -> Any:
    plan = rec.plan

    class ScriptedResolver(base):  # type: ignore[misc,valid-type]
        __slots__ = ()

        async def ensure_resolved(self, backend, host, port, family, type, proto=0, flags=0):  # type: ignore[no-untyped-def]
            for _ in range(plan.get("resolve_yields", 0)):
                await asyncio.sleep(0)
            return await super().ensure_resolved(backend, host, port, family, type, proto, flags)

        async def connect_socket(self, socket, address):  # type: ignore[no-untyped-def]
            loop = asyncio.get_running_loop()
            if not isinstance(socket, _FakeSocket):
                raise HarnessError(f"connect_socket() got {socket!r}")
            if socket.closed:
                rec.misuse.append(f"connect_socket() on closed {socket!r}")
            j = rec.connect_calls
            rec.connect_calls += 1
            script = plan["connects"][j % len(plan["connects"])]
            rec.event_times.append(loop.time())
            rec.inflight += 1
            rec.max_inflight = max(rec.max_inflight, rec.inflight)
            try:
                if script["delay"] > 0:
                    await asyncio.sleep(script["delay"])
                # completion lands a few loop iterations later without virtual time passing (a real connect can
                # complete in the middle of the winner's cancellation cascade; timers alone never land there)
                for _ in range(script.get("yields", 0)):
                    await asyncio.sleep(0)
            finally:
                rec.inflight -= 1
                rec.event_times.append(loop.time())
            if script["result"] != "ok":
                raise _oserror(script["result"])
            socket.connected = True
            rec.successes.append(socket)

    return ScriptedResolver()


def _run_once(plan: dict, cancel: tuple | None) -> dict:
    """cancel: None | ("tick", k, "pre"|"soon") | ("scope", "move_on_after"|"timeout", t)"""
    dns_mod, base, backend_cls = _import_sut()
    rec = _Recorder(plan)
    info: dict[str, Any] = {"rec": rec}

    async def main() -> None:
        loop = asyncio.get_running_loop()
        backend = backend_cls()
        resolver = _make_resolver(base, rec)

        async def connect() -> Any:
            local = (LOCAL_HOST, LOCAL_PORT) if plan.get("local") else None
            if plan["kind"] == "stream":
                return await resolver.create_stream_connection(
                    backend, REMOTE_HOST, PORT, local_address=local, happy_eyeballs_delay=plan["hed"]
                )
            fam = {0: _real_socket.AF_UNSPEC, 4: _real_socket.AF_INET, 6: _real_socket.AF_INET6}[plan.get("dgram_family", 0)]
            return await resolver.create_datagram_connection(backend, REMOTE_HOST, PORT, local_address=local, family=fam)

        async def caller() -> Any:
            if cancel is not None and cancel[0] == "scope":
                if cancel[1] == "move_on_after":
                    with backend.move_on_after(cancel[2]) as scope:
                        return await connect()
                    info["scope_caught"] = scope.cancelled_caught()
                    return None
                with backend.timeout(cancel[2]):
                    return await connect()
            return await connect()

        task = loop.create_task(caller())
        info["t0"] = loop.ticks

        def on_done(_: Any) -> None:
            info["t_done"] = loop.ticks
            info["open_at_done"] = list(rec.open_sockets())

        task.add_done_callback(on_done)
        if cancel is not None and cancel[0] == "tick":

            def deliver() -> None:
                info["done_at_cancel"] = task.done()
                info["successes_at_cancel"] = len(rec.successes)
                info["created_at_cancel"] = len(rec.created)
                task.cancel()

            if cancel[2] == "pre":
                loop.at_tick(cancel[1], deliver)
            else:
                loop.at_tick(cancel[1], lambda: loop.call_soon(deliver))
        await asyncio.wait({task})
        info["task"] = task
        for _ in range(3):
            await asyncio.sleep(0)
        info["stray_tasks"] = [t for t in asyncio.all_tasks() if t is not asyncio.current_task() and not t.done()]

    saved = dns_mod._socket
    dns_mod._socket = _Namespace(rec)
    try:
        try:
            run_virtual(main, max_ticks=20_000)
        except Deadlock as exc:
            raise Violation("deadlock", f"connection attempt never finished: {exc}", cancel=cancel) from exc
    finally:
        dns_mod._socket = saved
    return info


def _leaves(exc: BaseException) -> list[BaseException]:
    if isinstance(exc, BaseExceptionGroup):
        out: list[BaseException] = []
        for e in exc.exceptions:
            out.extend(_leaves(e))
        return out
    return [exc]


def _judge(plan: dict, cancel: tuple | None, info: dict, expect_success: bool | None) -> str:
    """Apply the C19 oracle to one finished run; returns the outcome kind."""
    rec: _Recorder = info["rec"]
    task: asyncio.Task = info["task"]
    where = {"cancel": list(cancel) if cancel else None}

    def describe() -> str:
        return f"created={rec.created!r} successes={rec.successes!r}"

    if rec.misuse:
        raise Violation("socket-misuse", f"socket used after close: {rec.misuse[:3]}", **where)
    returned: Any = None
    if task.cancelled():
        kind = "cancelled"
    elif task.exception() is not None:
        exc = task.exception()
        assert exc is not None
        leaves = _leaves(exc)
        if isinstance(exc, TimeoutError) and cancel is not None and cancel[0] == "scope" and cancel[1] == "timeout":
            kind = "timeout"
        elif leaves and all(isinstance(e, OSError) for e in leaves):
            kind = "error"
        else:
            raise Violation(
                "unexpected-exception",
                f"connect raised {type(exc).__name__}: {exc!r} (leaves {[type(e).__name__ for e in leaves]})",
                **where,
            ) from exc
    else:
        returned = task.result()
        kind = "socket" if returned is not None else "none"
        if returned is None and not (cancel is not None and cancel[0] == "scope" and cancel[1] == "move_on_after"):
            raise Violation("no-socket", "connect returned None", **where)

    open_now = rec.open_sockets()
    if returned is not None:
        if not isinstance(returned, _FakeSocket) or returned not in rec.created:
            raise Violation("foreign-socket", f"returned object {returned!r} was not created during the race", **where)
        if returned.closed:
            raise Violation("returned-closed", f"the returned socket is closed: {returned!r}; {describe()}", **where)
        if not returned.connected:
            raise Violation("returned-unconnected", f"the returned socket never completed connect: {returned!r}", **where)
        leaked = [s for s in open_now if s is not returned]
        if leaked:
            raise Violation("leak", f"{len(leaked)} losing socket(s) left open: {leaked!r}; returned {returned!r}; {describe()}", outcome=kind, **where)
        leaked_at_done = [s for s in info.get("open_at_done", []) if s is not returned]
        if leaked_at_done:
            raise Violation("late-close", f"socket(s) still open when the call returned: {leaked_at_done!r}", **where)
    else:
        if open_now:
            raise Violation("leak", f"outcome {kind}: {len(open_now)} socket(s) left open: {open_now!r}; {describe()}", outcome=kind, **where)
        if info.get("open_at_done"):
            raise Violation("late-close", f"outcome {kind}: socket(s) still open when the call ended: {info['open_at_done']!r}", **where)
    if info["stray_tasks"]:
        raise Violation("stray-task", f"tasks still running after the call ended: {info['stray_tasks']!r}", **where)

    if cancel is None:
        if expect_success and kind != "socket":
            raise Violation("no-winner", f"an attempt succeeds but the outcome is {kind}: {task.exception()!r}; {describe()}", **where)
        if expect_success is False and kind != "error":
            raise Violation("no-failure", f"no attempt can succeed but the outcome is {kind}; {describe()}", **where)
    return kind


def _model_expect_success(plan: dict) -> bool:
    """Independent of the SUT: is there a connect call that the plan lets succeed?"""
    addrs = plan["addrs"]
    if plan["kind"] == "datagram" and plan.get("dgram_family", 0):
        addrs = [a for a in addrs if a["family"] == plan["dgram_family"]]
    local = plan.get("local") or []
    if plan["kind"] == "datagram" and plan.get("dgram_family", 0):
        local = [a for a in local if a["family"] == plan["dgram_family"]]
    m = 0  # number of attempts that reach connect_socket
    for a in addrs:
        if plan.get("sock_fail", {}).get(str(a["family"])):
            continue
        if plan.get("setblock_fail", {}).get(str(a["family"])) and not (
            plan.get("local") and not any(la["family"] == a["family"] and la["bind"] == "ok" for la in local)
        ):
            continue  # the socket exists (and is bound) but setblocking(False) fails: the attempt ends before connect
        if plan.get("local"):
            if not any(la["family"] == a["family"] and la["bind"] == "ok" for la in local):
                continue
        m += 1
    scripts = plan["connects"]
    return any(scripts[j % len(scripts)]["result"] == "ok" for j in range(m))


def run_case(case: dict) -> Outcome:
    plan = case
    expect = _model_expect_success(plan)
    base = _run_once(plan, None)
    kind0 = _judge(plan, None, base, expect)
    rec0: _Recorder = base["rec"]
    t0, t_done = base["t0"], base["t_done"]
    classes = [f"kind-{plan['kind']}", f"base-{kind0}", f"addrs-{len(plan['addrs'])}"]
    if rec0.max_inflight >= 2:
        classes.append("ge2-inflight")
    if len(rec0.successes) >= 2:
        classes.append("ge2-success")
    if plan.get("local"):
        classes.append("local-addr")
        if any(la["bind"] != "ok" for la in plan["local"]):
            classes.append("bind-failure")
    if plan.get("sock_fail"):
        classes.append("socket-create-failure")
    if plan.get("setblock_fail"):
        classes.append("setblocking-failure")
    if len({a["family"] for a in plan["addrs"]}) == 2:
        classes.append("mixed-families")

    cancel_after_success = False
    winner_discarded = False
    outcomes: set[str] = set()
    bound = plan.get("cancel_bound", 120)
    last = min(t_done + 1, t0 + bound)
    runs = 0
    for k in range(t0 + 1, last + 1):
        for mode in ("pre", "soon"):
            cancel = ("tick", k, mode)
            info = _run_once(plan, cancel)
            kind = _judge(plan, cancel, info, None)
            runs += 1
            outcomes.add(kind)
            if "done_at_cancel" in info and not info["done_at_cancel"]:
                if info["successes_at_cancel"] >= 1:
                    cancel_after_success = True
                    if kind != "socket":
                        winner_discarded = True
    if t_done + 1 > last:
        classes.append("cancel-enumeration-truncated")

    times = sorted({t for t in rec0.event_times})
    scope_times: list[float] = []
    for t in times:
        scope_times.append(t)
        if t > 0:
            scope_times.append(t / 2)
    scope_times = sorted(set(scope_times))[:12]
    for t in scope_times:
        cancel = ("scope", plan.get("scope_kind", "move_on_after"), t)
        info = _run_once(plan, cancel)
        kind = _judge(plan, cancel, info, None)
        runs += 1
        outcomes.add("scope-" + kind)
        if len(info["rec"].successes) >= 1 and kind != "socket":
            winner_discarded = True
            cancel_after_success = True

    if cancel_after_success:
        classes.append("cancel-after-success")
    if winner_discarded:
        classes.append("connected-socket-discarded")
    for o in sorted(outcomes):
        classes.append("cancelled-run-" + o)
    classes.append(f"ticks-{min((t_done - t0) // 10 * 10, 60)}+")
    nt = rec0.max_inflight >= 2 and (len(rec0.successes) >= 2 or cancel_after_success)
    return Outcome(nontrivial=nt, classes=tuple(classes), note=f"{runs + 1} runs, baseline {kind0}, {t_done - t0} ticks")


# ----------------------------------------------------------------------------------------------
# generator

DELAYS = [0, 0, 1, 1, 2, 2, 3, 4, 5, 0.5, 1.5]
RESULTS = ["ok", "ok", "ok", "ok", "ok", "ECONNREFUSED", "ETIMEDOUT", "ENETUNREACH", "EHOSTUNREACH"]
YIELDS = [0, 0, 0, 0, 1, 1, 2, 3, 4]


@st.composite
def st_case(draw: st.DrawFn, tier: str) -> dict:
    kind = draw(st.sampled_from(["stream"] * 5 + ["datagram"]))
    n = draw(st.sampled_from([1, 2, 2, 3, 3, 3, 4, 4, 5, 5]))
    addrs = []
    for i in range(n):
        addrs.append({"family": draw(st.sampled_from([4, 6])), "i": i})
    hed = draw(st.sampled_from([math.inf, 0.25, 1.0, 1.0, 1.0, 2.0, 3.0, 0.0])) if kind == "stream" else math.inf
    connects = []
    shape = draw(st.sampled_from(["free", "overlap", "overlap", "tie", "tie", "tie", "all-ok", "all-ok", "all-fail"]))
    tie_at = draw(st.sampled_from([2, 3, 4, 5, 6]))
    tie_yields = draw(st.sampled_from([0, 0, 1, 2]))
    for j in range(n):
        delay = draw(st.sampled_from(DELAYS))
        result = draw(st.sampled_from(RESULTS))
        yields = draw(st.sampled_from(YIELDS))
        if shape == "tie" and math.isfinite(hed):
            # attempts still in flight start hed apart: make several complete at the same virtual instant
            d = tie_at - j * hed
            if d > 0 and draw(st.integers(0, 3)) > 0:
                delay = d
                yields = tie_yields + draw(st.sampled_from([0, 0, 0, 1]))
                if draw(st.integers(0, 3)) > 0:
                    result = "ok"
        if shape == "overlap" and math.isfinite(hed):
            delay = delay + hed * draw(st.integers(1, 3))  # still in flight when the next attempt starts
        if shape == "all-ok":
            result = "ok"
        elif shape == "all-fail" and result == "ok":
            result = "ECONNREFUSED"
        connects.append({"delay": delay, "yields": yields, "result": result})
    case: dict[str, Any] = {"kind": kind, "addrs": addrs, "hed": hed, "connects": connects}
    if draw(st.integers(0, 9)) < 2:
        nl = draw(st.integers(1, 3))
        case["local"] = [
            {
                "family": draw(st.sampled_from([4, 6])),
                "i": i,
                "bind": draw(st.sampled_from(["ok", "ok", "ok", "EADDRINUSE", "EADDRNOTAVAIL"])),
            }
            for i in range(nl)
        ]
    if draw(st.integers(0, 14)) == 0:
        fam = draw(st.sampled_from([4, 6]))
        case["sock_fail"] = {str(fam): draw(st.sampled_from(["EAFNOSUPPORT", "EMFILE"]))}
    if draw(st.integers(0, 11)) == 0:
        fam = draw(st.sampled_from([4, 6]))
        case["setblock_fail"] = {str(fam): draw(st.sampled_from(["EBADF", "ENOTSOCK"]))}
    if kind == "datagram":
        case["dgram_family"] = draw(st.sampled_from([0, 0, 0, 4, 6]))
    case["resolve_yields"] = draw(st.sampled_from([0, 0, 1, 2]))
    case["scope_kind"] = draw(st.sampled_from(["move_on_after", "timeout"]))
    case["cancel_bound"] = 120 if tier == "quick" else 400
    return case


CHECK = Check(
    id="C19",
    level="exploration",
    rule=(
        "case = connection plan: 1-5 remote addresses (mixed AF_INET/AF_INET6) x per-connect-call outcome (success or errno "
        "after a virtual delay, delays on a grid so that completions tie) x happy_eyeballs_delay in {0, .25, 1, 2, 3, inf} x optional "
        "local addresses with per-address bind results x optional socket() failure per family x stream/datagram; every plan "
        "is run uncancelled, then re-run with task.cancel() at every loop tick of the uncancelled run (two placements inside "
        "the tick) and with an enclosing move_on_after/timeout scope expiring at every virtual instant where an attempt "
        "started or completed (and half-way); non-trivial = at least 2 connect attempts in flight at once and (at least 2 "
        "connects succeeded or a cancel was delivered after the first success while the call was still pending); distinct = "
        "sha1 of the canonical plan JSON"
    ),
    layers=[Layer("race", st_case, run_case, {"quick": 800, "thorough": 2500})],
    assumptions=[
        "sockets are observed through a recording stand-in for the `socket` module global of dns_resolver.py (real constants kept); "
        "real file descriptors are never opened, so 'open fds before/after' is the recorded created-minus-closed set",
        "connect_socket is scripted per call order (the j-th connect call gets the j-th outcome), as a future completing after a virtual delay; "
        "delay 0 completes without yielding, like an immediately successful sock_connect",
        "address resolution takes the numeric-host fast path of ensure_resolved (scripted getaddrinfo); backend.getaddrinfo (thread pool) is not driven",
        "caller cancellation is enumerated per loop tick of the uncancelled run up to cancel_bound ticks (120 quick / 400 thorough); longer plans are "
        "labelled cancel-enumeration-truncated",
        "with a cancelled caller the oracle accepts a returned socket, CancelledError or the connection error group; it only demands that nothing but "
        "a returned socket stays open",
    ],
    exhaustive_note="per plan, every loop tick of the uncancelled run is used as a cancellation point (pre-callbacks and post-ready placements)",
)
