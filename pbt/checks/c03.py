"""C03 — receive endpoints: every complete packet once, then a sticky end-of-stream (DESIGN.md section 3, C03)."""

from __future__ import annotations

import asyncio
import math
import socket
from collections import deque
from typing import Any

from hypothesis import strategies as st

from easynetwork.clients.async_tcp import AsyncTCPNetworkClient
from easynetwork.clients.tcp import TCPNetworkClient
from easynetwork.exceptions import ClientClosedError, StreamProtocolParseError
from easynetwork.lowlevel.api_async.backend._asyncio.backend import AsyncIOBackend
from easynetwork.lowlevel.api_async.endpoints.stream import AsyncStreamEndpoint
from easynetwork.lowlevel.api_sync.endpoints.stream import StreamEndpoint
from easynetwork.lowlevel.api_sync.transports.socket import SocketStreamTransport

from .. import zoo
from ..core import Check, Inconclusive, HarnessError, Layer, Outcome, Violation
from ..memtransports import MemStreamTransport, VerifBackend
from ..syncworld import HarnessHang, SpinGuard, World, make_selector_factory, virtual_clock
from ..vloop import Deadlock, run_virtual
from .c11 import PeeredFakeSocket, _patched_default_selector

STALE = b"\x00STALE-GARBAGE-AFTER-EOF\n\r\n" * 4
KINDS = ["line", "json", "autosep", "lenprefixed", "hfile", "fixed"]


@st.composite
def st_case(draw: st.DrawFn, tier: str, *, asynchronous: bool) -> dict:
    spec = draw(zoo.st_stream_spec(kinds=KINDS))
    if spec["kind"] == "json":
        spec = dict(spec, use_lines=True)
    spec = {k: v for k, v in spec.items() if k != "conv"}
    packets = draw(st.lists(zoo.st_packet(spec), min_size=0, max_size=6))
    entry = zoo.build(spec)
    frames = [b"".join(entry.frame(p)) for p in packets]
    partial = b""
    if draw(st.booleans()):
        extra = b"".join(entry.frame(draw(zoo.st_packet(spec))))
        if len(extra) >= 2:
            partial = extra[: draw(st.integers(1, len(extra) - 1))]
    stream = b"".join(frames) + partial
    ncuts = draw(st.integers(0, min(6, max(0, len(stream) - 1))))
    cuts = sorted(draw(st.lists(st.integers(1, max(1, len(stream) - 1)), min_size=ncuts, max_size=ncuts, unique=True))) if len(stream) > 1 else []
    groups = []
    prev = 0
    for c in cuts + [len(stream)]:
        if c > prev:
            groups.append(stream[prev:c])
            prev = c
    # the peer closes after `close_after` groups have been sent (0 = before any data); later groups never exist
    close_after = draw(st.integers(0, len(groups)))
    timeouts = [None, 0, 0.7, 3.0] if not asynchronous else [None, 0.7, 3.0]
    calls = draw(
        st.lists(st.tuples(st.sampled_from(["recv", "recv", "iter"]), st.sampled_from(timeouts)), min_size=0, max_size=8)
    )
    api = draw(st.sampled_from(["endpoint", "endpoint", "client"]))
    return {
        "spec": spec,
        "packets": packets,
        "partial": partial,
        "groups": groups,
        "gaps": [draw(st.sampled_from([0.0, 0.0, 0.5, 2.0])) for _ in range(len(groups) + 1)],
        "close_after": close_after,
        "calls": calls,
        "post_eof_calls": draw(st.integers(2, 4)),
        "buffered": draw(st.booleans()),
        "max_recv_size": draw(st.sampled_from([1, 2, 3, 8, 1024, 65536])),
        "api": api,
    }


def _expected(case: dict, entry: zoo.Entry) -> tuple[list[Any], bytes]:
    """packets completely contained in the bytes the peer sent before closing"""
    sent = b"".join(case["groups"][: case["close_after"]])
    frames = [b"".join(entry.frame(p)) for p in case["packets"]]
    exp = []
    pos = 0
    for p, f in zip(case["packets"], frames):
        if pos + len(f) <= len(sent):
            exp.append(p)
            pos += len(f)
        else:
            break
    return exp, sent


class _Judge:
    """history oracle shared by the sync and async layers"""

    def __init__(self, case: dict, entry: zoo.Entry) -> None:
        self.case = case
        self.entry = entry
        self.expected, self.sent = _expected(case, entry)
        self.frames = [b"".join(entry.frame(p)) for p in self.expected]
        self.delivered = 0
        self.eof_reported = 0
        self.calls_after_eof = 0

    def arrived_complete(self, arrived_bytes: int) -> int:
        """number of expected packets completely contained in the first `arrived_bytes` bytes"""
        n = 0
        pos = 0
        for f in self.frames:
            pos += len(f)
            if pos <= arrived_bytes:
                n += 1
        return n

    def packet(self, value: Any, where: str) -> None:
        if self.eof_reported:
            raise Violation("data-after-eof", f"{where}: returned a packet after end-of-stream had been reported: {value!r:.80}", where=where)
        if self.delivered >= len(self.expected):
            raise Violation("extra-packet", f"{where}: returned {value!r:.80} but only {len(self.expected)} complete packets were sent (trailing partial frame delivered?)", where=where)
        j = self.expected[self.delivered]
        if not self.entry.eq(value, j):
            raise Violation("wrong-packet", f"{where}: packet #{self.delivered}: got {value!r:.80}, expected {self.entry.expected(j)!r:.80}", where=where)
        self.delivered += 1

    def eof(self, where: str, eof_happened: bool) -> None:
        if not eof_happened and not self.eof_reported:
            raise Violation("eof-before-close", f"{where}: end-of-stream reported although the peer has not closed yet", where=where)
        if self.delivered < len(self.expected) and self.case.get("close_kind") != "reset":
            # (a connection *reset* may discard what the application had not read yet, as it does in the kernel and in
            # asyncio's own streams: only order and exactly-once are judged there)
            raise Violation(
                "eof-before-data",
                f"{where}: end-of-stream reported after {self.delivered} packets but {len(self.expected)} complete packets were received before the peer closed",
                where=where,
            )
        self.eof_reported += 1

    def timeout(self, where: str, finite: bool, arrived_bytes: int) -> None:
        if self.eof_reported:
            raise Violation("eof-not-sticky", f"{where}: TimeoutError after end-of-stream had been reported", where=where)
        if not finite:
            raise Violation("spurious-timeout", f"{where}: TimeoutError with timeout=None", where=where)
        if self.arrived_complete(arrived_bytes) > self.delivered:
            raise Violation(
                "timeout-with-data", f"{where}: TimeoutError although packet #{self.delivered} was completely received ({arrived_bytes} bytes arrived)", where=where
            )


# ----------------------------------------------------------------------------------------------
# sync layer


def run_sync_case(case: dict) -> Outcome:
    entry = zoo.build(case["spec"])
    judge = _Judge(case, entry)
    world = World()
    sock = PeeredFakeSocket(world, socket.SOCK_STREAM)
    sock.stale_after_eof = STALE
    try:
        t = 0.0
        arrivals: list[tuple[float, int]] = []
        total = 0
        for i, g in enumerate(case["groups"][: case["close_after"]]):
            t += case["gaps"][i]
            world.at(t, lambda g=g: sock.env_arrive(g))
            total += len(g)
            arrivals.append((t, total))
        t += case["gaps"][case["close_after"]]
        eof_time = t
        world.at(eof_time, sock.env_eof)
        world.run_due()

        def arrived_now() -> int:
            return max([c for (ta, c) in arrivals if ta <= world.now], default=0)

        proto = entry.buffered_protocol() if (case["buffered"] and entry.buffered) else entry.stream_protocol()
        factory = make_selector_factory(world, sock)
        classes = [case["api"], "path-B" if (case["buffered"] and entry.buffered) else "path-A"]
        with virtual_clock(world):
            if case["api"] == "client":
                with _patched_default_selector(factory):
                    obj: Any = TCPNetworkClient(sock, proto, max_recv_size=case["max_recv_size"], retry_interval=1.0)
            else:
                obj = StreamEndpoint(SocketStreamTransport(sock, 1.0, selector_factory=factory), proto, max_recv_size=case["max_recv_size"])

            def one_recv(T: float | None, where: str) -> str:
                eof_before = judge.eof_reported
                sel0 = world.select_calls
                try:
                    value = obj.recv_packet(timeout=T)
                except TimeoutError:
                    judge.timeout(where, T is not None, arrived_now())
                    return "timeout"
                except ConnectionAbortedError:
                    judge.eof(where, world.now >= eof_time)
                    if eof_before and world.select_calls != sel0:
                        raise Violation("eof-not-sticky", f"{where}: waited in select() after end-of-stream had been reported", where=where)
                    return "eof"
                except StreamProtocolParseError as exc:
                    raise Violation("parse-error", f"{where}: parse error on a valid stream: {exc}", where=where) from exc
                except HarnessHang as exc:
                    raise Violation("blocks", f"{where}: blocks forever (eof reported before: {bool(eof_before)}): {exc}", where=where) from exc
                except SpinGuard as exc:
                    raise Violation("blocks", f"{where}: spins: {exc}", where=where) from exc
                judge.packet(value, where)
                return "packet"

            calls = [tuple(c) for c in case["calls"]]
            for idx, (kind, T) in enumerate(calls):
                where = f"call#{idx}:{kind}(timeout={T})"
                if kind == "recv":
                    one_recv(T, where)
                else:
                    if case["api"] != "client":
                        one_recv(T, where)
                        continue
                    if T is None and judge.eof_reported == 0 and False:
                        pass
                    try:
                        n = 0
                        for value in obj.iter_received_packets(timeout=T):
                            judge.packet(value, where)
                            n += 1
                            if n > len(judge.expected) + 1:
                                raise Violation("extra-packet", f"{where}: iterator does not stop", where=where)
                    except HarnessHang as exc:
                        raise Violation("blocks", f"{where}: iterator blocks forever: {exc}", where=where) from exc
                    # iterator end = OSError inside (timeout or EOF): which one is not observable; if all data is delivered and the
                    # peer closed, later calls must report EOF (checked below)
            # final drain with timeout=None, then post-EOF calls
            guard = 0
            while True:
                guard += 1
                if guard > len(judge.expected) + 3:
                    raise Violation("no-eof", "drain with timeout=None does not reach end-of-stream", where="drain")
                if one_recv(None, f"drain#{guard}") == "eof":
                    break
            if judge.delivered != len(judge.expected):
                raise Violation("lost-packet", f"only {judge.delivered} of {len(judge.expected)} packets delivered before end-of-stream", where="drain")
            for k in range(case["post_eof_calls"]):
                T2 = [None, 0, 0.7][k % 3]
                r = one_recv(T2, f"post-eof#{k}(timeout={T2})")
                if r != "eof":
                    raise Violation("eof-not-sticky", f"post-eof call #{k} (timeout={T2}) ended with {r}", where="post-eof")
            if case["api"] == "client":
                if list(obj.iter_received_packets(timeout=0)):
                    raise Violation("data-after-eof", "iter_received_packets yielded after end-of-stream", where="post-eof")
        return Outcome(nontrivial=_nontrivial(case, judge), classes=tuple(classes + _classes(case, judge)))
    finally:
        sock.close()


def _nontrivial(case: dict, judge: _Judge) -> bool:
    sent = judge.sent
    inside_frame = len(sent) != sum(len(f) for f in judge.frames)
    return (inside_frame or len(judge.expected) >= 1) and case["post_eof_calls"] >= 2


def _classes(case: dict, judge: _Judge) -> list[str]:
    out = []
    sent = judge.sent
    if len(sent) != sum(len(f) for f in judge.frames):
        out.append("close-inside-frame")
    if not sent:
        out.append("close-before-data")
    if len(judge.expected) >= 2:
        out.append("multi-packet")
    if case["partial"]:
        out.append("trailing-partial")
    return out


# ----------------------------------------------------------------------------------------------
# async layer


class _StaleAfterEofTransport(MemStreamTransport):
    """returns garbage if it is read again after it signalled EOF, so a lost EOF latch becomes visible"""

    eof_signalled = 0

    async def recv_into(self, buffer: Any) -> int:
        if self.eof and not self.inbox and self.eof_signalled >= 1 and not self.closed:
            with memoryview(buffer) as view:
                n = min(view.nbytes, len(STALE))
                view[:n] = STALE[:n]
                return n
        n = await super().recv_into(buffer)
        if n == 0:
            self.eof_signalled += 1
        return n


async def _async_session(case: dict) -> dict:
    if case.get("stale_cancel"):
        _t = asyncio.current_task()
        assert _t is not None
        _t.cancel()
        try:
            await asyncio.sleep(0)
        except asyncio.CancelledError:
            pass  # (no uncancel(): the count stays at 1 for the rest of the session)
    entry = zoo.build(case["spec"])
    judge = _Judge(case, entry)
    loop = asyncio.get_running_loop()
    proto = entry.buffered_protocol() if (case["buffered"] and entry.buffered) else entry.stream_protocol()
    backend: Any
    if case.get("over") == "asyncio-adapter":
        # the real asyncio protocol + adapter under the endpoint, over the fake selector transport
        from easynetwork.lowlevel.api_async.backend._asyncio.stream.socket import AsyncioTransportStreamSocketAdapter, StreamReaderBufferedProtocol

        from ..fakeasyncio import FakeAsyncioTransport

        backend = AsyncIOBackend()
        aio_protocol = StreamReaderBufferedProtocol(loop=loop)
        aio_transport = FakeAsyncioTransport(loop, aio_protocol, kernel_capacity=None, max_recv=case.get("max_recv"))
        adapter = AsyncioTransportStreamSocketAdapter(backend, aio_transport, aio_protocol)
        obj: Any
        if case["api"] == "client":
            backend = VerifBackend()
            backend.connect_transports.append(adapter)  # type: ignore[arg-type]
            obj = AsyncTCPNetworkClient(("localhost", 9000), proto, backend, max_recv_size=case["max_recv_size"])
            await obj.wait_connected()
        else:
            obj = AsyncStreamEndpoint(adapter, proto, max_recv_size=case["max_recv_size"])

        class _Feeder:
            def feed(self, data: bytes) -> None:
                aio_transport.feed(data)

            def feed_eof(self) -> None:
                if case.get("close_kind") == "reset":
                    # the connection is reset instead of closed: what was completely received before must still be
                    # delivered first, then a connection error (never "client closed": nobody closed the client)
                    aio_transport.lose_connection(ConnectionResetError(104, "Connection reset by peer"))
                else:
                    aio_transport.feed_eof()

        mem: Any = _Feeder()
    elif case["api"] == "client":
        backend = VerifBackend()
        mem = _StaleAfterEofTransport(backend)
        backend.connect_transports.append(mem)
        obj = AsyncTCPNetworkClient(("localhost", 9000), proto, backend, max_recv_size=case["max_recv_size"])
        await obj.wait_connected()
    else:
        backend = AsyncIOBackend()
        mem = _StaleAfterEofTransport(backend)
        obj = AsyncStreamEndpoint(mem, proto, max_recv_size=case["max_recv_size"])
    t = loop.time()
    arrivals: list[tuple[float, int]] = []
    total = 0
    for i, g in enumerate(case["groups"][: case["close_after"]]):
        t += case["gaps"][i] + 1e-6  # strictly increasing: asyncio does not order timers that are due at the same instant
        loop.call_at(t, mem.feed, g)
        total += len(g)
        arrivals.append((t, total))
    t += case["gaps"][case["close_after"]] + 1e-6
    eof_time = t
    loop.call_at(eof_time, mem.feed_eof)
    await asyncio.sleep(0)

    def arrived_now() -> int:
        return max([c for (ta, c) in arrivals if ta <= loop.time()], default=0)

    def handed_over_now() -> int:
        """bytes the transport has already handed to the protocol (the fake selector transport may deliver an arrival in
        pieces of `max_recv` bytes, one per loop iteration: what is still in its 'kernel' queue cannot be seen by a poll)"""
        pending = len(getattr(aio_transport, "inbox", b"")) if case.get("over") == "asyncio-adapter" else 0
        return max(0, arrived_now() - pending)

    async def one_recv(T: float | None, where: str) -> str:
        jumps0 = loop.spin_jumps  # type: ignore[attr-defined]
        handed0 = handed_over_now()
        try:
            if T is None:
                value = await obj.recv_packet()
            else:
                with backend.timeout(T):
                    value = await obj.recv_packet()
        except TimeoutError:
            if loop.spin_jumps > jumps0:  # type: ignore[attr-defined]
                # the virtual loop moves its clock to the next timer after 200 busy iterations in a row (needed for
                # cancelled scopes that poll); a receive that legitimately needs more iterations than that (hundreds of
                # 1-byte reads) then sees its own deadline pass although no time would pass on a real loop
                raise Inconclusive(f"{where}: the virtual clock jumped during a busy run of the receive itself")
            # a polling call (timeout 0) is judged against what had been handed to the protocol when it started
            judge.timeout(where, T is not None, handed0 if T == 0 else arrived_now())
            return "timeout"
        except ClientClosedError as exc:
            raise Violation("client-closed-error", f"{where}: ClientClosedError although nobody closed the client: {exc}", where=where) from exc
        except ConnectionAbortedError:
            judge.eof(where, loop.time() >= eof_time)
            return "eof"
        except ConnectionResetError:
            if case.get("close_kind") != "reset":
                raise
            judge.eof(where, loop.time() >= eof_time)
            return "eof"
        except StreamProtocolParseError as exc:
            raise Violation("parse-error", f"{where}: parse error on a valid stream: {exc}", where=where) from exc
        judge.packet(value, where)
        return "packet"

    if case.get("start_delay"):
        await asyncio.sleep(case["start_delay"])
    for idx, (kind, T) in enumerate(tuple(c) for c in case["calls"]):
        where = f"call#{idx}:{kind}(timeout={T})"
        if kind == "iter" and case["api"] == "client":
            n = 0
            async for value in obj.iter_received_packets(timeout=T):
                judge.packet(value, where)
                n += 1
                if n > len(judge.expected) + 1:
                    raise Violation("extra-packet", f"{where}: iterator does not stop", where=where)
        else:
            await one_recv(T, where)
    guard = 0
    while True:
        guard += 1
        if guard > len(judge.expected) + 3:
            raise Violation("no-eof", "drain does not reach end-of-stream", where="drain")
        if await one_recv(None, f"drain#{guard}") == "eof":
            break
    if judge.delivered != len(judge.expected) and case.get("close_kind") != "reset":
        raise Violation("lost-packet", f"only {judge.delivered} of {len(judge.expected)} packets delivered before end-of-stream", where="drain")
    for k in range(case["post_eof_calls"]):
        t0 = loop.time()
        r = await one_recv(None if k % 2 == 0 else 0.7, f"post-eof#{k}")
        if r != "eof":
            raise Violation("eof-not-sticky", f"post-eof call #{k} ended with {r}", where="post-eof")
        if loop.time() != t0:
            raise Violation("eof-not-sticky", f"post-eof call #{k} waited {loop.time() - t0}s", where="post-eof")
    await obj.aclose()
    return {"judge": judge}


def run_async_case(case: dict) -> Outcome:
    try:
        r = run_virtual(_async_session, case)
    except Deadlock as exc:
        raise Violation("blocks", f"async receive history blocks forever: {exc}") from exc
    judge = r["judge"]
    entry = zoo.build(case["spec"])
    classes = [case["api"], "path-B" if (case["buffered"] and entry.buffered) else "path-A"]
    if case.get("burst"):
        classes.append("burst-over-receive-buffer")
    return Outcome(nontrivial=_nontrivial(case, judge), classes=tuple(classes + _classes(case, judge)))


@st.composite
def st_adapter_case(draw: st.DrawFn, tier: str) -> dict:
    if draw(st.integers(0, 7)) == 0:
        # a burst larger than the protocol's 256 KiB receive buffer while the reader is idle or slower (the transport's
        # reading is paused at the high-water mark and resumed once the reader has drained), then a few late packets the
        # reader has to *wait* for after that pause/resume cycle
        spec = {"kind": "line", "newline": "LF", "encoding": "ascii", "keep_end": False}
        n = draw(st.sampled_from([130, 300]))
        size = draw(st.sampled_from([1100, 2500]))
        packets = [f"p{i}:" + "x" * size for i in range(n)] + [f"late{i}" for i in range(draw(st.integers(1, 3)))]
        entry = zoo.build(spec)
        frames = [b"".join(entry.frame(p)) for p in packets]
        return {
            "spec": spec,
            "packets": packets,
            "partial": b"",
            "groups": [b"".join(frames[:n]), b"".join(frames[n:])],
            "gaps": [0.0, draw(st.sampled_from([1.5, 3.0])), 0.5],
            "close_after": 2,
            "calls": [],
            "post_eof_calls": 2,
            "buffered": draw(st.booleans()),
            "max_recv_size": draw(st.sampled_from([1024, 65536])),
            "api": "endpoint",
            "over": "asyncio-adapter",
            "max_recv": None,
            "start_delay": draw(st.sampled_from([0.0, 1.0])),
            "burst": True,
        }
    case = draw(st_case(tier, asynchronous=True))
    case["api"] = draw(st.sampled_from(["endpoint", "client"]))
    case["close_kind"] = draw(st.sampled_from(["eof", "eof", "reset"]))
    # polling calls (timeout 0) are part of the quantifier for the asynchronous side as well: what is already in the
    # transport's user-space buffer must be returned, and end-of-stream reported, without waiting
    case["calls"] = [(k, draw(st.sampled_from([T, T, 0]))) for k, T in case["calls"]]
    case["over"] = "asyncio-adapter"
    case["max_recv"] = draw(st.sampled_from([None, None, 1, 5]))
    # bursts larger than max_recv_size waiting in the protocol's buffer exercise the partial-read path of receive_data()
    case["gaps"] = [draw(st.sampled_from([0.0, 0.0, 0.0, 0.5])) for _ in case["gaps"]]
    # the calling task runs with task.cancelling() == 1 (clean-up code of a cancelled task; on CPython 3.11/3.12 also any
    # task after a handled task-group failure, which leaks one cancel request into its parent)
    case["stale_cancel"] = draw(st.integers(0, 3)) == 0
    return case


CHECK = Check(
    id="C03",
    level="exploration",
    rule=(
        "case = 0-6 valid packets (line/json-lines/autosep/lenprefixed/file-based/fixed) + optional trailing partial frame, "
        "split into arrival groups with virtual gaps x position of the peer's close (after any group, before any data, inside "
        "a frame) x history of up to 8 recv_packet / iter_received_packets calls with timeouts in {None, 0, 0.7, 3} x receive "
        "path (copying / buffered) x max_recv_size {1,2,3,8,1024,65536} x API (StreamEndpoint, TCPNetworkClient, "
        "AsyncStreamEndpoint, AsyncTCPNetworkClient; layer async-adapter: AsyncStreamEndpoint over the real asyncio StreamReaderBufferedProtocol + adapter under a fake selector transport); the transport returns stale garbage if read again after it signalled "
        "EOF; non-trivial = >= 1 complete packet or a close inside a frame, and >= 2 calls after EOF; distinct = sha1(case)"
    ),
    layers=[
        Layer("sync", lambda tier: st_case(tier, asynchronous=False), run_sync_case, {"quick": 1200, "thorough": 6000}),
        Layer("async", lambda tier: st_case(tier, asynchronous=True), run_async_case, {"quick": 500, "thorough": 3000}),
        Layer("async-adapter", st_adapter_case, run_async_case, {"quick": 500, "thorough": 3000}),
    ],
    assumptions=[
        "sync layer: socket.socket subclass with simulated data path, fake selector as scheduler, virtual perf_counter; async layer: in-memory transport on the real asyncio backend with a virtual clock",
        "a TimeoutError is accepted only for finite-timeout calls and only if the next packet was not completely received at the time it was raised",
    ],
)

# thorough tier: the same strategy and oracle driven by the coverage-guided engine (pbt/covfuzz.py)
from ..covfuzz import cov_layer  # noqa: E402

CHECK.layers.append(cov_layer("C03", CHECK.layer("sync"), runs=8000, time_s=100))
