"""C09 — TLS truncation is never reported as a clean end-of-stream (DESIGN.md section 3, C09)."""

from __future__ import annotations

import asyncio
from typing import Any

from hypothesis import strategies as st

from .. import tlsharness, tlspeer
from ..core import Check, HarnessError, Layer, Outcome, Violation
from ..vloop import Deadlock, run_virtual

NO_CUT = 1 << 40


def tls_record_boundaries(stream: bytes) -> list[int]:
    """end offsets of the TLS records in a ciphertext stream (5-byte header: type, version, length)"""
    out = []
    pos = 0
    while pos + 5 <= len(stream):
        n = int.from_bytes(stream[pos + 3 : pos + 5], "big")
        pos += 5 + n
        if pos > len(stream):
            break
        out.append(pos)
    return out


async def _session(case: dict) -> dict:
    backend, mem, peer, wire = tlsharness.new_session(case)
    wire.auto_close_reply = True
    cut = case["cut"]
    wire.cut_to_sut_at = None if cut >= NO_CUT else cut
    records = [tlspeer.payload("peer", i, n) for i, n in enumerate(case["records"])]
    expected = b"".join(records)
    conductor = asyncio.create_task(wire.conductor())
    res: dict[str, Any] = {"phase": "handshake", "received": b"", "end": None, "error": None}
    # the peer sends everything it has as soon as its handshake completes, then its close_notify
    for rec in records:
        peer.write(rec)
    if case.get("peer_closes", True):
        peer.close()
    else:
        wire.eof_when_drained = True
    tls = None
    try:
        try:
            tls = await tlsharness.wrap_sut(case, mem)
        except OSError as exc:
            res["end"] = "wrap-error"
            res["error"] = type(exc).__name__
            res["wrap_closed_transport"] = mem.closed
            return res
        res["phase"] = "data"
        received = bytearray()
        sizes = case["recv_sizes"]
        i = 0
        while True:
            size = sizes[i % len(sizes)]
            i += 1
            try:
                if case["recv_mode"] == "recv":
                    data = await tls.recv(size)
                else:
                    buf = bytearray(size)
                    n = await tls.recv_into(buf)
                    data = bytes(buf[:n])
            except OSError as exc:
                res["end"] = "error"
                res["error"] = type(exc).__name__
                break
            if not data:
                res["end"] = "eof"
                break
            received += data
            if i > len(expected) + 50:
                raise HarnessError("reader loop does not end")
        res["received"] = bytes(received)
        # closing the transport (whatever happened) must close the wrapped transport
        if not mem.eof and wire.cut_to_sut_at is None:
            pass
        await tls.aclose()
        res["closed"] = mem.closed
        await wire.wait_until(lambda: not wire.to_peer)
        wire.peer.pump()
    finally:
        wire.stop = True
        wire.kick()
        conductor.cancel()
        await asyncio.gather(conductor, return_exceptions=True)
        res["stream_to_sut"] = bytes(wire.all_from_peer)
        res["delivered"] = wire.delivered_to_sut
        res["peer_done"] = peer.close_sent and not peer.to_write
        res["undelivered"] = len(wire.to_sut)
        res["expected"] = expected
        res["peer_saw_close_notify"] = peer.zero_return
        res["peer_error"] = repr(peer.error) if peer.error else None
    return res


def _sync_session(case: dict) -> dict:
    """same scenario on the blocking SSLStreamTransport over a real socketpair, single-threaded"""
    import math

    from easynetwork.lowlevel.api_sync.transports.socket import SSLStreamTransport

    from ..synctls import TLSPipe, selector_factory_for
    from ..syncworld import HarnessHang, SpinGuard, World, virtual_clock

    world = World()
    peer = tlspeer.TLSPeer("server" if case["sut_role"] == "client" else "client", case.get("version", "1.3"))
    pipe = TLSPipe(world, peer, case.get("frag_to_sut", []))
    cut = case["cut"]
    pipe.cut_at = None if cut >= NO_CUT else cut
    records = [tlspeer.payload("peer", i, n) for i, n in enumerate(case["records"])]
    expected = b"".join(records)
    for rec in records:
        peer.write(rec)
    if case.get("peer_closes", True):
        peer.close()
    else:
        pipe.eof_when_drained = True
    ctx, kw = tlsharness.make_sut_kwargs(case["sut_role"], case.get("version", "1.3"))
    res: dict[str, Any] = {"phase": "handshake", "received": b"", "end": None, "error": None}
    transport = None
    try:
        with virtual_clock(world):
            try:
                try:
                    transport = SSLStreamTransport(
                        pipe.sut_sock,
                        ctx,
                        math.inf,
                        handshake_timeout=1e7,
                        shutdown_timeout=5.0,
                        standard_compatible=case.get("standard_compatible", True),
                        selector_factory=selector_factory_for(pipe),
                        **kw,
                    )
                except OSError as exc:
                    res["end"] = "wrap-error"
                    res["error"] = type(exc).__name__
                    res["wrap_closed_transport"] = pipe.sut_sock.fileno() < 0
                    return res
                res["phase"] = "data"
                received = bytearray()
                sizes = case["recv_sizes"]
                i = 0
                while True:
                    size = sizes[i % len(sizes)]
                    i += 1
                    try:
                        if case["recv_mode"] == "recv":
                            data = transport.recv(size, math.inf)
                        else:
                            buf = bytearray(size)
                            n = transport.recv_into(buf, math.inf)
                            data = bytes(buf[:n])
                    except OSError as exc:
                        res["end"] = "error"
                        res["error"] = type(exc).__name__
                        break
                    if not data:
                        res["end"] = "eof"
                        break
                    received += data
                    if i > len(expected) + 50:
                        raise HarnessError("reader loop does not end")
                res["received"] = bytes(received)
                transport.close()
                res["closed"] = transport.is_closed()
                for _ in range(1000):
                    if not pipe.pump():
                        break
            except HarnessHang as exc:
                raise Violation("deadlock", f"blocking TLS session hangs: {exc}") from exc
            except SpinGuard as exc:
                raise Violation("deadlock", f"blocking TLS session spins: {exc}") from exc
        return res
    finally:
        res["stream_to_sut"] = bytes(pipe.all_to_sut)
        res["delivered"] = pipe.delivered
        res["peer_done"] = peer.close_sent and not peer.to_write
        res["undelivered"] = len(pipe.to_sut)
        res["expected"] = expected
        res["peer_saw_close_notify"] = peer.zero_return
        res["peer_error"] = repr(peer.error) if peer.error else None
        pipe.close()


def run_sync_case(case: dict) -> Outcome:
    return _judge(case, _sync_session(case))


def run_async_case(case: dict) -> Outcome:
    try:
        r = run_virtual(_session, case)
    except Deadlock as exc:
        raise Violation("deadlock", f"session did not end: {exc}") from exc
    return _judge(case, r)


def _judge(case: dict, r: dict) -> Outcome:
    cut = case["cut"]
    std = case.get("standard_compatible", True)
    stream = r["stream_to_sut"]
    peer_closes = case.get("peer_closes", True)
    # complete = the SUT was given the peer's whole stream including its close_notify
    complete = peer_closes and r["peer_done"] and r["undelivered"] == 0 and r["delivered"] == len(stream) and (cut >= NO_CUT or cut >= len(stream))
    truncated = not complete
    received, expected = r["received"], r["expected"]
    detail = {"cut": cut, "stream_len": len(stream), "end": r["end"], "error": r["error"], "phase": r["phase"], "std": std}
    if not expected.startswith(received):
        raise Violation("data-mismatch", f"reader returned bytes that are not a prefix of what the peer wrote ({len(received)} bytes)", **detail)
    if r["end"] == "wrap-error":
        if complete:
            raise Violation("spurious-error", "handshake failed although the whole stream was delivered", **detail)
        if not r.get("wrap_closed_transport"):
            raise Violation("wrap-leak", "failed wrap() did not close the wrapped transport", **detail)
    elif truncated:
        if std:
            if r["end"] == "eof":
                raise Violation(
                    "truncation-as-eof",
                    f"connection cut at ciphertext offset {cut} of {len(stream)} without close_notify, reader got clean EOF after {len(received)} bytes",
                    **detail,
                )
        else:
            if r["end"] != "eof":
                raise Violation("abrupt-end-not-eof", f"standard_compatible=False: abrupt end reported as {r['error']} instead of EOF", **detail)
    else:
        if r["end"] != "eof":
            raise Violation("spurious-error", f"peer sent close_notify and the full stream was delivered, reader got {r['error']}", **detail)
        if received != expected:
            raise Violation("data-lost", f"clean EOF after {len(received)} of {len(expected)} bytes", **detail)
        if std and not r["peer_saw_close_notify"]:
            raise Violation("no-close-notify", "standard-compatible aclose() after a clean session did not send close_notify", **detail)
    if r["phase"] == "data" and not r.get("closed"):
        raise Violation("not-closed", "wrapped transport not closed after aclose()", **detail)
    bounds = tls_record_boundaries(stream)
    classes = [f"role-{case['sut_role']}", f"tls-{case['version']}", "std" if std else "nonstd", f"end-{r['end']}"]
    inside = False
    if truncated and cut >= len(stream) and r["phase"] == "handshake":
        classes += ["cut-at-record-boundary", "cut-in-handshake"]
    elif truncated and cut < len(stream):
        if cut in bounds or cut == 0:
            classes.append("cut-at-record-boundary")
        else:
            inside = True
            classes.append("cut-inside-record")
            if bounds and cut > (bounds[-2] if len(bounds) >= 2 else 0) and peer_closes and r["peer_done"]:
                classes.append("cut-inside-close-notify")
        classes.append("cut-in-handshake" if r["phase"] == "handshake" else "cut-after-handshake")
    elif truncated:
        classes.append("no-close-notify-from-peer")
    else:
        classes.append("complete")
    return Outcome(nontrivial=inside, classes=tuple(classes), note=f"end={r['end']} error={r['error']} received={len(received)}/{len(expected)}")


_LAYOUT: dict = {}


# ----------------------------------------------------------------------------------------------
# layer "concurrent-close": aclose() while another task is parked in recv(); the peer then answers with close_notify,
# just drops the connection, or stays silent


async def _concurrent_close_session(case: dict) -> dict:
    backend, mem, peer, wire = tlsharness.new_session(case)
    wire.auto_close_reply = case["peer_reaction"] == "close_notify"
    conductor = asyncio.create_task(wire.conductor())
    loop = asyncio.get_running_loop()
    records = [tlspeer.payload("peer", i, n) for i, n in enumerate(case["records"])]
    expected = b"".join(records)
    res: dict[str, Any] = {"reader_end": None, "reader_error": None, "received": b""}
    try:
        tls = await tlsharness.wrap_sut(case, mem, shutdown_timeout=case["shutdown_timeout"])
        for rec in records:
            peer.write(rec)
        wire.kick()
        received = bytearray()
        parked = asyncio.Event()

        async def reader() -> None:
            while True:
                if len(received) >= len(expected):
                    parked.set()
                try:
                    data = await tls.recv(65536)
                except OSError as exc:
                    res["reader_end"], res["reader_error"] = "error", type(exc).__name__
                    return
                if not data:
                    res["reader_end"] = "eof"
                    return
                received.extend(data)

        rt = asyncio.create_task(reader())
        await parked.wait()
        for _ in range(case["park_ticks"]):
            await asyncio.sleep(0)
        t_close = loop.time()
        seen_at: dict[str, float | None] = {"t": None}

        async def watch_peer() -> None:
            await wire.wait_until(lambda: peer.zero_return or peer.error is not None)
            seen_at["t"] = loop.time()

        watcher = asyncio.create_task(watch_peer())
        if case["peer_reaction"] == "drop":
            # the peer reacts to our close_notify by dropping the TCP connection without sending its own
            async def drop_when_seen() -> None:
                await wire.wait_until(lambda: peer.zero_return or peer.error is not None)
                await asyncio.sleep(case["drop_delay"])
                if not mem.closed and not mem.eof:
                    mem.feed_eof()

            dropper = asyncio.create_task(drop_when_seen())
        else:
            dropper = None
        await tls.aclose()
        res["close_duration"] = loop.time() - t_close
        await asyncio.sleep(0)
        if not rt.done():
            # the reader of a closed transport must end (any way) once the close finished
            for _ in range(20):
                await asyncio.sleep(0)
        res["reader_done"] = rt.done()
        if not rt.done():
            rt.cancel()
        await asyncio.gather(rt, return_exceptions=True)
        for t in (watcher, dropper):
            if t is not None and not t.done():
                t.cancel()
        await asyncio.gather(*(t for t in (watcher, dropper) if t is not None), return_exceptions=True)
        res["peer_saw_close_notify_after"] = None if seen_at["t"] is None else seen_at["t"] - t_close
        res["received"] = bytes(received)
        res["closed"] = mem.closed
    finally:
        wire.stop = True
        wire.kick()
        conductor.cancel()
        await asyncio.gather(conductor, return_exceptions=True)
    res["expected"] = expected
    res["peer_zero_return"] = peer.zero_return
    return res


def run_concurrent_close_case(case: dict) -> Outcome:
    try:
        r = run_virtual(_concurrent_close_session, case)
    except Deadlock as exc:
        raise Violation("deadlock", f"close with a parked reader did not end: {exc}") from exc
    detail = {"peer_reaction": case["peer_reaction"], "reader_end": r["reader_end"], "reader_error": r["reader_error"]}
    if r["received"] != r["expected"]:
        raise Violation("data-mismatch", f"reader got {len(r['received'])} of {len(r['expected'])} bytes before the close", **detail)
    if not r["closed"]:
        raise Violation("not-closed", "wrapped transport not closed after aclose()", **detail)
    # closing the transport sends a close notification: the peer must see it well before the shutdown timeout gives up
    seen = r["peer_saw_close_notify_after"]
    if seen is None or seen >= case["shutdown_timeout"] - 1e-6:
        raise Violation(
            "no-close-notify",
            f"aclose() with a reader parked in recv(): the peer did not receive close_notify before the shutdown timeout ({case['shutdown_timeout']}s); seen after {seen}",
            **detail,
        )
    if case["peer_reaction"] == "drop" and r["reader_end"] == "eof":
        raise Violation(
            "truncation-as-eof",
            "the peer dropped the connection without close_notify while a reader was parked and a close was in progress: the reader got a clean EOF",
            **detail,
        )
    if case["peer_reaction"] == "close_notify" and r["reader_end"] == "error" and r["reader_error"] not in ("ConnectionAbortedError", "OSError"):
        pass  # the reader may see EOF or a closed-transport error; neither is prescribed
    return Outcome(nontrivial=True, classes=(f"reaction-{case['peer_reaction']}", f"reader-{r['reader_end']}", f"tls-{case['version']}"))


@st.composite
def st_concurrent_close_case(draw: st.DrawFn, tier: str) -> dict:
    return {
        "sut_role": draw(st.sampled_from(["client", "server"])),
        "version": draw(st.sampled_from(["1.2", "1.3"])),
        "standard_compatible": True,
        "records": draw(st.lists(st.sampled_from([1, 100, 5000]), min_size=0, max_size=2)),
        "peer_reaction": draw(st.sampled_from(["close_notify", "drop", "drop", "silent"])),
        "drop_delay": draw(st.sampled_from([0.0, 0.01, 1.0])),
        "shutdown_timeout": draw(st.sampled_from([5.0, 30.0])),
        "park_ticks": draw(st.integers(0, 5)),
        "frag_to_sut": draw(st.sampled_from([[1 << 20], [7], [100]])),
        "frag_to_peer": draw(st.sampled_from([[1 << 20], [11]])),
        "delays": draw(st.sampled_from([[0.0], [0.0, 0.01]])),
        "mem_script": {"send_yield": draw(st.lists(st.integers(0, 2), min_size=1, max_size=3))},
    }


def _base_case(draw: st.DrawFn) -> dict:
    return {
        "sut_role": draw(st.sampled_from(["client", "server"])),
        "version": draw(st.sampled_from(["1.2", "1.3"])),
        "standard_compatible": draw(st.sampled_from([True, True, False])),
        "records": draw(st.lists(st.sampled_from([1, 5, 100, 1000, 20000]), min_size=0, max_size=3)),
        "peer_closes": draw(st.sampled_from([True, True, True, False])),
        "recv_mode": draw(st.sampled_from(["recv", "recv_into"])),
        "recv_sizes": draw(st.lists(st.sampled_from([1, 16, 1024, 65536]), min_size=1, max_size=3)),
        "frag_to_sut": draw(st.one_of(st.just([1 << 20]), st.lists(st.sampled_from([1, 2, 7, 100, 5000]), min_size=1, max_size=4))),
        "frag_to_peer": [1 << 20],
        "delays": [0.0],
        "mem_script": {},
    }


@st.composite
def st_async_case(draw: st.DrawFn, tier: str) -> dict:
    case = _base_case(draw)
    if sum(case["records"]) > 3000 and min(case["frag_to_sut"]) < 100:
        case["frag_to_sut"] = [5000]
    # offsets are drawn against the layout of a clean transcript of the same shape (record structure is the same in the
    # live run up to ECDSA signature length); offsets beyond the live stream's end simply mean "no truncation"
    key = (case["sut_role"], case["version"], tuple(case["records"]))
    if key not in _LAYOUT:
        tr = tlspeer.clean_session_transcript(case["version"], case["sut_role"], [tlspeer.payload("peer", i, n) for i, n in enumerate(case["records"])])
        marks = dict(tr["marks"])
        _LAYOUT[key] = (marks["handshake_end"], len(tr["to_sut"]), tls_record_boundaries(tr["to_sut"]))
    hs_end, total, bounds = _LAYOUT[key]
    near = [b + d for b in bounds for d in (-2, -1, 0, 1, 2) if b + d >= 0]
    case["cut"] = draw(
        st.one_of(
            st.integers(0, total + 8),
            st.integers(max(0, hs_end - 80), total + 8),
            st.integers(max(0, total - 40), total + 8),
            st.sampled_from(near),
            st.just(NO_CUT),
        )
    )
    return case


def enum_offsets(tier: str):
    """fault enumeration: for a few fixed session shapes, every byte offset (thorough) / every record boundary +-1 and a
    stride (quick) of the peer->SUT ciphertext stream"""
    shapes = []
    for role in ("client", "server"):
        for version in ("1.2", "1.3"):
            for std in (True, False):
                shapes.append((role, version, std, [5, 300]))
    if tier == "thorough":
        shapes += [("client", "1.3", True, []), ("server", "1.2", True, [17000])]
    for role, version, std, records in shapes:
        base = {
            "sut_role": role,
            "version": version,
            "standard_compatible": std,
            "records": records,
            "peer_closes": True,
            "recv_mode": "recv",
            "recv_sizes": [65536],
            "frag_to_sut": [1 << 20],
            "frag_to_peer": [1 << 20],
            "delays": [0.0],
            "mem_script": {},
        }
        tr = tlspeer.clean_session_transcript(version, role, [tlspeer.payload("peer", i, n) for i, n in enumerate(records)])
        stream = tr["to_sut"]
        bounds = tls_record_boundaries(stream)
        if tier == "thorough":
            offsets = list(range(0, len(stream) + 40)) if len(stream) < 6000 else sorted(
                set(range(0, len(stream) + 40, 7)) | {b + d for b in bounds for d in (-2, -1, 0, 1, 2)}
            )
        else:
            offsets = sorted({b + d for b in bounds for d in (-1, 0, 1)} | set(range(0, len(stream) + 40, 97)) | {len(stream) + 39})
        for off in offsets:
            if off < 0:
                continue
            yield dict(base, cut=off)
        yield dict(base, cut=NO_CUT)


# ----------------------------------------------------------------------------------------------
# layer "client-default": the high-level clients built with ssl=True create their own default context and promise to
# clear OP_IGNORE_UNEXPECTED_EOF on it.  On this image ssl.create_default_context() leaves the option off, which would
# make the promise unobservable, so the harness substitutes a create_default_context() that (a) trusts the test CA and
# (b) has the option SET (as a distribution-patched or future stdlib may).  The client must then still report a
# truncated stream as an error in standard-compatible mode.


class _patched_default_context:
    def __init__(self, version: str) -> None:
        self.version = version

    def __enter__(self) -> None:
        import os
        import ssl

        self.real = ssl.create_default_context
        version = self.version

        def create_default_context(*args: Any, **kwargs: Any) -> ssl.SSLContext:
            ctx = self.real(*args, **kwargs)
            ctx.load_verify_locations(os.path.join(tlspeer.CERTS, "ca.pem"))
            tlspeer._pin(ctx, version)
            ctx.options |= ssl.OP_IGNORE_UNEXPECTED_EOF
            return ctx

        ssl.create_default_context = create_default_context  # type: ignore[assignment]

    def __exit__(self, *a: Any) -> None:
        import ssl

        ssl.create_default_context = self.real  # type: ignore[assignment]


def _client_protocol() -> Any:
    from easynetwork.protocol import StreamProtocol
    from easynetwork.serializers.line import StringLineSerializer

    return StreamProtocol(StringLineSerializer("LF"))


def _client_lines(case: dict) -> list[bytes]:
    return [(f"line-{i}-" + "x" * n).encode() + b"\n" for i, n in enumerate(case["lines"])]


def _classify_client_end(exc: BaseException) -> tuple[str, str]:
    """The clients turn both a clean end-of-stream and an SSL EOF error into ConnectionAbortedError(ECONNABORTED) `from`
    the original; the original (the __cause__ chain) is what tells them apart at this level."""
    import ssl

    chain: list[BaseException] = []
    e: BaseException | None = exc
    while e is not None and e not in chain:
        chain.append(e)
        e = e.__cause__ or e.__context__
    for e in chain:
        if isinstance(e, ssl.SSLError):
            return "error", type(e).__name__
    for e in chain:
        if isinstance(e, ConnectionAbortedError) and "end-of-stream" in str(e):
            return "eof", type(e).__name__
    if isinstance(exc, OSError):
        return "error", type(exc).__name__
    raise exc


async def _async_client_session(case: dict) -> dict:
    from easynetwork.clients.async_tcp import AsyncTCPNetworkClient

    from ..memtransports import MemStreamTransport, VerifBackend

    backend = VerifBackend()
    mem = MemStreamTransport(backend)
    backend.connect_transports.append(mem)
    peer = tlspeer.TLSPeer("server", case["version"])
    wire = tlsharness.Wire(mem, peer, case.get("frag_to_sut", []), [1 << 20], [0.0])
    wire.auto_close_reply = True
    lines = _client_lines(case)
    for ln in lines:
        peer.write(ln)
    if case["peer_closes"]:
        peer.close()
    else:
        wire.eof_when_drained = True
    conductor = asyncio.create_task(wire.conductor())
    res: dict[str, Any] = {"packets": [], "end": None, "error": None, "phase": "connect"}
    kwargs: dict[str, Any] = {}
    if case["std"] is not None:
        kwargs["ssl_standard_compatible"] = case["std"]
    try:
        client = AsyncTCPNetworkClient(
            ("localhost", 4433),
            _client_protocol(),
            backend,
            ssl=True,
            server_hostname=case["hostname"],
            ssl_handshake_timeout=1e7,
            ssl_shutdown_timeout=1e7,
            **kwargs,
        )
        try:
            try:
                await client.wait_connected()
            except OSError as exc:
                res["end"], res["error"] = "connect-error", type(exc).__name__
                return res
            res["phase"] = "data"
            while True:
                try:
                    pkt = await client.recv_packet()
                except OSError as exc:
                    res["end"], res["error"] = _classify_client_end(exc)
                    break
                res["packets"].append(pkt)
                if len(res["packets"]) > len(lines) + 5:
                    raise HarnessError("client reader loop does not end")
        finally:
            await client.aclose()
    finally:
        wire.stop = True
        wire.kick()
        conductor.cancel()
        await asyncio.gather(conductor, return_exceptions=True)
        res["peer_done"] = peer.close_sent and not peer.to_write and not wire.to_sut
    return res


def _sync_client_session(case: dict) -> dict:
    from easynetwork.clients.tcp import TCPNetworkClient

    from ..synctls import TLSPipe, selector_factory_for
    from ..syncworld import HarnessHang, SpinGuard, World, virtual_clock
    from .c11 import _patched_default_selector

    world = World()
    peer = tlspeer.TLSPeer("server", case["version"])
    pipe = TLSPipe(world, peer, case.get("frag_to_sut", []), tcp=True)
    lines = _client_lines(case)
    for ln in lines:
        peer.write(ln)
    if case["peer_closes"]:
        peer.close()
    else:
        pipe.eof_when_drained = True
    res: dict[str, Any] = {"packets": [], "end": None, "error": None, "phase": "connect"}
    kwargs: dict[str, Any] = {}
    if case["std"] is not None:
        kwargs["ssl_standard_compatible"] = case["std"]
    try:
        with virtual_clock(world), _patched_default_selector(selector_factory_for(pipe)):
            try:
                try:
                    client = TCPNetworkClient(
                        pipe.sut_sock,
                        _client_protocol(),
                        ssl=True,
                        server_hostname=case["hostname"],
                        ssl_handshake_timeout=1e7,
                        ssl_shutdown_timeout=5.0,
                        **kwargs,
                    )
                except OSError as exc:
                    res["end"], res["error"] = "connect-error", type(exc).__name__
                    return res
                res["phase"] = "data"
                try:
                    while True:
                        try:
                            pkt = client.recv_packet(timeout=None)
                        except OSError as exc:
                            res["end"], res["error"] = _classify_client_end(exc)
                            break
                        res["packets"].append(pkt)
                        if len(res["packets"]) > len(lines) + 5:
                            raise HarnessError("client reader loop does not end")
                finally:
                    client.close()
            except HarnessHang as exc:
                raise Violation("deadlock", f"blocking TLS client hangs: {exc}") from exc
            except SpinGuard as exc:
                raise Violation("deadlock", f"blocking TLS client spins: {exc}") from exc
        return res
    finally:
        res["peer_done"] = peer.close_sent and not peer.to_write and not pipe.to_sut
        pipe.close()


def run_client_default_case(case: dict) -> Outcome:
    with _patched_default_context(case["version"]):
        if case["kind"] == "async":
            try:
                r = run_virtual(_async_client_session, case)
            except Deadlock as exc:
                raise Violation("deadlock", f"client session did not end: {exc}") from exc
        else:
            r = _sync_client_session(case)
    std = True if case["std"] is None else case["std"]
    expected = [ln[:-1].decode() for ln in _client_lines(case)]
    detail = {"client": case["kind"], "std": case["std"], "hostname": case["hostname"], "end": r["end"], "error": r["error"]}
    if r["end"] == "connect-error":
        raise Violation("spurious-error", f"TLS client with its default context cannot connect: {r['error']}", **detail)
    if r["packets"] != expected[: len(r["packets"])]:
        raise Violation("data-mismatch", "client delivered packets the peer did not send", **detail)
    if case["peer_closes"]:
        if r["end"] != "eof" or r["packets"] != expected:
            raise Violation("spurious-error", f"peer closed with close_notify, client reported {r['end']}/{r['error']} after {len(r['packets'])} packets", **detail)
    elif std:
        if r["end"] == "eof":
            raise Violation(
                "truncation-as-eof",
                "connection ended without close_notify; a client built with ssl=True (own default context, standard-compatible) "
                "reported a clean end-of-stream: its default context kept OP_IGNORE_UNEXPECTED_EOF, or standard-compatible mode is not in effect by default",
                **detail,
            )
    else:
        if r["end"] != "eof":
            raise Violation("abrupt-end-not-eof", f"ssl_standard_compatible=False: abrupt end reported as {r['error']}", **detail)
    classes = (f"client-{case['kind']}", f"std-{case['std']}", "truncated" if not case["peer_closes"] else "complete", f"end-{r['end']}", f"hostname-{case['hostname']!r}")
    return Outcome(nontrivial=not case["peer_closes"], classes=classes, note=f"end={r['end']} error={r['error']} packets={len(r['packets'])}")


@st.composite
def st_client_default_case(draw: st.DrawFn, tier: str) -> dict:
    return {
        "kind": draw(st.sampled_from(["async", "sync"])),
        "version": draw(st.sampled_from(["1.2", "1.3"])),
        "std": draw(st.sampled_from([None, None, True, False])),
        "hostname": draw(st.sampled_from(["localhost", "localhost", ""])),
        "lines": draw(st.lists(st.sampled_from([0, 3, 200, 5000]), min_size=0, max_size=3)),
        "peer_closes": draw(st.sampled_from([False, False, True])),
        "frag_to_sut": draw(st.one_of(st.just([1 << 20]), st.lists(st.sampled_from([7, 100, 5000]), min_size=1, max_size=3))),
    }


CHECK = Check(
    id="C09",
    level="fault_enumeration",
    rule=(
        "fault = the peer->SUT ciphertext stream of a live session (handshake, 0-3 application records, close_notify) is cut "
        "at byte offset c and the connection then ends; enumerated: every record boundary +-1 plus a stride (quick) / every "
        "offset (thorough) for 8-10 fixed session shapes (role x TLS version x standard_compatible), plus Hypothesis-drawn "
        "shapes/offsets/fragmentations; non-trivial = cut strictly inside a TLS record (parsed from the record headers of "
        "the live stream) incl. inside the close_notify; layer client-default: high-level TCP clients built with ssl=True "
        "under a substituted create_default_context() that sets OP_IGNORE_UNEXPECTED_EOF, non-trivial = session ended "
        "without close_notify; distinct = sha1(case)"
    ),
    layers=[
        Layer("async-enum", None, run_async_case, {"quick": 0, "thorough": 0}, enumerate=enum_offsets),
        Layer("async", st_async_case, run_async_case, {"quick": 1200, "thorough": 4000}),
        Layer("sync-enum", None, run_sync_case, {"quick": 0, "thorough": 0}, enumerate=enum_offsets),
        Layer("sync", st_async_case, run_sync_case, {"quick": 600, "thorough": 3000}),
        Layer("concurrent-close", st_concurrent_close_case, run_concurrent_close_case, {"quick": 200, "thorough": 1500}),
        Layer("client-default", st_client_default_case, run_client_default_case, {"quick": 150, "thorough": 1000}),
    ],
    assumptions=[
        "peer is the stdlib ssl.SSLObject; the live stream differs from run to run in content but not in record structure except for ECDSA signature length (so enumerated offsets beyond the end mean 'not truncated', decided per run from the live stream)",
        "wrapped transport is the in-memory MemStreamTransport; the blocking SSLStreamTransport sub-domain is in layer 'sync' when present",
    ],
    exhaustive_note="async-enum enumerates the listed offsets completely for each fixed session shape",
)
