"""C07 — receive buffering is bounded by the configured limit (DESIGN.md section 3, C07).

Definitions (DESIGN C07), T = payload + terminator:
  separator-framed:        safely under iff T <= limit - seplen - 1;  over iff payload > limit + seplen
  raw JSON / file-based:   safely under iff T <= limit - 1;           over iff T > limit + r   (r = largest single read)
  in between = the band (either outcome allowed; the current code's outcome there depends on the chunking).

Oracle per run (one stream, one read schedule, one receive path):
  (a) unterminated stream: a LimitOverrunError must have been raised by the time limit + seplen + r unterminated bytes
      were fed since the last output; buffered path: buffer_size never grows and never exceeds the limit, and
      get_write_buffer() never fails;
  (b) every frame safely under the limit: no LimitOverrunError at all, one output per frame;
  (c) an over frame: at least one LimitOverrunError.

Layers: `bound` (generated) and `smallband` (enumerated: small limits x separator lengths 1-3 x all lengths x all
partitions of streams <= 14 bytes, a fixed sparse partition family for longer streams).
"""

from __future__ import annotations

from collections.abc import Iterator
from typing import Any

from hypothesis import strategies as st

from .. import tracedrv, zoo
from ..core import Check, HarnessError, Layer, Outcome, Violation

SEP_KINDS = ("line", "autosep", "base64", "jsonlines")
ALL_PARTITIONS_MAX = 14  # streams up to this many bytes get all 2^(n-1) partitions in the enumerated layer

# ----------------------------------------------------------------------------------------------
# stream construction (pure function of the case)


def kind_of(spec: dict) -> str:
    if spec["kind"] == "json":
        return "jsonlines" if spec.get("use_lines", True) else "jsonraw"
    return spec["kind"]


def separator_of(spec: dict) -> bytes:
    k = kind_of(spec)
    if k == "line":
        return zoo.NEWLINES[spec["newline"]]
    if k == "jsonlines":
        return b"\n"
    if k in ("autosep", "base64"):
        return spec["separator"]
    return b""


def _filler(spec: dict) -> bytes:
    k = kind_of(spec)
    return {"line": b"a", "autosep": b"z", "base64": b"A", "jsonlines": b"1"}[k]


def sep_payload(spec: dict, length: int, variant: int, *, terminated: bool) -> bytes:
    """`length` payload bytes; the last `variant` bytes are the first bytes of the separator (a half-received
    terminator at the limit) when that keeps the payload free of the separator"""
    sep = separator_of(spec)
    fill = _filler(spec)
    k = max(0, min(variant, len(sep) - 1, length))
    p = fill * (length - k) + sep[:k]
    ok = ((p + sep).find(sep) == len(p)) if terminated else (sep not in p)
    if not ok:
        p = fill * length
    return p


def small_frame(spec: dict) -> bytes:
    k = kind_of(spec)
    if k in SEP_KINDS:
        return {"line": b"k", "autosep": b"k", "base64": b"QQ==", "jsonlines": b"7"}[k] + separator_of(spec)
    if k == "jsonraw":
        return b"[7]"
    if k == "hfile":
        return b"\x00\x01k"
    raise HarnessError(k)


def test_frame(spec: dict, case: dict) -> tuple[bytes, int, int]:
    """returns (bytes, T = size incl. terminator if terminated, payload length)"""
    k = kind_of(spec)
    n = case["length"]
    term = case["terminated"]
    if k in SEP_KINDS:
        p = sep_payload(spec, n, case.get("variant", 0), terminated=term)
        return (p + separator_of(spec) if term else p), n + len(separator_of(spec)), n
    if k == "jsonraw":
        shape = case.get("shape", "array")
        n = max(n, 2)
        if shape == "array":
            return (b"[" + b"1" * (n - 2) + (b"]" if term else b"1")), n, n
        if shape == "string":
            return (b'"' + b"a" * (n - 2) + (b'"' if term else b"a")), n, n
        if shape == "space":
            # white space in front of a document is held like any other unparsed byte (keep-alive CRLFs, padding)
            n = max(n, 4)
            ws = (b" \r\n\t" * (n // 4 + 1))
            if term:
                return ws[: n - 3] + b"[7]", n, n
            return ws[:n], n, n
        return (b"1" * (n - 1) + (b"\n" if term else b"1")), n, n - 1
    if k == "hfile":
        n = max(n, 2)
        if term:
            return (n - 2).to_bytes(2, "big") + b"\x01" * (n - 2), n, n
        return (60000).to_bytes(2, "big") + b"\x01" * (n - 2), n, n
    raise HarnessError(k)


def build_plan(case: dict) -> dict:
    spec = case["spec"]
    k = kind_of(spec)
    limit = spec["limit"]
    seplen = len(separator_of(spec))
    small = small_frame(spec)
    if k in SEP_KINDS:
        small_ok = len(small) <= limit - seplen - 1
    else:
        small_ok = len(small) <= limit - 1
    pre = case.get("pre", 0) if small_ok else 0
    post = bool(case.get("post")) and small_ok and case["terminated"]
    frame, size, payload = test_frame(spec, case)
    stream = small * pre + frame + (small if post else b"")
    return {
        "kind": k,
        "limit": limit,
        "seplen": seplen if k != "jsonraw" or case.get("shape") != "plain" else 1,
        "stream": stream,
        "nframes": pre + (1 if case["terminated"] else 0) + (1 if post else 0),
        "size": size,
        "payload": payload,
        "terminated": case["terminated"],
        "pre": pre,
        "post": post,
    }


def classify(plan: dict, r: int) -> str:
    limit = plan["limit"]
    if plan["kind"] in SEP_KINDS:
        if plan["size"] <= limit - plan["seplen"] - 1:
            return "safe"
        if plan["payload"] > limit + plan["seplen"]:
            return "over"
        return "band"
    if plan["size"] <= limit - 1:
        return "safe"
    if plan["size"] > limit + r:
        return "over"
    return "band"


# ----------------------------------------------------------------------------------------------
# one run = one stream x one read schedule x one path


def chunks_of(stream: bytes, reads: list[int]) -> list[bytes]:
    out = []
    pos = 0
    i = 0
    while pos < len(stream):
        n = max(1, reads[i % len(reads)])
        out.append(stream[pos : pos + n])
        pos += n
        i += 1
    return out


def judge(plan: dict, entry: zoo.Entry, reads: list[int], path: str, sizehint: int) -> str:
    """runs and checks one schedule; returns the class of the tested frame for this run"""
    stream = plan["stream"]
    if path == "A":
        steps, _ = tracedrv.trace_a(entry.stream_protocol(), chunks_of(stream, reads))
    else:
        steps, _ = tracedrv.trace_b(entry.buffered_protocol(), stream, reads, sizehint)
    r = max((s.n for s in steps), default=1)
    limit = plan["limit"]
    seplen = plan["seplen"]
    info = {"path": path, "serializer": plan["kind"], "limit": limit, "seplen": seplen, "read_size": r, "length": plan["payload"]}
    nlimit = 0
    nout = 0
    fed = 0
    bound = limit + seplen + r
    size0 = steps[0].bufsize if steps else -1
    for s in steps:
        fed += s.n
        if s.outs:
            nout += len(s.outs)
            nlimit += sum(1 for o in s.outs if o[0] == "err" and o[1] == "LimitOverrunError")
            fed = 0
        elif fed >= bound:
            raise Violation(
                "unbounded-buffering",
                f"path {path} ({plan['kind']}, limit={limit}, seplen={seplen}): {fed} bytes fed since the last output in reads of at "
                f"most {r} bytes and no LimitOverrunError yet (bound limit+seplen+read = {bound})",
                fed=fed,
                **info,
            )
        if path == "B" and (s.bufsize > limit or s.bufsize != size0):
            raise Violation(
                "buffer-size",
                f"path B ({plan['kind']}, limit={limit}): receive buffer size went from {size0} to {s.bufsize}",
                buffer_size=s.bufsize,
                **info,
            )
    if not plan["terminated"]:
        return "unterminated"
    cls = classify(plan, r)
    if cls == "safe":
        if nlimit:
            raise Violation(
                "safe-frame-rejected",
                f"path {path} ({plan['kind']}, limit={limit}, seplen={seplen}): frame of {plan['size']} bytes (payload {plan['payload']}) is "
                f"safely under the limit but a LimitOverrunError was raised; reads={reads[:12]}",
                **info,
            )
        if nout != plan["nframes"]:
            raise Violation(
                "frame-count",
                f"path {path} ({plan['kind']}, limit={limit}): {plan['nframes']} frames safely under the limit gave {nout} outputs",
                **info,
            )
    elif cls == "over" and not nlimit:
        raise Violation(
            "oversized-frame-accepted",
            f"path {path} ({plan['kind']}, limit={limit}, seplen={seplen}): frame with payload {plan['payload']} (size {plan['size']}) is over "
            f"the limit but no LimitOverrunError was raised; reads={reads[:12]}",
            **info,
        )
    return cls


def labels_for(plan: dict, case: dict, classes: set[str]) -> tuple[bool, list[str]]:
    limit = plan["limit"]
    seplen = plan["seplen"]
    labels = [f"kind-{plan['kind']}", f"seplen-{seplen}"] + sorted(f"cls-{c}" for c in classes)
    near = abs(plan["payload"] - limit) <= 2 * seplen + 2
    long_unterminated = (not plan["terminated"]) and plan["payload"] > limit
    if near:
        labels.append("near-limit")
    if long_unterminated:
        labels.append("unterminated-over-limit")
    if case.get("variant"):
        labels.append("partial-separator-tail")
    if plan["pre"]:
        labels.append("after-earlier-frame")
    if plan["post"]:
        labels.append("followed-by-frame")
    return near or long_unterminated, labels


# ----------------------------------------------------------------------------------------------
# generated layer


def run_bound(case: dict) -> Outcome:
    entry = zoo.build(case["spec"])
    plan = build_plan(case)
    classes = set()
    paths = ["A"] + (["B"] if entry.buffered else [])
    for path in paths:
        if case.get("path") in (None, "both", path) or not entry.buffered:
            classes.add(judge(plan, entry, case["reads"], path, case["sizehint"]))
    nt, labels = labels_for(plan, case, classes)
    if entry.buffered and case.get("path") in (None, "both", "B"):
        labels.append("path-B")
    if plan["limit"] > 1000:
        labels.append("default-limit")
    return Outcome(nontrivial=nt, classes=tuple(labels))


@st.composite
def st_spec(draw: st.DrawFn) -> dict:
    k = draw(st.sampled_from(["line", "line", "autosep", "autosep", "autosep", "base64", "jsonlines", "jsonraw", "jsonraw", "hfile", "hfile"]))
    if k == "line":
        return {"kind": "line", "newline": draw(st.sampled_from(["LF", "CR", "CRLF", "CRLF"])), "encoding": "ascii", "keep_end": draw(st.booleans())}
    if k == "autosep":
        return {"kind": "autosep", "separator": draw(st.sampled_from(zoo.SEPARATORS_1_3)), "check": True}
    if k == "base64":
        return {
            "kind": "base64",
            "inner": {"kind": "line", "newline": "LF", "encoding": "utf-8", "keep_end": False},
            "alphabet": "urlsafe",
            "checksum": "none",
            "separator": draw(st.sampled_from(zoo.B64_SEPARATORS)),
        }
    if k in ("jsonlines", "jsonraw"):
        return {"kind": "json", "use_lines": k == "jsonlines", "ensure_ascii": True, "encoding": "utf-8"}
    return {"kind": "hfile"}


@st.composite
def st_case(draw: st.DrawFn, tier: str) -> dict:
    spec = draw(st_spec())
    big = tier == "thorough" and draw(st.integers(0, 24)) == 0
    limit = zoo.DEFAULT_LIMIT if big else draw(st.one_of(st.integers(4, 40), st.integers(4, 300)))
    spec = dict(spec, limit=limit)
    seplen = len(separator_of(spec))
    if big:
        reads = draw(st.one_of(st.just([70000]), st.lists(st.sampled_from([512, 1000, 4096, 65535, 65536, 65537]), min_size=1, max_size=4)))
    else:
        reads = draw(
            st.one_of(
                st.just([1]),
                st.integers(1, limit + 5).map(lambda v: [v]),
                st.lists(st.integers(1, 9), min_size=1, max_size=6),
                st.lists(st.sampled_from([1, 2, 3, max(1, limit - 1), limit, limit + 1, 2 * limit, 70000]), min_size=1, max_size=5),
            )
        )
    rcap = min(max(reads), limit + seplen + 8)
    terminated = draw(st.booleans())
    near = st.integers(-2 * seplen - 3, 2 * seplen + 3).map(lambda d: max(0, limit + d))
    if terminated:
        length = draw(st.one_of(near, near, st.integers(0, limit + seplen + rcap + 2), st.integers(limit + seplen + 1, limit + seplen + rcap + 2)))
    else:
        length = draw(st.one_of(near, st.integers(max(0, limit - 2), limit + seplen + 2 * rcap + 4)))
    if kind_of(spec) == "hfile" and terminated:
        length = min(length, 65537)  # zoo.HFile records carry a 2-byte length
    case = {
        "spec": spec,
        "length": length,
        "variant": draw(st.integers(0, max(0, seplen - 1))),
        "terminated": terminated,
        "pre": draw(st.sampled_from([0, 0, 1, 2])),
        "post": draw(st.booleans()),
        "reads": reads,
        "sizehint": draw(st.one_of(st.integers(1, 40), st.sampled_from([1, 64, 1024, 65536, 70000]))),
        "path": "both",
    }
    if kind_of(spec) == "jsonraw":
        case["shape"] = draw(st.sampled_from(["array", "string", "plain", "space"]))
    return case


# ----------------------------------------------------------------------------------------------
# enumerated layer: small limits x separator lengths 1-3 x all lengths x all partitions


def compositions(n: int) -> Iterator[list[int]]:
    """all 2^(n-1) ways of cutting n bytes into consecutive reads"""
    if n <= 0:
        return
    for mask in range(1 << (n - 1)):
        sizes = []
        run = 1
        for i in range(n - 1):
            if mask >> i & 1:
                sizes.append(run)
                run = 1
            else:
                run += 1
        sizes.append(run)
        yield sizes


def sparse_partitions(n: int, window: list[int]) -> Iterator[list[int]]:
    """fixed family for longer streams: every uniform read size, every single cut, every pair of cuts inside `window`"""
    for r in range(1, n + 1):
        yield [r]
    for c in range(1, n):
        yield [c, n - c]
    w = sorted({c for c in window if 0 < c < n})
    for i, a in enumerate(w):
        for b in w[i + 1 :]:
            yield [a, b - a, n - b]


_ENUM_SPECS: list[tuple[str, dict]] = [
    ("autosep1", {"kind": "autosep", "separator": b"|", "check": True}),
    ("autosep2", {"kind": "autosep", "separator": b"\r\n", "check": True}),
    ("autosep3", {"kind": "autosep", "separator": b"END", "check": True}),
    ("line2", {"kind": "line", "newline": "CRLF", "encoding": "ascii", "keep_end": False}),
    ("line1k", {"kind": "line", "newline": "LF", "encoding": "ascii", "keep_end": True}),
    ("base64", {"kind": "base64", "inner": {"kind": "line", "newline": "LF", "encoding": "utf-8", "keep_end": False}, "alphabet": "urlsafe",
                "checksum": "none", "separator": b"\r\n"}),
    ("jsonlines", {"kind": "json", "use_lines": True, "ensure_ascii": True, "encoding": "utf-8"}),
    ("jsonraw", {"kind": "json", "use_lines": False, "ensure_ascii": True, "encoding": "utf-8"}),
    ("hfile", {"kind": "hfile"}),
]


def enum_cases(tier: str) -> Iterator[dict]:
    if tier == "quick":
        names = {"autosep2", "autosep3", "jsonraw", "hfile"}
        limits_all = [4]
        limits_sparse = [9]
    else:
        names = {n for n, _ in _ENUM_SPECS}
        limits_all = [4, 5, 6, 7, 8]
        limits_sparse = list(range(9, 25))
    for name, base in _ENUM_SPECS:
        if name not in names:
            continue
        for limit in limits_all + limits_sparse:
            spec = dict(base, limit=limit)
            seplen = len(separator_of(spec))
            kind = kind_of(spec)
            shapes = ["array", "plain", "string", "space"] if kind == "jsonraw" else [None]
            mode = "all" if limit in limits_all else "sparse"
            hi = limit + 2 * seplen + 3
            if mode == "all":
                lengths = list(range(0, hi + 1))
            else:
                lengths = [0, 1] + list(range(max(2, limit - 2 * seplen - 3), hi + 1))
            for shape in shapes:
                for length in lengths:
                    if kind == "jsonraw" and shape == "space" and length < 4:
                        continue
                    if kind in ("jsonraw", "hfile") and length < 2:
                        continue
                    for variant in range(0, min(seplen, length + 1) if kind in SEP_KINDS else 1):
                        for terminated, pre, post in ((True, 0, False), (True, 0, True), (True, 1, False), (False, 0, False), (False, 1, False)):
                            if tier == "quick" and (pre or (variant and not terminated)):
                                continue
                            case: dict[str, Any] = {
                                "spec": spec,
                                "length": length,
                                "variant": variant,
                                "terminated": terminated,
                                "pre": pre,
                                "post": post,
                                "mode": mode,
                                "sizehints": [1, 70000] if kind == "hfile" else [64],
                            }
                            if shape:
                                case["shape"] = shape
                            if mode == "all" and len(build_plan(case)["stream"]) > (11 if tier == "quick" else ALL_PARTITIONS_MAX):
                                case["mode"] = "sparse"
                            yield case


def run_enum(case: dict) -> Outcome:
    entry = zoo.build(case["spec"])
    plan = build_plan(case)
    n = len(plan["stream"])
    if case["mode"] == "all":
        if n > ALL_PARTITIONS_MAX:
            raise HarnessError("all-partitions mode on a long stream")
        parts: Iterator[list[int]] = compositions(n)
    else:
        start = len(small_frame(case["spec"])) * plan["pre"]
        lim = plan["limit"]
        sl = plan["seplen"]
        parts = sparse_partitions(n, [start + lim + d for d in range(-sl - 2, sl + 3)])
    classes = set()
    runs = 0
    for reads in parts:
        classes.add(judge(plan, entry, reads, "A", 64))
        runs += 1
        if entry.buffered:
            for hint in case["sizehints"]:
                classes.add(judge(plan, entry, reads, "B", hint))
                runs += 1
    nt, labels = labels_for(plan, case, classes)
    labels.append(f"partitions-{case['mode']}")
    return Outcome(nontrivial=nt, classes=tuple(labels), note=f"{runs} runs")


CHECK = Check(
    id="C07",
    level="exploration",
    rule=(
        "case = serializer (line / harness AutoSeparated 1-3-byte separators / Base64 / JSON lines / raw JSON array, string, plain "
        "value / harness FileBased) x limit 4-300 (64 KiB default in thorough) x payload length 0 .. limit+seplen+2*read (biased to "
        "limit +- (2*seplen+3)) x payload ending in a partial separator x terminated or never terminated x 0-2 earlier frames, "
        "optional following frame x read schedule (cycled read sizes) x both receive paths x size hint; non-trivial = payload "
        "length within limit +- (2*seplen+2), or an unterminated stream longer than the limit; distinct = sha1 of the canonical "
        "case JSON (an enumerated case stands for all its partitions x paths)"
    ),
    layers=[
        Layer("bound", st_case, run_bound, {"quick": 2500, "thorough": 8000}),
        Layer("smallband", None, run_enum, {"quick": 0, "thorough": 0}, enumerate=enum_cases),
    ],
    assumptions=[
        "class definitions are those of DESIGN C07; for raw JSON and file-based formats 'over' is T > limit + largest read",
        "payload bytes never contain the separator; an unterminated stream never contains it either",
        "what a rejected frame's tail turns into is not judged here (C02 does that); only whether LimitOverrunError is raised",
        "held bytes are measured as bytes fed since the last delivered output (the generator-internal buffers have no accessor); "
        "an output inside a read resets the count, so the bound is checked with up to one read of slack",
    ],
    exhaustive_note=(
        "smallband: every payload length 0 .. limit+2*seplen+3, every partial-separator tail, terminated / unterminated, with and "
        "without an earlier / following frame, for separator lengths 1, 2, 3 (AutoSeparated, line, Base64, JSON lines), raw JSON "
        "(array, string, plain) and the file-based harness serializer; limits 4-8 with ALL 2^(n-1) partitions of streams up to 14 "
        "bytes on both receive paths, limits 9-24 (and longer streams) with every uniform read size, every single cut and every pair "
        "of cuts within seplen+2 of the limit offset. The quick tier enumerates limits 4 and 9 for four serializers only, all partitions up to 11 bytes."
    ),
)

# thorough tier: the same strategy and oracle driven by the coverage-guided engine (pbt/covfuzz.py)
from ..covfuzz import cov_layer  # noqa: E402

CHECK.layers.append(cov_layer("C07", CHECK.layer("bound"), runs=8000, time_s=100))
