"""C18, layer `real-startup-race` — a stop request aimed at the start-up window of a server with *real* listener sockets.

"... listeners are closed after server_close ... at every interleaving point of the start-up and tear-down sequences".
The in-memory listeners of the `async` layer are handed out by one factory call; the real backend opens several
sockets and (for UDP) turns them into endpoints one `await` at a time, so a `server_close()`, `shutdown()` or task
cancellation may land *between* two of them.  Whatever the outcome of the start-up call, once `server_close()` has
returned no socket opened by the server may be left: the number of socket file descriptors of the process is back to
what it was before the server was created (after a garbage collection, so that objects merely dropped count as closed).
"""

from __future__ import annotations

import asyncio
import gc
import logging
import os
from typing import Any

from hypothesis import strategies as st

from ..core import HarnessError, Layer, Outcome, Violation
from ..vloop import Deadlock, run_virtual

HOSTS = ["127.0.0.1", "127.0.0.2", "127.0.0.3", "127.0.0.4"]


def _socket_fds() -> list[str]:
    out = []
    for name in os.listdir("/proc/self/fd"):
        try:
            target = os.readlink(f"/proc/self/fd/{name}")
        except OSError:
            continue
        if target.startswith("socket:"):
            out.append(target)
    return sorted(out)


async def _main(case: dict) -> dict:
    from easynetwork.exceptions import BusyResourceError, ServerAlreadyRunning, ServerClosedError
    from easynetwork.lowlevel.api_async.backend._asyncio.backend import AsyncIOBackend
    from easynetwork.protocol import DatagramProtocol, StreamProtocol
    from easynetwork.serializers import StringLineSerializer
    from easynetwork.servers.async_tcp import AsyncTCPNetworkServer
    from easynetwork.servers.async_udp import AsyncUDPNetworkServer
    from easynetwork.servers.handlers import AsyncDatagramRequestHandler, AsyncStreamRequestHandler

    class SH(AsyncStreamRequestHandler):  # type: ignore[type-arg]
        async def handle(self, client: Any) -> Any:
            request = yield
            await client.send_packet(request)

    class DH(AsyncDatagramRequestHandler):  # type: ignore[type-arg]
        async def handle(self, client: Any) -> Any:
            request = yield
            await client.send_packet(request)

    gc.collect()
    before = _socket_fds()
    hosts = HOSTS[: case["n_hosts"]]
    backend = AsyncIOBackend()
    if case["proto"] == "tcp":
        srv: Any = AsyncTCPNetworkServer(hosts, 0, StreamProtocol(StringLineSerializer()), SH(), backend)
    else:
        srv = AsyncUDPNetworkServer(hosts, 0, DatagramProtocol(StringLineSerializer()), DH(), backend)
    res: dict[str, Any] = {}

    async def start() -> None:
        try:
            if case["start"] == "activate":
                await srv.server_activate()
            else:
                await srv.serve_forever()
            res["start"] = "returned"
        except (ServerClosedError, ServerAlreadyRunning) as exc:
            res["start"] = type(exc).__name__
        except asyncio.CancelledError:
            res["start"] = "cancelled"
            raise
        except BaseException as exc:  # noqa: BLE001
            res["start"] = f"exc:{type(exc).__name__}: {exc!r}"

    start_task = asyncio.create_task(start())
    for _ in range(case["ticks"]):
        await asyncio.sleep(0)
    res["start_done_at_stop"] = start_task.done()
    res["listening_at_stop"] = bool(srv.is_listening())
    if case["stop"] == "close":
        try:
            await srv.server_close()
            res["stop"] = "returned"
        except BusyResourceError:
            # documented refusal while serve_forever() is setting up; the server is then stopped the ordinary way below
            res["stop"] = "BusyResourceError"
            await srv.shutdown()
    elif case["stop"] == "shutdown":
        await srv.shutdown()
    elif case["stop"] == "cancel":
        start_task.cancel()
    else:
        raise HarnessError(case["stop"])
    # let the start-up call end (a serve_forever() that came up anyway is stopped the ordinary way)
    for _ in range(3):
        done, _pending = await asyncio.wait({start_task}, timeout=5.0)
        if done:
            break
        await srv.shutdown()
    else:
        res["start"] = "stuck"
        start_task.cancel()
    await asyncio.gather(start_task, return_exceptions=True)
    await srv.server_close()
    res["listening_after_close"] = bool(srv.is_listening())
    await srv.server_close()
    for _ in range(5):
        await asyncio.sleep(0)
    del srv
    gc.collect()
    after = _socket_fds()
    res["leaked"] = [x for x in after if x not in before]
    return res


def run(case: dict) -> Outcome:
    logging.disable(logging.CRITICAL)
    try:
        r = run_virtual(_main, case, max_ticks=200_000, real_wait_s=0.05)
    except Deadlock as exc:
        raise Violation("hang", f"start-up race did not finish: {str(exc)[:600]}", stop=case["stop"]) from exc
    finally:
        logging.disable(logging.NOTSET)
        gc.collect()
    detail = {"proto": case["proto"], "n_hosts": case["n_hosts"], "start": case["start"], "stop": case["stop"], "ticks": case["ticks"], "start_outcome": r.get("start")}
    if r.get("start") == "stuck":
        raise Violation("hang", "the start-up call did not end after three shutdown() calls", **detail)
    if str(r.get("start", "")).startswith("exc:"):
        raise Violation("unexpected-exception", f"{case['start']} ended with {r['start']}", **detail)
    if r["listening_after_close"]:
        raise Violation("listening-after-close", "is_listening() is True after server_close() returned", **detail)
    if r["leaked"]:
        raise Violation(
            "listener-leaked",
            f"{len(r['leaked'])} socket(s) opened by the server's start-up are still open after server_close() returned twice and a garbage "
            f"collection ({case['stop']} issued {case['ticks']} loop iterations into {case['start']} on {case['n_hosts']} {case['proto']} address(es); "
            f"start-up outcome: {r.get('start')})",
            **detail,
        )
    in_window = not r["start_done_at_stop"] and not r["listening_at_stop"]
    classes = [case["proto"], f"hosts-{case['n_hosts']}", f"stop-{case['stop']}" + ("-refused" if r.get("stop") == "BusyResourceError" else ""), f"start-{r.get('start')}", "stop-inside-start-up" if in_window else "stop-outside-start-up"]
    return Outcome(nontrivial=in_window and case["n_hosts"] >= 2, classes=tuple(classes))


@st.composite
def st_case(draw: st.DrawFn, tier: str) -> dict:
    return {
        "proto": draw(st.sampled_from(["tcp", "udp", "udp"])),
        "n_hosts": draw(st.integers(1, 4)),
        "start": draw(st.sampled_from(["activate", "serve"])),
        "stop": draw(st.sampled_from(["close", "shutdown", "cancel"])),
        "ticks": draw(st.integers(0, 30)),
    }


LAYER = Layer("real-startup-race", st_case, run, {"quick": 300, "thorough": 1500}, shards=8)


# ----------------------------------------------------------------------------------------------
# layer "real-accept-race": the stop request is aimed at the hand-over of a freshly accepted connection
# (accept -> wrap into a transport -> client task).  Every connection the kernel handed to the server must be closed *by
# the server* once it is stopped and closed: the peer sees EOF/reset, and no object of the library is left to its
# finalizer (the library's own ResourceWarning "unclosed ..." is the witness).


async def _accept_external_group_main(case: dict) -> dict:
    """low-level ListenerSocketAdapter.serve(handler, task_group) with a task group that lives in ANOTHER task: the group is
    cancelled right after a peer connected while serve() keeps running - whatever was accepted must still be closed"""
    import socket
    import warnings

    from easynetwork.lowlevel.api_async.backend._asyncio.backend import AsyncIOBackend
    from easynetwork.lowlevel.api_async.backend._asyncio.stream.listener import AcceptedSocketFactory, ListenerSocketAdapter

    backend = AsyncIOBackend()
    res: dict[str, Any] = {"counts": {"conn": 0, "disc": 0}}
    peers: list[socket.socket] = []
    with warnings.catch_warnings(record=True) as caught:
        warnings.simplefilter("always", ResourceWarning)
        lsock = socket.socket()
        lsock.bind(("127.0.0.1", 0))
        lsock.listen(8)
        listener = ListenerSocketAdapter(backend, lsock, AcceptedSocketFactory())
        group_ready = asyncio.Event()
        holder: dict[str, Any] = {}

        async def handler(stream: Any) -> None:
            res["counts"]["conn"] += 1
            try:
                await stream.recv(10)
            finally:
                res["counts"]["disc"] += 1
                await stream.aclose()

        async def group_owner() -> None:
            async with backend.create_task_group() as tg:
                holder["tg"] = tg
                group_ready.set()
                await asyncio.sleep(3600)

        owner = asyncio.create_task(group_owner())
        await group_ready.wait()
        serve_task = asyncio.create_task(listener.serve(handler, holder["tg"]))
        for _ in range(3):
            await asyncio.sleep(0)
        try:
            for gap in case["connect_gaps"]:
                for _ in range(gap):
                    await asyncio.sleep(0)
                p = socket.socket()
                p.settimeout(5)
                p.connect(lsock.getsockname())
                p.setblocking(False)
                peers.append(p)
            for _ in range(case["ticks"]):
                await asyncio.sleep(0)
            owner.cancel()  # aborts the group (and every task in it); serve() is not one of them
            await asyncio.gather(owner, return_exceptions=True)
            res["serve_running_after_group_abort"] = not serve_task.done()
            for _ in range(10):
                await asyncio.sleep(0)
            gc.collect()
            still_open = 0
            delivered = getattr(asyncio.get_running_loop(), "delivered_fds", set())
            for p in peers:
                if repr(p.getsockname()) not in delivered:
                    continue  # still in the kernel's accept queue: the library never saw it
                try:
                    p.recv(10)
                except BlockingIOError:
                    still_open += 1
                except OSError:
                    pass
            res["still_open"] = still_open
            serve_task.cancel()
            await asyncio.gather(serve_task, return_exceptions=True)
            await listener.aclose()
        finally:
            for p in peers:
                p.close()
            lsock.close()
        res["warnings"] = [str(w.message)[:200] for w in caught if issubclass(w.category, ResourceWarning) and "unclosed" in str(w.message)]
    return res


async def _accept_main(case: dict) -> dict:
    if case["stop"] == "external-group":
        return await _accept_external_group_main(case)
    import socket
    import warnings

    from easynetwork.lowlevel.api_async.backend._asyncio.backend import AsyncIOBackend
    from easynetwork.protocol import StreamProtocol
    from easynetwork.serializers import StringLineSerializer
    from easynetwork.servers.async_tcp import AsyncTCPNetworkServer
    from easynetwork.servers.handlers import AsyncStreamRequestHandler

    counts = {"conn": 0, "disc": 0}

    class SH(AsyncStreamRequestHandler):  # type: ignore[type-arg]
        async def on_connection(self, client: Any) -> None:
            counts["conn"] += 1

        async def on_disconnection(self, client: Any) -> None:
            counts["disc"] += 1

        async def handle(self, client: Any) -> Any:
            request = yield
            await client.send_packet(request)

    res: dict[str, Any] = {}
    peers: list[socket.socket] = []
    with warnings.catch_warnings(record=True) as caught:
        warnings.simplefilter("always", ResourceWarning)
        srv = AsyncTCPNetworkServer("127.0.0.1", 0, StreamProtocol(StringLineSerializer()), SH(), AsyncIOBackend())
        up = asyncio.Event()
        serve_task = asyncio.create_task(srv.serve_forever(is_up_event=up))
        await up.wait()
        addr = srv.get_addresses()[0]
        try:
            for gap in case["connect_gaps"]:
                for _ in range(gap):
                    await asyncio.sleep(0)
                p = socket.socket()
                p.settimeout(5)
                p.connect((addr.host, addr.port))
                p.setblocking(False)
                peers.append(p)
            for _ in range(case["ticks"]):
                await asyncio.sleep(0)
            if case["stop"] == "shutdown":
                await srv.shutdown()
            else:
                serve_task.cancel()
            await asyncio.gather(serve_task, return_exceptions=True)
            await srv.server_close()
            for _ in range(5):
                await asyncio.sleep(0)
            del srv
            gc.collect()
            still_open = 0
            for p in peers:
                try:
                    data = p.recv(10)
                    if data:
                        raise HarnessError(f"peer received {data!r}")
                except BlockingIOError:
                    still_open += 1
                except OSError:
                    pass
            res["still_open"] = still_open
        finally:
            for p in peers:
                p.close()
        res["warnings"] = [str(w.message)[:200] for w in caught if issubclass(w.category, ResourceWarning) and "unclosed" in str(w.message)]
    res["counts"] = counts
    return res


def _recording_loop() -> Any:
    from ..vloop import VLoop

    class RecordingLoop(VLoop):
        """remembers which accepted sockets were actually handed to the caller of sock_accept(): CPython 3.12's
        sock_accept() can accept a connection for a future that has just been cancelled (InvalidStateError in
        BaseSelectorEventLoop._sock_accept, the connection is dropped by the interpreter) - not the library's doing"""

        def __init__(self) -> None:
            super().__init__()
            self.real_wait_s = 0.05
            self.max_ticks = 200_000
            self.delivered_fds: set[str] = set()  # peer addresses (repr) of the delivered connections: fd numbers are reused

        async def sock_accept(self, sock: Any) -> Any:
            conn, addr = await super().sock_accept(sock)
            self.delivered_fds.add(repr(conn.getpeername()))
            return conn, addr

    return RecordingLoop()


def run_accept(case: dict) -> Outcome:
    import re

    logging.disable(logging.CRITICAL)
    try:
        with asyncio.Runner(loop_factory=_recording_loop) as runner:
            r = runner.run(_accept_main(case))
            delivered = set(runner.get_loop().delivered_fds)  # type: ignore[attr-defined]
        # a raw accepted socket only counts if the library ever held it
        kept = []
        for w in r["warnings"]:
            m = re.match(r"unclosed <socket\.socket fd=\d+,.* raddr=(\(.*?\))>", w)
            if m and m.group(1) not in delivered:
                r.setdefault("stdlib_dropped", []).append(w)
                continue
            kept.append(w)
        r["warnings"] = kept
    except Deadlock as exc:
        raise Violation("hang", f"accept race did not finish: {str(exc)[:600]}", stop=case["stop"]) from exc
    finally:
        logging.disable(logging.NOTSET)
        gc.collect()
    detail = {"stop": case["stop"], "ticks": case["ticks"], "peers": len(case["connect_gaps"]), "hooks": r["counts"]}
    if r["still_open"]:
        what = (
            "ten loop iterations after the task group handed to listener.serve() was aborted (serve() itself still running)"
            if case["stop"] == "external-group"
            else "after shutdown + server_close() + gc"
        )
        raise Violation("connection-left-open", f"{r['still_open']} accepted connection(s) still open at the peer {what}", **detail)
    lib = [w for w in r["warnings"] if "easynetwork" in w or "AsyncioTransport" in w or "socket.socket" in w]
    if lib:
        raise Violation(
            "closed-by-finalizer-only",
            f"the server was stopped and closed, but {len(lib)} object(s) holding an accepted connection were never closed by the library - only their "
            f"finalizer released the socket: {lib[0]} ({case['stop']} {case['ticks']} loop iterations after the last peer connected)",
            **detail,
        )
    if r["counts"]["conn"] != r["counts"]["disc"]:
        raise Violation("hooks-unbalanced", f"on_connection ran {r['counts']['conn']} times, on_disconnection {r['counts']['disc']} times", **detail)
    classes = [f"stop-{case['stop']}", f"peers-{len(case['connect_gaps'])}", f"handled-{min(r['counts']['conn'], 3)}-of-{len(case['connect_gaps'])}"]
    if r.get("stdlib_dropped"):
        classes.append("connection-dropped-inside-stdlib-sock_accept")
    return Outcome(nontrivial=r["counts"]["conn"] < len(case["connect_gaps"]), classes=tuple(classes))


@st.composite
def st_accept_case(draw: st.DrawFn, tier: str) -> dict:
    return {
        "connect_gaps": draw(st.lists(st.integers(0, 4), min_size=1, max_size=3)),
        "ticks": draw(st.integers(0, 12)),
        "stop": draw(st.sampled_from(["shutdown", "shutdown", "cancel", "external-group"])),
    }


ACCEPT_LAYER = Layer("real-accept-race", st_accept_case, run_accept, {"quick": 200, "thorough": 1000}, shards=8)
