"""C12 — concurrent senders never interleave packets (DESIGN.md section 3, C12)."""

from __future__ import annotations

import asyncio
import logging
import socket
import threading
import time
from typing import Any

from hypothesis import strategies as st

from easynetwork.clients.async_tcp import AsyncTCPNetworkClient
from easynetwork.clients.tcp import TCPNetworkClient
from easynetwork.clients.udp import UDPNetworkClient
from easynetwork.exceptions import BusyResourceError
from easynetwork.lowlevel.api_async.backend._asyncio.backend import AsyncIOBackend
from easynetwork.lowlevel.api_async.endpoints.stream import AsyncStreamEndpoint
from easynetwork.protocol import DatagramProtocol, StreamProtocol
from easynetwork.serializers.line import StringLineSerializer
from easynetwork.servers.async_tcp import AsyncTCPNetworkServer
from easynetwork.servers.handlers import AsyncStreamRequestHandler

from .. import tlsharness
from ..core import Check, HarnessError, Inconclusive, Layer, Outcome, Violation
from ..memtransports import MemStreamTransport, VerifBackend
from easynetwork.lowlevel.api_async.backend.abc import AsyncBackend as _AbstractAsyncBackend


class FairLockBackend(VerifBackend):
    """the builtin asyncio backend overrides create_fair_lock() with asyncio.Lock; this one keeps the library's own
    FairLock (the default of AsyncBackend), as any third-party backend would"""

    __slots__ = ()

    def create_fair_lock(self):  # type: ignore[no-untyped-def]
        return _AbstractAsyncBackend.create_fair_lock(self)
from ..vloop import Deadlock, run_virtual


def packet_text(sender: int, index: int, size: int) -> str:
    head = f"s{sender}m{index}:"
    return head + ("abcdefghij"[sender % 10] * max(0, size - len(head)))


class ChunkySerializer(StringLineSerializer):
    """line framing, but the packet is produced as several chunks (so a transport that writes chunk by chunk could
    interleave two packets if the send lock were missing)"""

    __slots__ = ()

    def incremental_serialize(self, packet: str):  # type: ignore[override]
        data = packet.encode("ascii") + b"\n"
        step = max(1, len(data) // 3)
        for i in range(0, len(data), step):
            yield data[i : i + step]


@st.composite
def st_async_case(draw: st.DrawFn, tier: str) -> dict:
    n = draw(st.integers(2, 5))
    return {
        "sut": draw(st.sampled_from(["client", "client", "server-client", "tls", "raw-endpoint"])),
        "senders": [
            {
                "count": draw(st.integers(1, 4)),
                "sizes": draw(st.lists(st.sampled_from([6, 10, 40, 300]), min_size=1, max_size=4)),
                "start_ticks": draw(st.integers(0, 4)),
                "gap_ticks": draw(st.lists(st.integers(0, 3), min_size=1, max_size=3)),
            }
            for _ in range(n)
        ],
        "mem_script": {
            "send_yield": draw(st.lists(st.integers(0, 4), min_size=1, max_size=5)),
            "send_split": draw(st.lists(st.sampled_from([0, 0, 1, 3, 7]), min_size=1, max_size=4)),
            "iterable_joined": draw(st.booleans()),
        },
        "chunky": draw(st.booleans()),
        "fair_lock": draw(st.booleans()),
        "sut_role": draw(st.sampled_from(["client", "server"])),
        "version": draw(st.sampled_from(["1.2", "1.3"])),
    }


def _parse_and_judge(wire: bytes, sent_ok: list[list[str]], failed: list[tuple[int, int, str]], what: str, *, allow_busy: bool) -> None:
    """wire = byte stream seen by the peer; sent_ok[s] = packets of sender s whose send_packet returned normally (in call
    order); failed = (sender, index, error) for calls that raised."""
    if wire and not wire.endswith(b"\n"):
        raise Violation("torn-packet", f"{what}: the stream does not end on a packet boundary: ...{wire[-40:]!r}", sut=what)
    lines = wire.decode("ascii", "replace").split("\n")[:-1] if wire else []
    expected_all = {p for lst in sent_ok for p in lst}
    if len(expected_all) != sum(len(lst) for lst in sent_ok):
        raise HarnessError("packet texts not unique")
    seen: dict[str, int] = {}
    for ln in lines:
        seen[ln] = seen.get(ln, 0) + 1
    for ln, k in seen.items():
        if ln not in expected_all:
            # a failed (Busy) call must contribute zero bytes; anything else on the wire is an interleaving/corruption
            raise Violation("interleaved", f"{what}: the peer parsed {ln!r:.80}, which is no packet whose send_packet returned", sut=what)
        if k != 1:
            raise Violation("duplicated", f"{what}: packet {ln!r:.60} appears {k} times on the wire", sut=what)
    missing = expected_all - set(seen)
    if missing:
        raise Violation("lost", f"{what}: {len(missing)} packets whose send_packet returned never reached the peer, e.g. {sorted(missing)[0]!r:.60}", sut=what)
    pos = {ln: i for i, ln in enumerate(lines)}
    for s, lst in enumerate(sent_ok):
        idx = [pos[p] for p in lst]
        if idx != sorted(idx):
            raise Violation("reordered", f"{what}: packets of sender {s} are out of order on the wire", sut=what)
    if failed and not allow_busy:
        s, i, err = failed[0]
        raise Violation("send-failed", f"{what}: send_packet #{i} of sender {s} raised {err}", sut=what)


async def _async_session(case: dict) -> dict:
    logging.disable(logging.CRITICAL)
    loop = asyncio.get_running_loop()
    sut = case["sut"]
    serializer = ChunkySerializer() if case["chunky"] else StringLineSerializer()
    proto = StreamProtocol(serializer)
    sent_ok: list[list[str]] = [[] for _ in case["senders"]]
    failed: list[tuple[int, int, str]] = []
    order_started: list[tuple[int, int]] = []
    order_finished: list[tuple[int, int]] = []
    overlap = {"max": 0, "cur": 0, "suspended_mid_packet": False}
    cleanup: list[Any] = []
    wire_bytes: Any

    if sut == "tls":
        backend, mem, peer, wire = tlsharness.new_session(dict(case, frag_to_sut=[1 << 20], frag_to_peer=[1 << 20], delays=[0.0]))
        conductor = asyncio.create_task(wire.conductor())
        tls = await tlsharness.wrap_sut(case, mem)

        async def send(text: str) -> None:
            await tls.send_all((text + "\n").encode())

        wire_bytes = lambda: bytes(peer.plain_in)  # noqa: E731

        async def finish() -> None:
            total = sum(len(p) + 1 for lst in sent_ok for p in lst)
            await wire.wait_until(lambda: len(peer.plain_in) >= total or peer.error is not None)
            await tls.aclose()
            wire.stop = True
            wire.kick()
            conductor.cancel()
            await asyncio.gather(conductor, return_exceptions=True)

    elif sut in ("client", "raw-endpoint"):
        backend = FairLockBackend() if case.get("fair_lock") else VerifBackend()
        mem = MemStreamTransport(backend, script=case["mem_script"])
        if sut == "client":
            backend.connect_transports.append(mem)
            client = AsyncTCPNetworkClient(("localhost", 9000), proto, backend)
            await client.wait_connected()
            send = client.send_packet
            closer = client.aclose
        else:
            ep = AsyncStreamEndpoint(mem, proto, max_recv_size=1024)
            send = ep.send_packet
            closer = ep.aclose
        wire_bytes = lambda: bytes(mem.sent)  # noqa: E731

        async def finish() -> None:
            await closer()

    elif sut == "server-client":
        backend = FairLockBackend() if case.get("fair_lock") else VerifBackend()
        holder: dict[str, Any] = {}
        got_client = asyncio.Event()

        class H(AsyncStreamRequestHandler):
            async def handle(self, client: Any):  # noqa: ANN202
                holder["client"] = client
                got_client.set()
                while True:
                    yield

        srv = AsyncTCPNetworkServer(None, 0, proto, H(), backend)
        up = asyncio.Event()
        serve_task = asyncio.create_task(srv.serve_forever(is_up_event=up))
        await up.wait()
        mem = MemStreamTransport(backend, script=case["mem_script"])
        backend.tcp_listeners[0].connect(mem)
        await got_client.wait()
        send = holder["client"].send_packet
        wire_bytes = lambda: bytes(mem.sent)  # noqa: E731

        async def finish() -> None:
            mem.feed_eof()
            await srv.shutdown()
            await serve_task
            await srv.server_close()

    else:
        raise HarnessError(sut)

    async def sender(s: int, spec: dict) -> None:
        for _ in range(spec["start_ticks"]):
            await asyncio.sleep(0)
        for i in range(spec["count"]):
            text = packet_text(s, i, spec["sizes"][i % len(spec["sizes"])])
            order_started.append((s, i))
            overlap["cur"] += 1
            overlap["max"] = max(overlap["max"], overlap["cur"])
            try:
                await send(text)
            except BusyResourceError as exc:
                failed.append((s, i, type(exc).__name__))
            else:
                sent_ok[s].append(text)
                order_finished.append((s, i))
            finally:
                overlap["cur"] -= 1
            for _ in range(spec["gap_ticks"][i % len(spec["gap_ticks"])]):
                await asyncio.sleep(0)

    tasks = [asyncio.create_task(sender(s, spec)) for s, spec in enumerate(case["senders"])]
    try:
        res = await asyncio.gather(*tasks, return_exceptions=True)
    finally:
        for t in tasks:
            t.cancel()
    errors = [r for r in res if isinstance(r, BaseException)]
    await finish()
    if errors:
        raise errors[0]
    return {
        "wire": wire_bytes(),
        "sent_ok": sent_ok,
        "failed": failed,
        "max_overlap": overlap["max"],
        "started": order_started,
        "finished": order_finished,
    }


def run_async_case(case: dict) -> Outcome:
    try:
        r = run_virtual(_async_session, case)
    except Deadlock as exc:
        raise Violation("deadlock", f"concurrent senders never complete: {exc}", sut=case["sut"]) from exc
    _parse_and_judge(r["wire"], r["sent_ok"], r["failed"], case["sut"], allow_busy=case["sut"] == "raw-endpoint")
    if case["sut"] in ("client", "server-client"):
        # FIFO hand-off of the fair lock: calls complete in the order they were issued
        if r["finished"] != [x for x in r["started"] if x in set(r["finished"])]:
            raise Violation("unfair", f"{case['sut']}: senders blocked on the lock did not complete in arrival order: started {r['started']} finished {r['finished']}", sut=case["sut"])
    script = case["mem_script"]
    suspends = any(script["send_yield"]) or any(script["send_split"]) or (case["chunky"] and not script["iterable_joined"]) or case["sut"] == "tls"
    classes = [case["sut"], f"overlap-{min(r['max_overlap'], 4)}"]
    if case.get("fair_lock") and case["sut"] in ("client", "server-client", "raw-endpoint"):
        classes.append("library-FairLock")
    if r["failed"]:
        classes.append("busy-errors")
    if case["chunky"]:
        classes.append("multi-chunk-packets")
    return Outcome(nontrivial=r["max_overlap"] >= 2 and suspends, classes=tuple(classes))


# ----------------------------------------------------------------------------------------------
# real threads over loopback (schedule randomised by the OS, not owned: interval-free oracle on the wire)


@st.composite
def st_thread_case(draw: st.DrawFn, tier: str) -> dict:
    return {
        "kind": draw(st.sampled_from(["tcp", "tcp", "udp"])),
        "nthreads": draw(st.integers(2, 5)),
        "count": draw(st.integers(1, 4)),
        "size": draw(st.sampled_from([300, 40000, 250000, 600000])),
        "sndbuf": draw(st.sampled_from([2048, 2048, 16384])),
        "reader_delay_ms": draw(st.sampled_from([0, 5, 30])),
    }


def run_thread_case(case: dict) -> Outcome:
    kind = case["kind"]
    n, count = case["nthreads"], case["count"]
    size = case["size"] if kind == "tcp" else min(case["size"], 1200)
    ser = StringLineSerializer()
    errors: list[str] = []
    timeouts: list[str] = []
    sent_ok: list[list[str]] = [[] for _ in range(n)]
    deadline = time.monotonic() + 30
    if kind == "tcp":
        lsock = socket.socket(socket.AF_INET, socket.SOCK_STREAM)
        lsock.bind(("127.0.0.1", 0))
        lsock.listen(1)
        csock = socket.socket(socket.AF_INET, socket.SOCK_STREAM)
        if case["sndbuf"]:
            csock.setsockopt(socket.SOL_SOCKET, socket.SO_SNDBUF, case["sndbuf"])
        csock.connect(lsock.getsockname())
        peer, _ = lsock.accept()
        lsock.close()
        client: Any = TCPNetworkClient(csock, StreamProtocol(ser))
    else:
        peer = socket.socket(socket.AF_INET, socket.SOCK_DGRAM)
        peer.bind(("127.0.0.1", 0))
        peer.setsockopt(socket.SOL_SOCKET, socket.SO_RCVBUF, 1 << 20)
        csock = socket.socket(socket.AF_INET, socket.SOCK_DGRAM)
        csock.connect(peer.getsockname())
        client = UDPNetworkClient(csock, DatagramProtocol(ser))
    received = bytearray()
    dgrams: list[bytes] = []
    stop = threading.Event()

    def reader() -> None:
        peer.settimeout(0.2)
        time.sleep(case["reader_delay_ms"] / 1000)
        while not stop.is_set():
            try:
                data = peer.recv(65536)
            except TimeoutError:
                continue
            except OSError:
                return
            if kind == "tcp":
                if not data:
                    return
                received.extend(data)
            else:
                dgrams.append(data)

    def worker(s: int) -> None:
        try:
            for i in range(count):
                text = packet_text(s, i, size)
                client.send_packet(text, timeout=20)
                sent_ok[s].append(text)
        except TimeoutError as exc:
            timeouts.append(f"sender {s}: {exc}")  # wall-clock budget of the send itself: machine load, not the property
        except Exception as exc:  # noqa: BLE001
            errors.append(f"sender {s}: {type(exc).__name__}: {exc}")

    rt = threading.Thread(target=reader, daemon=True)
    rt.start()
    workers = [threading.Thread(target=worker, args=(s,), daemon=True) for s in range(n)]
    try:
        for w in workers:
            w.start()
        for w in workers:
            w.join(max(0.1, deadline - time.monotonic()))
        if any(w.is_alive() for w in workers):
            raise Inconclusive("sender threads still running after 30 s wall clock")
        total = sum(len(p) + 1 for lst in sent_ok for p in lst)
        t_end = time.monotonic() + 10
        if kind == "tcp":
            while len(received) < total and time.monotonic() < t_end:
                time.sleep(0.01)
        else:
            want = sum(len(lst) for lst in sent_ok)
            while len(dgrams) < want and time.monotonic() < t_end:
                time.sleep(0.01)
    finally:
        stop.set()
        try:
            client.close()
        finally:
            rt.join(2)
            peer.close()
    if errors:
        raise Violation("send-failed", f"{kind} thread-safe client: {errors[0]}", sut=f"{kind}-threads")
    if timeouts:
        raise Inconclusive(f"a send_packet(timeout=20) timed out on the wall clock: {timeouts[0]}")
    if kind == "tcp":
        if len(received) < total:
            raise Inconclusive(f"peer received {len(received)} of {total} bytes within the wall-clock budget")
        _parse_and_judge(bytes(received), sent_ok, [], "tcp-threads", allow_busy=False)
    else:
        expected = {p for lst in sent_ok for p in lst}
        got = [d.decode("ascii", "replace") for d in dgrams]
        for g in got:
            if g not in expected:
                raise Violation("interleaved", f"udp-threads: datagram {g!r:.60} is not a sent packet", sut="udp-threads")
        if len(got) != len(set(got)):
            raise Violation("duplicated", "udp-threads: a datagram arrived twice", sut="udp-threads")
        if len(got) < len(expected):
            return Outcome(inconclusive=True, classes=("udp-threads", "datagram-missing"))
    return Outcome(nontrivial=True, classes=(f"{kind}-threads", f"threads-{n}"))


# ----------------------------------------------------------------------------------------------
# FairLock driven directly: generated schedules of acquire / hold / release / cancel against a FIFO-queue model


@st.composite
def st_fairlock_case(draw: st.DrawFn, tier: str) -> dict:
    n = draw(st.integers(2, 6))
    return {
        "tasks": [
            {
                "start": draw(st.integers(0, 6)),
                "rounds": draw(st.integers(1, 3)),
                "hold": draw(st.lists(st.integers(0, 3), min_size=1, max_size=3)),
                "gap": draw(st.lists(st.integers(0, 2), min_size=1, max_size=3)),
                "cancel_at": draw(st.one_of(st.none(), st.none(), st.integers(0, 12))),
            }
            for _ in range(n)
        ]
    }


async def _fairlock_session(case: dict) -> dict:
    backend = AsyncIOBackend()
    lock = _AbstractAsyncBackend.create_fair_lock(backend)
    inside = {"n": 0, "max": 0}
    requests: list[tuple[int, int]] = []  # order in which acquire() was called
    grants: list[tuple[int, int]] = []  # order in which the lock was obtained
    cancelled_waiting: set[tuple[int, int]] = set()
    waiting: set[tuple[int, int]] = set()

    async def worker(i: int, spec: dict) -> None:
        for _ in range(spec["start"]):
            await asyncio.sleep(0)
        for r in range(spec["rounds"]):
            key = (i, r)
            requests.append(key)
            waiting.add(key)
            try:
                await lock.acquire()
            except asyncio.CancelledError:
                cancelled_waiting.add(key)
                raise
            finally:
                waiting.discard(key)
            grants.append(key)
            inside["n"] += 1
            inside["max"] = max(inside["max"], inside["n"])
            try:
                for _ in range(spec["hold"][r % len(spec["hold"])]):
                    await asyncio.sleep(0)
            finally:
                inside["n"] -= 1
                lock.release()
            for _ in range(spec["gap"][r % len(spec["gap"])]):
                await asyncio.sleep(0)

    tasks = [asyncio.create_task(worker(i, spec)) for i, spec in enumerate(case["tasks"])]
    tick = 0
    while not all(t.done() for t in tasks):
        for i, spec in enumerate(case["tasks"]):
            if spec["cancel_at"] == tick and not tasks[i].done():
                tasks[i].cancel()
        tick += 1
        await asyncio.sleep(0)
        if tick > 5000:
            raise Violation("deadlock", "FairLock users never finish", sut="fair-lock")
    results = await asyncio.gather(*tasks, return_exceptions=True)
    errors = [r for r in results if isinstance(r, BaseException) and not isinstance(r, asyncio.CancelledError)]
    return {"max_inside": inside["max"], "requests": requests, "grants": grants, "cancelled": cancelled_waiting, "errors": errors, "locked_after": lock.locked()}


def run_fairlock_case(case: dict) -> Outcome:
    try:
        r = run_virtual(_fairlock_session, case)
    except Deadlock as exc:
        raise Violation("deadlock", f"FairLock: a waiter is never woken: {exc}", sut="fair-lock") from exc
    if r["errors"]:
        raise Violation("lock-error", f"FairLock raised {r['errors'][0]!r}", sut="fair-lock")
    if r["max_inside"] > 1:
        raise Violation("mutual-exclusion", f"{r['max_inside']} tasks held the FairLock at the same time", sut="fair-lock")
    if r["locked_after"]:
        raise Violation("lock-leaked", "FairLock still locked after every user finished", sut="fair-lock")
    expected = [k for k in r["requests"] if k not in r["cancelled"]]
    if r["grants"] != expected:
        raise Violation("unfair", f"FairLock granted in order {r['grants']}, requested in order {expected}", sut="fair-lock")
    contended = len(r["requests"]) >= 3
    return Outcome(nontrivial=contended, classes=("fair-lock", "with-cancel" if r["cancelled"] else "no-cancel"))


CHECK = Check(
    id="C12",
    level="exploration",
    rule=(
        "async layer (virtual loop, schedule owned): 2-5 senders x 1-4 line packets each (unique texts, optionally produced as "
        "several chunks) x start offsets and gaps in loop ticks x transport script (suspend after a commit for k ticks, partial "
        "commits of 1/3/7 bytes, chunk-by-chunk send_all_from_iterable) on AsyncTCPNetworkClient, the server-side client of a "
        "running AsyncTCPNetworkServer, AsyncTLSStreamTransport.send_all (wire = what the stdlib peer decrypts) and the raw "
        "AsyncStreamEndpoint (BusyResourceError allowed, must contribute zero bytes); threads layer: TCPNetworkClient / "
        "fairlock layer: the library's FairLock (default create_fair_lock of AsyncBackend; also used by half of the async-layer cases through a backend that does not override it) under generated acquire/hold/release/cancel schedules against a FIFO model; UDPNetworkClient from 2-5 real threads over loopback with small SO_SNDBUF and a slow reader. Oracle: the wire parses "
        "into exactly the packets whose send returned, each contiguous, once, per-sender order kept; lock hand-off FIFO. "
        "non-trivial = >= 2 sends overlapped in time and the transport suspended mid-packet (threads: every case); distinct = sha1(case)"
    ),
    layers=[
        Layer("async", st_async_case, run_async_case, {"quick": 500, "thorough": 3000}),
        Layer("fairlock", st_fairlock_case, run_fairlock_case, {"quick": 400, "thorough": 3000}),
        Layer("threads", st_thread_case, run_thread_case, {"quick": 25, "thorough": 40}, shards=4),
    ],
    assumptions=[
        "async layer: in-memory transport whose send_all/send_all_from_iterable may commit a packet in pieces with suspensions in between (as a sendall loop on a socket does)",
        "threads layer: the OS owns the schedule; a missing datagram or a wall-clock overrun is recorded as inconclusive, never as a violation",
    ],
)
