"""C01 — stream round-trip: packets survive any chunking of the byte stream (DESIGN.md section 3, C01)."""

from __future__ import annotations

from typing import Any

from hypothesis import strategies as st

from .. import drivers, zoo
from ..core import Check, Layer, Outcome, Violation

BIG = 1 << 20


def scale_packet(spec: dict, j: Any, rep: int) -> Any:
    """thorough tier: make a packet `rep` times larger while keeping it valid for spec"""
    if rep <= 1:
        return j
    k = spec["kind"]
    if k == "stapled":
        return scale_packet(spec["sent"], j, rep)
    if k in ("base64", "zlib", "bz2"):
        inner = spec["inner"]
        if inner["kind"] == "line":
            return j * rep
        return scale_packet(inner, j, rep)
    if k == "line":
        return zoo._strip_forbidden(j * rep, zoo.NEWLINES[spec["newline"]].decode())
    if k in ("json", "pickle"):
        return [j] * rep
    if k == "autosep":
        sep = spec["separator"]
        p = j * rep
        while (p + sep).find(sep) != len(p):
            idx = (p + sep).find(sep)
            p = p[:idx] + p[idx + 1 :]
        return p
    if k in ("hfile", "lenprefixed"):
        return (j * rep)[:60000]
    return j


@st.composite
def st_case(draw: st.DrawFn, tier: str) -> dict:
    spec = draw(zoo.st_stream_spec())
    packets = draw(st.lists(zoo.st_packet(spec), min_size=1, max_size=8))
    if tier == "thorough":
        rep = draw(st.sampled_from([1, 1, 1, 1, 20, 200, 2000]))
        if rep > 1:
            idx = draw(st.integers(0, len(packets) - 1))
            packets[idx] = scale_packet(spec, packets[idx], rep)
    entry = zoo.build(spec)
    frames = [b"".join(entry.frame(p)) for p in packets]
    if zoo.has_limit(spec):
        safe = zoo.safe_limit_for(entry, frames)
        slack = draw(st.sampled_from([0, 0, 0, 1, 2, 3, 7, 50, BIG]))
        limit = zoo.DEFAULT_LIMIT if (slack == BIG and safe <= zoo.DEFAULT_LIMIT) else safe + (0 if slack == BIG else slack)
        spec = zoo.with_limit(spec, limit)
    stream = b"".join(frames)
    boundaries = []
    pos = 0
    for f in frames:
        pos += len(f)
        boundaries.append(pos)
    seplen = zoo.seplen_for_limit(entry)
    classes = drivers.interesting_positions(stream, boundaries, seplen)
    interesting = sorted(set(classes["sep"]) | set(classes["header"]) | set(classes["escape"]) | set(classes["multibyte"]) | set(boundaries))
    cuts = draw(drivers.st_cuts(len(stream), interesting))
    cuts2 = draw(drivers.st_cuts(len(stream), interesting))
    return {
        "spec": spec,
        "packets": packets,
        "cuts": cuts,
        "cuts2": cuts2,
        "fills": draw(drivers.st_fills()),
        "sizehint": draw(drivers.st_sizehint()),
    }


def _check_outputs(entry: zoo.Entry, packets: list, outputs: list, leftover: bytes, path: str, case_info: dict) -> None:
    if len(outputs) != len(packets) or any(o[0] != "pkt" for o in outputs):
        raise Violation(
            "roundtrip",
            f"path {path}: expected {len(packets)} packets, got {[(o[0], o[1] if o[0] == 'err' else '...') for o in outputs][:12]}",
            path=path,
            **case_info,
        )
    for i, (o, j) in enumerate(zip(outputs, packets)):
        if not entry.eq(o[1], j):
            raise Violation(
                "roundtrip", f"path {path}: packet #{i} differs: sent {entry.expected(j)!r:.200} got {o[1]!r:.200}", path=path, index=i, **case_info
            )
    if leftover:
        raise Violation("leftover", f"path {path}: {len(leftover)} bytes left over after the last packet", path=path, **case_info)


def run_case(case: dict) -> Outcome:
    spec = case["spec"]
    entry = zoo.build(spec)
    packets = case["packets"]
    frames = [b"".join(entry.frame(p)) for p in packets]
    stream = b"".join(frames)
    boundaries = []
    pos = 0
    for f in frames:
        pos += len(f)
        boundaries.append(pos)
    info = {"serializer": spec["kind"], "stream_len": len(stream)}

    partitions = [("A1", case["cuts"]), ("A2", case["cuts2"])]
    if len(stream) <= 4096:
        partitions.append(("A-bytewise", list(range(1, len(stream)))))
    for name, cuts in partitions:
        chunks = drivers.split_at(stream, cuts)
        outputs, leftover = drivers.drive_a(entry.stream_protocol(), chunks)
        _check_outputs(entry, packets, outputs, leftover, name, info)

    classes = []
    if entry.buffered:
        outputs, leftover, binfo = drivers.drive_b(entry.buffered_protocol(), stream, case["fills"], case["sizehint"])
        _check_outputs(entry, packets, outputs, leftover, "B", info)
        classes.append("path-B")
        if len(stream) <= 4096 and case["fills"] != [1]:
            outputs, leftover, _ = drivers.drive_b(entry.buffered_protocol(), stream, [1], case["sizehint"])
            _check_outputs(entry, packets, outputs, leftover, "B-bytewise", info)

    seplen = zoo.seplen_for_limit(entry)
    pos_classes = drivers.interesting_positions(stream, boundaries, seplen)
    classes += drivers.classify_cuts(case["cuts"], pos_classes, boundaries)
    classes.append(f"kind-{spec['kind']}")
    if spec.get("conv"):
        classes.append("converter")
    if len(packets) >= 2:
        classes.append("multi-packet")
    lim = entry.limit
    if lim is not None and frames and lim - max(len(f) for f in frames) - seplen - 1 <= 3:
        classes.append("frame-near-limit")
    # remainder re-injection: some chunk contains the end of one packet and the start of the next
    cset = set(c for c in case["cuts"] if 0 < c < len(stream))
    if any(b not in cset for b in boundaries[:-1]):
        classes.append("remainder-reinjected")
    if spec["kind"] in ("zlib", "bz2") and "cut-inside-frame" in classes:
        classes.append("cut-compressed-block")
    nt = len(packets) >= 2 and "cut-inside-frame" in classes
    return Outcome(nontrivial=nt, classes=tuple(classes))


CHECK = Check(
    id="C01",
    level="exploration",
    rule=(
        "case = serializer spec (zoo: line/json/struct/namedtuple/base64/zlib/bz2/stapled + harness subclasses of "
        "AutoSeparated/FixedSize/FileBased/AbstractIncremental, optional converter) x 1-8 valid packets x two generated "
        "partitions + byte-by-byte (copying path) x generated fill sizes + size hint (buffered path) x limit drawn so frames "
        "sit at/near the safe bound; non-trivial = at least 2 packets and at least one cut strictly inside a frame; "
        "distinct = sha1 of the canonical case JSON"
    ),
    layers=[Layer("roundtrip", st_case, run_case, {"quick": 1500, "thorough": 6000})],
    assumptions=[
        "valid packets respect documented preconditions: separator not inside the payload, ASCII-compatible encodings for line framing, no NaN",
        "cbor/msgpack serializers and the trio backend cannot be imported offline; FileBasedPacketSerializer is covered by a harness subclass",
        "buffered-path leftover is read from the consumer's private re-injection counter",
    ],
)

# thorough tier: the same strategy and oracle driven by the coverage-guided engine (pbt/covfuzz.py)
from ..covfuzz import cov_layer  # noqa: E402

CHECK.layers.append(cov_layer("C01", CHECK.layer("roundtrip"), runs=8000, time_s=100))
