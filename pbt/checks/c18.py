"""C18 — server lifecycle operations are safe in every order (DESIGN.md section 3, C18).

Layer "async": histories of <= 8 lifecycle operations spread over <= 3 tasks, each with a tick-exact start offset, run
against the unmodified AsyncTCPNetworkServer / AsyncUDPNetworkServer on the virtual-time loop with in-memory listeners.
The harness owns the schedule, so every interleaving point of start-up and tear-down is an ordinary generated value and
a call that never returns is a deterministic outcome.

Layer "standalone": the threaded StandaloneTCPNetworkServer / StandaloneUDPNetworkServer with real threads and real
loopback sockets (port 0).  The schedule is randomised (start offsets are short real sleeps), not owned: the oracle only
uses invariants that are sound under every interleaving, a hang must reproduce three times before it counts and anything
decided by timing alone is recorded as inconclusive.

Both oracles are interval-order invariants over a history of (start stamp, end stamp, outcome) records.
"""

from __future__ import annotations

import asyncio
import contextlib
import logging
import os
import socket
import threading
import time
from typing import Any

from hypothesis import strategies as st

from ..core import Check, HarnessError, Inconclusive, Layer, Outcome, Violation, case_digest

INF = 10**12

# Finding S1 (C18-local label) (reported, not repaired here): StandaloneXXXNetworkServer.server_close() swallows the BusyResourceError that the
# embedded async server_close() raises during serve_forever() set-up (it is a RuntimeError, and _run_sync_or_else suppresses
# RuntimeError), marks the server closed and returns, while the server goes on to come up with its listeners open.
# With the flag on, the standalone generator keeps service_init instantaneous (so the window is a few loop iterations) and
# the oracle skips exactly that shape, counting it, so that the search continues past it.
EXCLUDE_S1 = os.environ.get("VERIF_C18_EXCLUDE_S1") == "1"  # S1 is repaired in /repo: the shape is searched again

# Finding S2 (C18-local label) (reported, transient): the standalone server_close() racing with a shutdown() in progress returns before the
# listener sockets are closed (the portal refuses the call with RuntimeError, which is swallowed; the serving thread closes
# the listeners moments later).  With the flag on, a listener that is open when server_close() returns but closed within a
# 2 s grace period while a serve_forever() that had been up is unwinding is counted, not reported.
EXCLUDE_S2 = os.environ.get("VERIF_C18_EXCLUDE_S2") == "1"  # S2 is repaired in /repo: the shape is searched again

LIFECYCLE = ("serve", "shutdown", "close", "activate")
REFUSALS = ("ServerAlreadyRunning", "ServerClosedError", "BusyResourceError")

ALLOWED_RESULTS = {
    "serve": ("ok", "ServerAlreadyRunning", "ServerClosedError", "BusyResourceError"),
    "shutdown": ("ok",),
    "close": ("ok", "BusyResourceError"),
    "activate": ("ok", "ServerClosedError"),
    "connect": ("ok",),
    "wait": ("ok",),
}


# ----------------------------------------------------------------------------------------------
# generator


_OP_POOL = ["serve"] * 6 + ["shutdown"] * 5 + ["close"] * 3 + ["activate"] * 2 + ["connect"] * 2 + ["wait"]


@st.composite
def st_ops(draw: st.DrawFn, max_delay: int) -> list[dict]:
    """a history by construction.  The first operation of a task has an absolute start offset (ticks from the start), later
    ones are relative to the end of the previous operation of the same task.  Two thirds of the histories start with a
    *race skeleton* that aims an operation at the start-up window or the tear-down window of a serve_forever (both are
    4 ticks long plus the generated factory / service_init / tear-down durations); the rest of the operations are free."""
    delays = [0, 0, 0, 1, 1, 2, 2, 3, 4, 5, 6, 7, 8, 10, 12, max_delay]
    shape = draw(st.sampled_from(["free", "startup-race", "teardown-race", "teardown-race"]))
    ops: list[dict] = []
    if shape == "startup-race":
        ops.append({"op": "serve", "task": 0, "delay": draw(st.integers(0, 3))})
        ops.append({"op": draw(st.sampled_from(["close", "shutdown", "serve", "activate", "close", "shutdown"])), "task": 1, "delay": draw(st.integers(0, 12))})
    elif shape == "teardown-race":
        ops.append({"op": "serve", "task": 0, "delay": 0})
        if draw(st.booleans()):
            ops.append({"op": "connect", "task": 1, "delay": draw(st.integers(2, 8))})
            a = 0
        else:
            a = draw(st.integers(4, 14))
        ops.append({"op": draw(st.sampled_from(["shutdown", "shutdown", "close"])), "task": 1, "delay": a})
        base = sum(o["delay"] for o in ops if o["task"] == 1)
        ops.append({"op": draw(st.sampled_from(["serve", "serve", "close", "shutdown", "activate"])), "task": 2, "delay": base + draw(st.integers(0, 9))})
    n_tasks = max([o["task"] for o in ops] + [draw(st.integers(0, 2))]) + 1
    n_ops = draw(st.integers(max(2, len(ops)), 8))
    while len(ops) < n_ops:
        op = draw(st.sampled_from(_OP_POOL))
        d: dict[str, Any] = {"op": op, "task": draw(st.integers(0, n_tasks - 1)), "delay": draw(st.sampled_from(delays))}
        if op == "wait":
            d["k"] = draw(st.integers(1, 10))
        ops.append(d)
    if not any(o["op"] == "serve" for o in ops):
        ops[draw(st.integers(0, len(ops) - 1))]["op"] = "serve"
        for o in ops:
            o.pop("k", None) if o["op"] != "wait" else None
    return ops


@st.composite
def st_async_case(draw: st.DrawFn, tier: str) -> dict:
    return {
        "proto": draw(st.sampled_from(["tcp", "udp"])),
        "ops": draw(st_ops(16)),
        "factory_yields": draw(st.sampled_from([0, 0, 1, 2, 3, 5])),
        "factory_shielded": draw(st.booleans()),
        "listener_aclose_yields": draw(st.sampled_from([0, 1, 1, 2, 4])),
        "service_init_yields": draw(st.sampled_from([0, 0, 1, 2, 4])),
        "service_exit_yields": draw(st.sampled_from([0, 0, 1, 3])),
        "handler_sleep": draw(st.sampled_from([0.0, 0.0, 1.0])),
        "burst": draw(st.sampled_from([1, 1, 2, 3])),
    }


# ----------------------------------------------------------------------------------------------
# history + oracle (shared by both layers)


class History:
    """global step counter; with threads the counter is taken under a lock, so stamps are a linearisation in which
    every start stamp precedes the real start of the call and every end stamp follows its real end."""

    def __init__(self) -> None:
        self._n = 0
        self._lock = threading.Lock()
        self.records: list[dict] = []

    def stamp(self) -> int:
        with self._lock:
            self._n += 1
            return self._n

    def new(self, index: int | str, op: str, task: int | str) -> dict:
        rec = {"i": index, "op": op, "task": task, "start": None, "end": None, "result": None, "up": None, "obs": {}}
        with self._lock:
            self.records.append(rec)
        return rec

    def view(self) -> list[dict]:
        with self._lock:
            recs = [dict(r, obs=dict(r["obs"])) for r in self.records]
        return sorted(recs, key=lambda r: (r["start"] is None, r["start"] or 0))


def _end(r: dict) -> int:
    return INF if r["end"] is None else r["end"]


def _overlap(a: dict, b: dict) -> bool:
    return a["start"] < _end(b) and b["start"] < _end(a)


def _shutdown_may_hit(f: dict, s: dict, t_up: int, owned_schedule: bool) -> bool:
    """can shutdown call `s` have stopped serve_forever call `f` before it came up?  On the virtual loop a shutdown acts at
    the instant it is called, so it must have been issued while `f` was starting.  A standalone shutdown() first waits
    for the server's bootstrap lock, so a call issued *before* `f` started may act while `f` is starting: any overlap of the
    two intervals counts there (found by the thorough tier: serve / shutdown / shutdown / serve from three threads)."""
    if owned_schedule:
        return f["start"] < s["start"] < t_up
    return s["start"] < t_up and _end(s) > f["start"]


def check_history(
    recs: list[dict], *, owned_schedule: bool, details: dict, init_stamps: list[int] | None = None, skipped: list[str] | None = None
) -> None:
    """interval-order invariants.  `owned_schedule` (virtual loop): the stamps are exact, so 'shutdown returns only after
    serving has fully stopped' is judged on the end stamps themselves; with threads that comparison would race on who
    records its end stamp first, so it is judged on the is_serving() sample taken by the shutdown caller instead."""
    recs = [r for r in recs if r["start"] is not None]
    serves = [r for r in recs if r["op"] == "serve"]
    closes_ok = [r for r in recs if r["op"] == "close" and r["result"] == "ok"]
    closes_any = [r for r in recs if r["op"] == "close"]
    shutdowns = [r for r in recs if r["op"] == "shutdown"]

    def fail(kind: str, msg: str, **kw: Any) -> None:
        raise Violation(kind, msg, **kw, **details)

    for r in recs:
        res = r["result"]
        if res is None:
            continue
        if res not in ALLOWED_RESULTS[r["op"]]:
            fail("unexpected-exception", f"{r['op']} (op #{r['i']}) ended with {res}: {r.get('exc', '')[-1500:]}", op=r["i"])

    for f in serves:
        res = f["result"]
        others = [g for g in serves if g is not f and _overlap(f, g)]
        if res == "ServerAlreadyRunning" and not others:
            fail("spurious-already-running", f"serve_forever #{f['i']} refused with ServerAlreadyRunning but no other serve_forever overlaps it", op=f["i"])
        if res == "BusyResourceError" and not any(_overlap(f, c) for c in closes_any):
            fail("spurious-busy", f"serve_forever #{f['i']} raised BusyResourceError but no server_close overlaps it", op=f["i"])
        closed_before = [c for c in closes_ok if c["end"] is not None and c["end"] < f["start"]]
        if closed_before and res is not None:
            accepted = ("ServerClosedError", "ServerAlreadyRunning") if others else ("ServerClosedError",)
            # a shutdown issued while this call was still starting cancels it before it reaches the closed check: it then
            # returns normally without having served, which is a refusal to serve as far as the statement goes
            cancelled_by_shutdown = res == "ok" and f["up"] is None and any(_shutdown_may_hit(f, s, _end(f), owned_schedule) for s in shutdowns)
            if res not in accepted and not cancelled_by_shutdown:
                fail(
                    "served-after-close",
                    f"serve_forever #{f['i']} started after server_close #{closed_before[0]['i']} had completed and ended with {res!r} "
                    f"(up={f['up']}) instead of {' / '.join(accepted)}",
                    op=f["i"],
                )
        if f["up"] is not None and closed_before:
            fail("served-after-close", f"serve_forever #{f['i']} came up after server_close #{closed_before[0]['i']} had completed", op=f["i"])
        if res == "ok" and f["up"] is None:
            t_up = _end(f)
            excused = any(c["start"] < t_up for c in closes_ok) or any(_shutdown_may_hit(f, s, t_up, owned_schedule) for s in shutdowns)
            if not excused:
                fail(
                    "never-served",
                    f"serve_forever #{f['i']} returned without ever serving although no shutdown/server_close was issued while it was starting",
                    op=f["i"],
                )

    for r in recs:
        if r["result"] == "ServerClosedError" and not any(c["start"] < _end(r) for c in closes_ok):
            fail("spurious-closed", f"{r['op']} #{r['i']} refused with ServerClosedError but no server_close had started", op=r["i"])
        if r["op"] == "close" and r["result"] == "BusyResourceError" and not any(_overlap(r, f) for f in serves):
            fail("spurious-busy", f"server_close #{r['i']} raised BusyResourceError but no serve_forever overlaps it", op=r["i"])

    for s in shutdowns:
        if s["end"] is None:
            continue
        if owned_schedule:
            for f in serves:
                if f["start"] < s["start"] < _end(f) and not (_end(f) < s["end"]):
                    fail(
                        "shutdown-returned-early",
                        f"shutdown #{s['i']} returned (stamp {s['end']}) before serve_forever #{f['i']}, running when it was called, had returned (stamp {f['end']})",
                        op=s["i"],
                    )
        if s["obs"].get("is_serving_at_end"):
            # sound under every interleaving: only a serve_forever that was not yet up when shutdown was called may be serving now
            sampled = s["obs"].get("sampled_at", s["end"])
            cands = [g for g in serves if g["start"] < sampled and _end(g) > s["start"] and not (g["up"] is not None and g["up"] < s["start"])]
            if not cands:
                fail(
                    "shutdown-returned-early",
                    f"is_serving() is True right after shutdown #{s['i']} returned and no serve_forever came up after it was called",
                    op=s["i"],
                )

    def s1_shaped(c: dict, f: dict | None = None) -> bool:
        """recorded finding S1 (standalone only): server_close() arriving while the embedded async serve_forever() is inside
        its set-up section (service_init entered, not yet up) returns normally although nothing was closed."""
        if not (EXCLUDE_S1 and init_stamps is not None):
            return False
        for g in serves if f is None else [f]:
            in_setup = g["start"] < c["end"] and (g["up"] is None or c["start"] < g["up"])
            if in_setup and any(g["start"] < t < c["end"] and (g["up"] is None or t < g["up"]) for t in init_stamps):
                if skipped is not None and "S1-signature-skipped" not in skipped:
                    skipped.append("S1-signature-skipped")
                return True
        return False

    def s2_shaped(c: dict) -> bool:
        """recorded finding S2 (standalone only, transient): server_close() racing with a shutdown in progress finds a
        portal that no longer accepts calls, swallows the RuntimeError and returns while the serving thread has not closed
        the listeners yet; they are closed moments later by that thread's own unwinding."""
        if not (EXCLUDE_S2 and init_stamps is not None):
            return False
        if c["obs"].get("open_after_grace") != []:
            return False
        if any(f["up"] is not None and f["up"] < c["start"] and _end(f) > c["start"] for f in serves):
            if skipped is not None and "S2-signature-skipped" not in skipped:
                skipped.append("S2-signature-skipped")
            return True
        return False

    for c in closes_ok:
        if c["end"] is None:
            continue
        obs = c["obs"]
        if (obs.get("is_serving_at_end") or obs.get("open_listeners_at_end")) and s1_shaped(c):
            continue
        if obs.get("open_listeners_at_end") and not obs.get("is_serving_at_end") and s2_shaped(c):
            continue
        for f in serves:
            if f["up"] is not None and f["up"] > c["end"] and not s1_shaped(c, f):
                fail("served-after-close", f"serve_forever #{f['i']} came up (stamp {f['up']}) after server_close #{c['i']} had returned (stamp {c['end']})", op=f["i"])
        if obs.get("is_listening_at_end"):
            fail("listening-after-close", f"is_listening() is True right after server_close #{c['i']} returned", op=c["i"])
        if obs.get("is_serving_at_end"):
            fail("serving-after-close", f"is_serving() is True right after server_close #{c['i']} returned", op=c["i"])
        if obs.get("open_listeners_at_end"):
            fail(
                "listener-open-after-close",
                f"listener(s) {obs['open_listeners_at_end']} seen before server_close #{c['i']} are still open after it returned",
                op=c["i"],
            )


def classify(recs: list[dict]) -> tuple[bool, list[str]]:
    life = [r for r in recs if r["op"] in LIFECYCLE and not r.get("harness") and r["start"] is not None]
    classes: set[str] = set()
    overlap = any(_overlap(a, b) for i, a in enumerate(life) for b in life[i + 1 :])
    serves = [r for r in life if r["op"] == "serve"]
    shutdowns = [r for r in life if r["op"] == "shutdown"]
    closes = [r for r in life if r["op"] == "close"]
    reserve = any(f["start"] > _end(s) for f in serves for s in shutdowns)
    if overlap:
        classes.add("overlap")
    if reserve:
        classes.add("serve-after-shutdown")
    for f in serves:
        classes.add(f"serve={f['result']}")
        t_up = f["up"] if f["up"] is not None else _end(f)
        if any(f["start"] < x["start"] < t_up for x in shutdowns):
            classes.add("shutdown-during-startup")
        if any(f["start"] < x["start"] < t_up for x in closes):
            classes.add("close-during-startup")
        if f["up"] is not None:
            classes.add("served")
            enders = [x for x in shutdowns + closes if f["up"] < x["start"] < _end(f)]
            if enders:
                t_down = min(x["start"] for x in enders)
                if any(t_down < x["start"] < _end(f) for x in life if x is not f):
                    classes.add("op-during-teardown")
            if any(_end(s) < f["start"] for s in shutdowns) and not any(_end(c) < f["start"] for c in closes):
                classes.add("served-again-after-shutdown")
    for c in closes:
        classes.add(f"close={c['result']}")
    for r in life:
        if r["op"] == "activate":
            classes.add(f"activate={r['result']}")
    if len({r["task"] for r in life}) >= 2:
        classes.add("multi-task")
    if any(r["op"] == "connect" and r["obs"].get("connected") for r in recs):
        classes.add("client-connected")
    return (overlap or reserve), sorted(classes)


# ----------------------------------------------------------------------------------------------
# async layer


class _UpEvent:
    def __init__(self, rec: dict, hist: History) -> None:
        self.rec = rec
        self.hist = hist

    def set(self) -> None:
        if self.rec["up"] is None:
            self.rec["up"] = self.hist.stamp()


def _make_async_server(case: dict, backend: Any) -> Any:
    from easynetwork.protocol import DatagramProtocol, StreamProtocol
    from easynetwork.serializers import StringLineSerializer
    from easynetwork.servers.async_tcp import AsyncTCPNetworkServer
    from easynetwork.servers.async_udp import AsyncUDPNetworkServer
    from easynetwork.servers.handlers import AsyncDatagramRequestHandler, AsyncStreamRequestHandler

    init_yields = int(case.get("service_init_yields", 0))
    exit_yields = int(case.get("service_exit_yields", 0))
    hsleep = float(case.get("handler_sleep", 0.0))

    async def _ticks(n: int) -> None:
        for _ in range(n):
            await asyncio.sleep(0)

    class _Common:
        async def service_init(self, exit_stack: contextlib.AsyncExitStack, server: Any) -> None:
            if exit_yields:
                exit_stack.push_async_callback(_ticks, exit_yields)
            await _ticks(init_yields)

    class StreamHandler(_Common, AsyncStreamRequestHandler):  # type: ignore[type-arg,misc]
        async def handle(self, client: Any) -> Any:
            request = yield
            if hsleep:
                await asyncio.sleep(hsleep)
            await client.send_packet(request)

    class DatagramHandler(_Common, AsyncDatagramRequestHandler):  # type: ignore[type-arg,misc]
        async def handle(self, client: Any) -> Any:
            request = yield
            if hsleep:
                await asyncio.sleep(hsleep)
            await client.send_packet(request)

    if case["proto"] == "tcp":
        return AsyncTCPNetworkServer(None, 0, StreamProtocol(StringLineSerializer()), StreamHandler(), backend)
    return AsyncUDPNetworkServer(None, 0, DatagramProtocol(StringLineSerializer()), DatagramHandler(), backend)


async def _async_main(case: dict) -> dict:
    from easynetwork.exceptions import BusyResourceError, ServerAlreadyRunning, ServerClosedError

    from ..memtransports import MemStreamTransport, VerifBackend

    fy = int(case.get("factory_yields", 0))
    lay = int(case.get("listener_aclose_yields", 1))
    burst = int(case.get("burst", 1))

    class Backend(VerifBackend):
        __slots__ = ()

        async def create_tcp_listeners(self, *args: Any, **kwargs: Any) -> Any:
            out = await super().create_tcp_listeners(*args, **kwargs)
            for lst in out:
                lst.script["aclose_yields"] = lay
            return out

        async def create_udp_listeners(self, *args: Any, **kwargs: Any) -> Any:
            out = await super().create_udp_listeners(*args, **kwargs)
            for lst in out:
                lst.script["aclose_yields"] = lay
            return out

    backend = Backend()

    async def factory_hook() -> None:
        async def yields() -> None:
            for _ in range(fy):
                await asyncio.sleep(0)

        if case.get("factory_shielded") and fy:
            # like the real backend, whose listener creation resolves the addresses inside AsyncBackend.gather(), a
            # cancel-shielded await with no further checkpoint before the sockets exist (numeric hosts)
            await backend.ignore_cancellation(yields())
        else:
            await yields()

    backend.listener_factory_hook = factory_hook
    srv = _make_async_server(case, backend)
    hist = History()
    n_clients = 0

    tearing_down = False

    def listeners() -> list[Any]:
        return list(backend.created)

    async def do_op(index: int | str, op: dict, task: int | str, harness: bool = False) -> dict:
        nonlocal n_clients
        rec = hist.new(index, op["op"], task)
        if harness:
            rec["harness"] = True
        kind = op["op"]
        seen_before = listeners() if kind == "close" else []
        rec["start"] = hist.stamp()
        try:
            if kind == "serve":
                await srv.serve_forever(is_up_event=_UpEvent(rec, hist))
            elif kind == "shutdown":
                await srv.shutdown()
                rec["obs"]["is_serving_at_end"] = bool(srv.is_serving())
            elif kind == "close":
                await srv.server_close()
                rec["obs"]["is_listening_at_end"] = bool(srv.is_listening())
                rec["obs"]["is_serving_at_end"] = bool(srv.is_serving())
                rec["obs"]["open_listeners_at_end"] = [i for i, lst in enumerate(seen_before) if not lst.closed]
            elif kind == "activate":
                await srv.server_activate()
            elif kind == "connect":
                open_l = [lst for lst in listeners() if not lst.closed]
                if open_l:
                    n_clients += 1
                    if case["proto"] == "tcp":
                        c = MemStreamTransport(backend, peername=("127.0.0.1", 40000 + n_clients))
                        open_l[-1].connect(c)
                        c.feed(b"ping\n" * burst)
                    else:
                        try:
                            # (several datagrams of one client: all but the first wait in its queue while the handler is busy)
                            for _ in range(burst):
                                open_l[-1].deliver(b"ping", ("127.0.0.1", 40000 + n_clients))
                        except RuntimeError:
                            # the serve task group is already shutting down: with the real asyncio datagram protocol the
                            # same start_soon() failure ends in the loop's exception handler and the datagram is dropped
                            rec["obs"]["dropped"] = True
                    rec["obs"]["connected"] = True
            elif kind == "wait":
                for _ in range(int(op.get("k", 1))):
                    await asyncio.sleep(0)
            else:
                raise HarnessError(f"unknown op {kind!r}")
            rec["result"] = "ok"
        except (ServerAlreadyRunning, ServerClosedError, BusyResourceError) as exc:
            rec["result"] = type(exc).__name__
        except asyncio.CancelledError as exc:
            if tearing_down:
                raise
            # nobody cancels the history tasks: a CancelledError coming out of a lifecycle call is the library's own
            import traceback

            rec["result"] = "exc:CancelledError"
            rec["exc"] = "".join(traceback.format_exception(exc))
        except Exception as exc:  # noqa: BLE001 - judged by the oracle (allowed result classes)
            import traceback

            rec["result"] = f"exc:{type(exc).__name__}"
            rec["exc"] = "".join(traceback.format_exception(exc))
        finally:
            rec["end"] = hist.stamp()
        return rec

    by_task: dict[int, list[tuple[int, dict]]] = {}
    for i, op in enumerate(case["ops"]):
        by_task.setdefault(int(op["task"]), []).append((i, op))

    async def run_task(tid: int, ops: list[tuple[int, dict]]) -> None:
        for i, op in ops:
            for _ in range(int(op.get("delay", 0))):
                await asyncio.sleep(0)
            await do_op(i, op, tid)

    tasks = {asyncio.create_task(run_task(tid, ops), name=f"hist-{tid}") for tid, ops in sorted(by_task.items())}

    async def quiesce(pending: set[asyncio.Task[Any]]) -> set[asyncio.Task[Any]]:
        """returns the tasks still pending once nothing has completed during three consecutive 1000 s virtual waits"""
        idle_rounds = 0
        while pending and idle_rounds < 3:
            done, pending = await asyncio.wait(pending, timeout=1000.0, return_when=asyncio.FIRST_COMPLETED)
            idle_rounds = 0 if done else idle_rounds + 1
            for t in done:
                t.result()  # harness errors surface here
        return pending

    pending = set(tasks)
    stuck: list[dict] = []
    info: dict[str, Any] = {"quiescent_pending": []}
    for rnd in range(len(case["ops"]) + 2):
        pending = await quiesce(pending)
        if not pending:
            break
        running = [r for r in hist.records if r["start"] is not None and r["end"] is None]
        info["quiescent_pending"].append([r["i"] for r in running])
        stuck = [r for r in running if r["op"] != "serve" or r["up"] is None]
        if stuck or len(running) != len(pending):
            stuck = stuck or running
            break
        # (a parked serve_forever need not be is_serving(): after server_close it keeps running until the clients
        # that are still connected have gone - the listeners are closed, which is all the statement asks)
        # parked in a serve_forever that is up: the harness shuts it down (a recorded operation like any other)
        hs = asyncio.create_task(do_op(f"H-shutdown-{rnd}", {"op": "shutdown"}, "H", harness=True))
        if await quiesce({hs}):
            stuck = [r for r in hist.records if r["start"] is not None and r["end"] is None]
            break
    else:
        raise HarnessError("C18 async: history tasks still pending after the last harness shutdown round")
    if not stuck:
        hc = asyncio.create_task(do_op("H-close", {"op": "close"}, "H", harness=True))
        if await quiesce({hc}):
            stuck = [r for r in hist.records if r["start"] is not None and r["end"] is None]
    if stuck:
        tearing_down = True
        for t in tasks:
            t.cancel()
        info["stuck"] = [{"i": r["i"], "op": r["op"], "up": r["up"]} for r in stuck]
    info["history"] = hist.view()
    info["all_listeners_closed"] = all(lst.closed for lst in backend.created)
    info["n_listeners"] = len(backend.created)
    return info


def run_async_case(case: dict) -> Outcome:
    from ..vloop import Deadlock, run_virtual

    logging.disable(logging.CRITICAL)
    try:
        info = run_virtual(_async_main, case, max_ticks=400_000)
    except Deadlock as exc:
        raise Violation("deadlock", f"virtual loop could not make progress: {exc}", proto=case["proto"]) from exc
    recs = info["history"]
    details = {"proto": case["proto"], "history": recs}
    if info.get("stuck"):
        raise Violation(
            "deadlock",
            f"operation(s) never returned although the loop is quiescent: {info['stuck']}",
            **details,
        )
    check_history(recs, owned_schedule=True, details=details)
    if not info["all_listeners_closed"]:
        raise Violation("listener-open-after-close", "a listener is still open after the final server_close", **details)
    nt, classes = classify(recs)
    classes.append(case["proto"])
    return Outcome(nontrivial=nt, classes=tuple(classes))


# ----------------------------------------------------------------------------------------------
# standalone layer (real threads, real loopback sockets)

OP_WATCHDOG_S = float(os.environ.get("VERIF_C18_WATCHDOG_S") or 30.0)  # the override only exists to make sensitivity runs affordable


@st.composite
def st_standalone_case(draw: st.DrawFn, tier: str) -> dict:
    """real threads: the offsets are real sleeps in milliseconds, so the schedule is only aimed, not owned.  Most histories
    start with a race skeleton aimed at the start-up window (widened by a slow event-loop factory: the locks are held until
    the portal exists) or at the tear-down window of a serve_forever."""
    loop_setup_ms = draw(st.sampled_from([0, 2, 5, 10]))
    shape = draw(st.sampled_from(["free", "startup-race", "startup-race", "teardown-race"]))
    ops: list[dict] = []
    if shape == "startup-race":
        ops.append({"op": "serve", "task": 0, "delay_ms": 0})
        ops.append({"op": draw(st.sampled_from(["shutdown", "close", "serve", "shutdown", "close"])), "task": 1, "delay_ms": draw(st.integers(0, loop_setup_ms + 4))})
        if draw(st.booleans()):
            ops.append({"op": draw(st.sampled_from(["shutdown", "close", "serve"])), "task": 2, "delay_ms": draw(st.integers(0, loop_setup_ms + 4))})
    elif shape == "teardown-race":
        a = loop_setup_ms + draw(st.integers(8, 20))
        ops.append({"op": "serve", "task": 0, "delay_ms": 0})
        ops.append({"op": draw(st.sampled_from(["shutdown", "shutdown", "close"])), "task": 1, "delay_ms": a})
        ops.append({"op": draw(st.sampled_from(["serve", "close", "shutdown", "serve"])), "task": 2, "delay_ms": a + draw(st.integers(0, 3))})
    n_tasks = max([o["task"] for o in ops] + [draw(st.integers(1, 2))]) + 1
    n_ops = draw(st.integers(max(2, len(ops)), 6))
    while len(ops) < n_ops:
        op = draw(st.sampled_from(["serve"] * 5 + ["shutdown"] * 5 + ["close"] * 3 + ["connect"]))
        ops.append({"op": op, "task": draw(st.integers(0, n_tasks - 1)), "delay_ms": draw(st.sampled_from([0, 0, 1, 2, 3, 5, 8, 12, 20]))})
    if not any(o["op"] == "serve" for o in ops):
        ops[0]["op"] = "serve"
    case = {
        "proto": draw(st.sampled_from(["tcp", "udp"])),
        "ops": ops,
        "loop_setup_ms": loop_setup_ms,
        "service_init_ms": draw(st.sampled_from([0, 0, 3, 8])),
    }
    if EXCLUDE_S1 and case["service_init_ms"]:
        case["service_init_ms"] = 0
        case["s1_masked"] = True
    return case


class _ThreadUpEvent:
    def __init__(self, rec: dict, hist: History) -> None:
        self.rec = rec
        self.hist = hist

    def set(self) -> None:
        if self.rec["up"] is None:
            self.rec["up"] = self.hist.stamp()


def _make_standalone_server(case: dict, on_service_init: Any) -> Any:
    from easynetwork.protocol import DatagramProtocol, StreamProtocol
    from easynetwork.serializers import StringLineSerializer
    from easynetwork.servers.handlers import AsyncDatagramRequestHandler, AsyncStreamRequestHandler
    from easynetwork.servers.standalone_tcp import StandaloneTCPNetworkServer
    from easynetwork.servers.standalone_udp import StandaloneUDPNetworkServer

    setup_s = int(case.get("loop_setup_ms", 0)) / 1000.0
    init_s = int(case.get("service_init_ms", 0)) / 1000.0

    def loop_factory() -> asyncio.AbstractEventLoop:
        # a slow event-loop construction widens the start-up window (locks held until the portal exists)
        if setup_s:
            time.sleep(setup_s)
        return asyncio.new_event_loop()

    class _Common:
        async def service_init(self, exit_stack: contextlib.AsyncExitStack, server: Any) -> None:
            on_service_init(server)
            if init_s:
                await asyncio.sleep(init_s)

    class StreamHandler(_Common, AsyncStreamRequestHandler):  # type: ignore[type-arg,misc]
        async def handle(self, client: Any) -> Any:
            request = yield
            await client.send_packet(request)

    class DatagramHandler(_Common, AsyncDatagramRequestHandler):  # type: ignore[type-arg,misc]
        async def handle(self, client: Any) -> Any:
            request = yield
            await client.send_packet(request)

    opts = {"loop_factory": loop_factory}
    if case["proto"] == "tcp":
        return StandaloneTCPNetworkServer("127.0.0.1", 0, StreamProtocol(StringLineSerializer()), StreamHandler(), runner_options=opts)
    return StandaloneUDPNetworkServer("127.0.0.1", 0, DatagramProtocol(StringLineSerializer()), DatagramHandler(), runner_options=opts)


class _Hang(Exception):
    pass


def _fileno_or_closed(sock: Any) -> int:
    try:
        return int(sock.fileno())
    except Exception:  # noqa: BLE001 - the socket object is gone
        return -1


def _standalone_once(case: dict) -> dict:
    """one execution of the history with real threads.  Raises _Hang if an operation outlives its watchdog (after having
    torn everything down as far as possible)."""
    from easynetwork.exceptions import BusyResourceError, ServerAlreadyRunning, ServerClosedError

    hist = History()
    init_stamps: list[int] = []
    seen_sockets: list[Any] = []
    seen_lock = threading.Lock()
    client_socks: list[socket.socket] = []

    def on_service_init(async_server: Any) -> None:
        # runs in the server's loop thread, after the listeners were bound: remember the listener sockets without going
        # through the standalone server's locks (that would serialise the history behind the start-up)
        init_stamps.append(hist.stamp())
        try:
            socks = list(async_server.get_sockets())
        except Exception:  # noqa: BLE001 - observation only
            socks = []
        with seen_lock:
            seen_sockets.extend(socks)

    srv = _make_standalone_server(case, on_service_init)

    class Up(_ThreadUpEvent):
        pass

    def do_op(index: int | str, op: dict, task: int | str, harness: bool = False) -> dict:
        rec = hist.new(index, op["op"], task)
        if harness:
            rec["harness"] = True
        kind = op["op"]
        if kind == "close":
            with seen_lock:
                seen_before = list(seen_sockets)
        rec["start"] = hist.stamp()
        try:
            if kind == "serve":
                srv.serve_forever(is_up_event=Up(rec, hist))
            elif kind == "shutdown":
                srv.shutdown()
                rec["end"] = hist.stamp()
                # (is_serving() takes the server's locks, so the sample can be late: it carries its own stamp)
                rec["obs"]["is_serving_at_end"] = bool(srv.is_serving())
                rec["obs"]["sampled_at"] = hist.stamp()
            elif kind == "close":
                srv.server_close()
                rec["end"] = hist.stamp()
                still_open = [i for i, sock in enumerate(seen_before) if _fileno_or_closed(sock) != -1]
                rec["obs"]["open_listeners_at_end"] = list(still_open)
                rec["obs"]["is_serving_at_end"] = bool(srv.is_serving())
                rec["obs"]["sampled_at"] = hist.stamp()
                if still_open:
                    # observation for the oracle: is the listener closed a moment later by somebody else's unwinding?
                    t0 = time.monotonic()
                    while still_open and time.monotonic() - t0 < 2.0:
                        time.sleep(0.005)
                        still_open = [i for i in still_open if _fileno_or_closed(seen_before[i]) != -1]
                    rec["obs"]["open_after_grace"] = list(still_open)
            elif kind == "connect":
                addrs = []
                try:
                    addrs = list(srv.get_addresses())
                except Exception:  # noqa: BLE001 - observation only
                    pass
                if addrs:
                    a = addrs[0]
                    try:
                        if case["proto"] == "tcp":
                            c = socket.create_connection((a.host, a.port), timeout=2.0)
                            c.sendall(b"ping\n")
                        else:
                            c = socket.socket(socket.AF_INET, socket.SOCK_DGRAM)
                            c.sendto(b"ping", (a.host, a.port))
                        client_socks.append(c)
                        rec["obs"]["connected"] = True
                    except OSError:
                        pass
            else:
                raise HarnessError(f"unknown op {kind!r}")
            rec["result"] = "ok"
        except (ServerAlreadyRunning, ServerClosedError, BusyResourceError) as exc:
            rec["result"] = type(exc).__name__
        except HarnessError:
            raise
        except Exception as exc:  # noqa: BLE001 - judged by the oracle
            import traceback

            rec["result"] = f"exc:{type(exc).__name__}"
            rec["exc"] = "".join(traceback.format_exception(exc))
        finally:
            if rec["end"] is None:
                rec["end"] = hist.stamp()
        return rec

    by_task: dict[int, list[tuple[int, dict]]] = {}
    for i, op in enumerate(case["ops"]):
        by_task.setdefault(int(op["task"]), []).append((i, op))

    errors: list[BaseException] = []
    go = threading.Event()

    def run_task(tid: int, ops: list[tuple[int, dict]]) -> None:
        try:
            go.wait()
            for i, op in ops:
                d = int(op.get("delay_ms", 0))
                if d:
                    time.sleep(d / 1000.0)
                do_op(i, op, tid)
        except BaseException as exc:  # noqa: BLE001
            errors.append(exc)

    threads = [threading.Thread(target=run_task, args=(tid, ops), name=f"c18-hist-{tid}", daemon=True) for tid, ops in sorted(by_task.items())]
    for t in threads:
        t.start()
    go.set()

    def settle() -> tuple[str, list[dict]]:
        """'done': every history thread finished; 'parked': every live thread sits in a serve_forever that is up;
        'hang': nothing started, ended or came up for OP_WATCHDOG_S while some call is still running."""
        last_sig: Any = None
        last_progress = time.monotonic()
        while True:
            alive = [t for t in threads if t.is_alive()]
            if not alive:
                return "done", []
            recs = list(hist.records)
            run = [r for r in recs if r["start"] is not None and r["end"] is None and not r.get("harness")]
            sig = (len(recs), sum(r["end"] is not None for r in recs), tuple((r["i"], r["up"]) for r in run))
            if sig != last_sig:
                last_sig = sig
                last_progress = time.monotonic()
            if len(run) == len(alive) and all(r["op"] == "serve" and r["up"] is not None for r in run):
                return "parked", run
            if time.monotonic() - last_progress > OP_WATCHDOG_S:
                return "hang", run
            time.sleep(0.002)

    harness_threads: list[threading.Thread] = []

    def guarded(index: str, op: str) -> bool:
        th = threading.Thread(target=do_op, args=(index, {"op": op}, "H", True), name=f"c18-{index}", daemon=True)
        harness_threads.append(th)
        th.start()
        th.join(OP_WATCHDOG_S)
        if th.is_alive():
            hang.append({"i": index, "op": op, "up": None})
            return False
        return True

    hang: list[dict] = []
    info: dict[str, Any] = {}
    for rnd in range(len(case["ops"]) + 2):
        state, run = settle()
        if state == "done":
            break
        if state == "hang":
            hang.extend({"i": r["i"], "op": r["op"], "up": r["up"]} for r in run)
            break
        # parked in serve_forever: the harness shuts it down (a recorded operation like any other), threads go on
        if not guarded(f"H-shutdown-{rnd}", "shutdown"):
            break
    else:
        raise HarnessError("C18 standalone: history threads still alive after the last harness shutdown round")
    # tear-down so that no thread or socket outlives the case
    if hang:
        guarded("H-shutdown-final", "shutdown")
    guarded("H-close", "close")
    for t in threads:
        t.join(5.0 if hang else OP_WATCHDOG_S)
        if t.is_alive() and not hang:
            hang.append({"i": t.name, "op": "thread", "up": None})
    for c in client_socks:
        with contextlib.suppress(OSError):
            c.close()
    own = set(threads) | set(harness_threads)
    leaked_threads = [t.name for t in threading.enumerate() if t.name.startswith("c18-") and t in own]
    info["thread_objs"] = [t for t in own if t.is_alive()]
    if errors:
        raise HarnessError(f"C18 standalone harness thread failed: {errors[0]!r}")
    info["history"] = hist.view()
    info["service_init_stamps"] = list(init_stamps)
    info["hang"] = hang
    info["leaked_threads"] = leaked_threads
    with seen_lock:
        info["open_sockets_after_final_close"] = [i for i, sock in enumerate(seen_sockets) if _fileno_or_closed(sock) != -1]
    if hang:
        raise _Hang(info)
    return info


_VERDICTS: dict[str, Violation] = {}


def run_standalone_case(case: dict) -> Outcome:
    """The schedule is not owned, so the same case can behave differently from run to run.  The oracle is sound under every
    interleaving, hence one observed violation is a violation: it is remembered for the case, so that the search engine,
    which re-submits a failing case to confirm it, sees a consistent verdict (and a confirmed hang, which costs three
    watchdog periods, is not paid for again).  The observed history is part of the violation details."""
    digest = case_digest(case)
    if digest in _VERDICTS:
        raise _VERDICTS[digest]
    try:
        return _run_standalone_case(case)
    except Violation as v:
        _VERDICTS[digest] = v
        raise


def _run_standalone_case(case: dict) -> Outcome:
    logging.disable(logging.CRITICAL)
    hangs: list[dict] = []
    info: dict | None = None
    for _attempt in range(3):
        try:
            info = _standalone_once(case)
            break
        except _Hang as h:
            hangs.append(h.args[0])
    if info is None:
        message = f"an operation did not return within {OP_WATCHDOG_S}s in three consecutive runs: {hangs[-1]['hang']}"
        raise Violation("hang", message, proto=case["proto"], history=hangs[-1]["history"])
    if hangs:
        # The re-run went through, so the schedule matters.  A call that was merely slow has returned by now; a call
        # that is *still* blocked - one or two whole runs and a further watchdog period later - is deadlocked for good
        # ("no call deadlocks" is violated by one such schedule).
        deadline = time.monotonic() + OP_WATCHDOG_S
        for h in hangs:
            for t in h.get("thread_objs", []):
                t.join(max(0.0, deadline - time.monotonic()))
        stuck = [(h, [t.name for t in h.get("thread_objs", []) if t.is_alive()]) for h in hangs]
        stuck = [(h, names) for h, names in stuck if names]
        if stuck:
            h, names = stuck[0]
            raise Violation(
                "hang",
                f"deadlock: the calls {h['hang']} never returned (threads {names} are still blocked {OP_WATCHDOG_S:.0f}s after a complete "
                f"re-run of the same history, which did not hit the same schedule)",
                proto=case["proto"],
                history=h["history"],
            )
        raise Inconclusive(f"watchdog expired in {len(hangs)} run(s) but not in a re-run: {hangs[0]['hang']}")
    if info["leaked_threads"]:
        raise HarnessError(f"C18 standalone: threads outlived the case: {info['leaked_threads']}")
    recs = info["history"]
    details = {"proto": case["proto"], "history": recs, "service_init_stamps": info["service_init_stamps"]}
    skipped: list[str] = []
    check_history(recs, owned_schedule=False, details=details, init_stamps=info["service_init_stamps"], skipped=skipped)
    if info["open_sockets_after_final_close"]:
        raise Violation("listener-open-after-close", "a listener socket is still open after the final server_close", **details)
    nt, classes = classify(recs)
    classes.append(case["proto"])
    classes.extend(skipped)
    if case.get("s1_masked"):
        classes.append("excluded-S1-by-construction")
    return Outcome(nontrivial=nt, classes=tuple(classes))


# ----------------------------------------------------------------------------------------------
# layer "restart-race": stop a standalone server and serve again at once from another thread, while generated delays are
# injected at the acquisitions of the server's own locks (the locks are created through the module global `threading` of
# lowlevel/_lock.py, which the harness replaces for the construction of the server) so that the windows between "the
# stopped event is set", "the locks are re-taken" and "the portal/server references are reset" are actually crossed.


class _DelayingRLock:
    def __init__(self, delays: dict[int, float], counter: list[int]) -> None:
        import threading as _t

        self._lock = _t.RLock()
        self._delays = delays
        self._counter = counter

    def acquire(self, blocking: bool = True, timeout: float = -1) -> bool:
        i = self._counter[0]
        self._counter[0] += 1
        d = self._delays.get(i)
        if d:
            time.sleep(d)
        return self._lock.acquire(blocking, timeout)

    def release(self) -> None:
        self._lock.release()

    def __enter__(self) -> bool:
        return self.acquire()

    def __exit__(self, *a: Any) -> None:
        self.release()


@st.composite
def st_restart_case(draw: st.DrawFn, tier: str) -> dict:
    n = draw(st.integers(1, 3))
    idx = draw(st.lists(st.integers(0, 24), min_size=n, max_size=n, unique=True))
    return {
        "proto": draw(st.sampled_from(["tcp", "tcp", "udp"])),
        "lock_delays": {str(i): draw(st.sampled_from([0.05, 0.15, 0.4])) for i in idx},
        "restart_gap_ms": draw(st.sampled_from([0, 0, 1, 5])),
        "rounds": draw(st.integers(1, 2)),
    }


def run_restart_case(case: dict) -> Outcome:
    """wall-clock watchdogs decide 'hang' here: a hang counts only if it reproduces in three consecutive runs"""
    hangs = []
    for _attempt in range(3):
        try:
            return _run_restart_case(case)
        except Violation as v:
            if v.kind != "hang":
                raise
            hangs.append(v)
    raise hangs[-1]


def _run_restart_case(case: dict) -> Outcome:
    import threading as _threading
    import types as _types

    import easynetwork.lowlevel._lock as lock_mod

    logging.disable(logging.CRITICAL)
    WATCH = 30.0
    counter = [0]
    delays = {int(k): float(v) for k, v in case["lock_delays"].items()}
    real = lock_mod.threading
    ns = _types.SimpleNamespace(**{k: getattr(real, k) for k in dir(real) if not k.startswith("__")})
    ns.RLock = lambda: _DelayingRLock(delays, counter)
    lock_mod.threading = ns  # type: ignore[assignment]
    try:
        srv = _make_standalone_server({"proto": case["proto"], "service_init_ms": 0, "slow_loop_factory_ms": 0}, lambda s: None)
    finally:
        lock_mod.threading = real
    threads: list[Any] = []
    errors: list[str] = []
    try:

        def serve(up: Any, box: dict) -> None:
            try:
                srv.serve_forever(is_up_event=up)
                box["end"] = "returned"
            except BaseException as exc:  # noqa: BLE001
                box["end"] = f"{type(exc).__name__}: {exc}"

        def start() -> tuple[Any, Any, dict]:
            up = _threading.Event()
            box: dict = {}
            t = _threading.Thread(target=serve, args=(up, box), daemon=True)
            t.start()
            threads.append(t)
            return t, up, box

        t, up, box = start()
        if not up.wait(WATCH):
            raise Inconclusive("first serve_forever did not come up within the watchdog")
        for rnd in range(case["rounds"]):
            stopper = _threading.Thread(target=srv.shutdown, daemon=True)
            stopper.start()
            stopper.join(WATCH)
            if stopper.is_alive():
                raise Violation("hang", f"round {rnd}: shutdown() did not return within {WATCH}s", proto=case["proto"], layer_shape="restart-race")
            # shutdown returned: serving has fully stopped, so the server can serve again at once
            if case["restart_gap_ms"]:
                time.sleep(case["restart_gap_ms"] / 1000)
            t2, up2, box2 = start()
            if not up2.wait(WATCH):
                if box2.get("end"):
                    raise Violation(
                        "restart-refused", f"round {rnd}: serve_forever() right after shutdown() returned ended with {box2['end']}", proto=case["proto"], layer_shape="restart-race"
                    )
                raise Violation("hang", f"round {rnd}: restarted serve_forever() never came up", proto=case["proto"], layer_shape="restart-race")
            t.join(WATCH)
            if t.is_alive():
                raise Violation("hang", f"round {rnd}: the stopped serve_forever() thread never returned", proto=case["proto"], layer_shape="restart-race")
            # let the old thread finish unwinding, then the restarted server must still be under control
            time.sleep(0.05 + max(delays.values(), default=0))
            if not srv.is_serving():
                raise Violation(
                    "restarted-server-lost",
                    f"round {rnd}: serve_forever() came up after shutdown() returned, but is_serving() is False afterwards (old thread: {box.get('end')})",
                    proto=case["proto"],
                    layer_shape="restart-race",
                )
            t, up, box = t2, up2, box2
        stopper = _threading.Thread(target=srv.shutdown, daemon=True)
        stopper.start()
        stopper.join(WATCH)
        t.join(WATCH)
        if stopper.is_alive() or t.is_alive():
            raise Violation("hang", "final shutdown() does not stop the restarted server", proto=case["proto"], layer_shape="restart-race")
        if srv.is_serving():
            raise Violation("still-serving", "is_serving() is True after the final shutdown()", proto=case["proto"], layer_shape="restart-race")
        return Outcome(nontrivial=True, classes=(case["proto"], f"rounds-{case['rounds']}", f"delays-{len(delays)}"))
    finally:
        try:
            closer = _threading.Thread(target=srv.server_close, daemon=True)
            closer.start()
            closer.join(5)
            killer = _threading.Thread(target=srv.shutdown, daemon=True)
            killer.start()
            killer.join(5)
        except Exception:  # noqa: BLE001
            pass
        for th in threads:
            th.join(2)


# ----------------------------------------------------------------------------------------------
# layer "real-listener": AsyncTCPNetworkServer over the REAL asyncio listener sockets (loopback) on the virtual loop, with
# accept() errors injected at generated call indices (EMFILE & co: the listener backs off for 100 ms; ECONNABORTED & co:
# skipped) and lifecycle operations landing inside the back-off window.  A stopped server must serve again.


def _make_accept_fault_loop(script: dict[int, int]) -> Any:
    from ..vloop import VLoop

    class AcceptFaultLoop(VLoop):
        def __init__(self) -> None:
            super().__init__()
            self.accept_calls = 0
            self.real_wait_s = 2.0

        async def sock_accept(self, sock: Any) -> Any:
            i = self.accept_calls
            self.accept_calls += 1
            err = script.get(i)
            if err:
                await asyncio.sleep(0)
                raise OSError(err, os.strerror(err))
            return await super().sock_accept(sock)

    return AcceptFaultLoop


@st.composite
def st_real_listener_case(draw: st.DrawFn, tier: str) -> dict:
    import errno as _errno

    nerr = draw(st.integers(0, 3))
    idx = draw(st.lists(st.integers(0, 6), min_size=nerr, max_size=nerr, unique=True))
    # resource exhaustion (retried after a back-off) and the per-connection network errors which accept(2) passes on and
    # which "should be treated like EAGAIN" (Linux man page): none of them may stop the server
    errnos = [_errno.EMFILE, _errno.ENFILE, _errno.ENOBUFS, _errno.ENOMEM, _errno.ECONNABORTED, _errno.EPROTO]
    errnos += [_errno.EPERM, _errno.ENETDOWN, _errno.ENOPROTOOPT, _errno.EHOSTDOWN, _errno.ENONET, _errno.EHOSTUNREACH, _errno.EOPNOTSUPP, _errno.ENETUNREACH]
    ops = []
    for _ in range(draw(st.integers(1, 3))):
        ops.append(("serve",))
        for _ in range(draw(st.integers(0, 2))):
            ops.append(draw(st.sampled_from([("connect",), ("connect",), ("wait", draw(st.sampled_from([0.0, 0.03, 0.05, 0.1, 0.25])))])))
        ops.append(("shutdown", draw(st.sampled_from([0.0, 0.02, 0.05, 0.15]))))
    ops.append(("serve",))
    ops.append(("connect",))
    return {"accept_errors": {str(i): draw(st.sampled_from(errnos)) for i in idx}, "ops": ops}


def run_real_listener_case(case: dict) -> Outcome:
    from easynetwork.lowlevel.api_async.backend._asyncio.backend import AsyncIOBackend
    from easynetwork.protocol import StreamProtocol
    from easynetwork.serializers import StringLineSerializer
    from easynetwork.servers.async_tcp import AsyncTCPNetworkServer
    from easynetwork.servers.handlers import AsyncStreamRequestHandler

    from ..vloop import Deadlock

    logging.disable(logging.CRITICAL)
    script = {int(k): int(v) for k, v in case["accept_errors"].items()}
    loop_cls = _make_accept_fault_loop(script)
    socks: list[socket.socket] = []
    result: dict[str, Any] = {"echoes": 0, "connects": 0, "restarts": 0}

    class Echo(AsyncStreamRequestHandler):  # type: ignore[type-arg]
        async def handle(self, client: Any) -> Any:
            request = yield
            await client.send_packet(request)

    async def main() -> None:
        loop = asyncio.get_running_loop()
        srv = AsyncTCPNetworkServer("127.0.0.1", 0, StreamProtocol(StringLineSerializer()), Echo(), AsyncIOBackend())
        serve_task: asyncio.Task | None = None
        try:
            for op in [tuple(o) for o in case["ops"]]:
                if op[0] == "serve":
                    if serve_task is not None and not serve_task.done():
                        continue
                    up = asyncio.Event()
                    serve_task = asyncio.create_task(srv.serve_forever(is_up_event=up))
                    waiter = asyncio.create_task(up.wait())
                    done, _ = await asyncio.wait({serve_task, waiter}, return_when=asyncio.FIRST_COMPLETED)
                    if serve_task in done:
                        waiter.cancel()
                        exc = serve_task.exception() if not serve_task.cancelled() else None
                        raise Violation(
                            "cannot-serve-again",
                            f"serve_forever() #{result['restarts']} on a stopped (never closed) server ended at once: {exc!r}",
                            restarts=result["restarts"],
                        )
                    result["restarts"] += 1
                elif op[0] == "connect":
                    if serve_task is None or serve_task.done():
                        continue
                    addr = srv.get_addresses()[0]
                    c = socket.create_connection((addr.host, addr.port), timeout=5)
                    socks.append(c)
                    c.setblocking(False)
                    msg = f"hello-{result['connects']}\n".encode()
                    result["connects"] += 1
                    c.send(msg)
                    got = b""
                    # accept() may be backing off (100 ms per capacity error): allow a few virtual seconds
                    for _ in range(400):
                        try:
                            data = c.recv(100)
                        except BlockingIOError:
                            data = None
                        if data:
                            got += data
                            if got.endswith(b"\n"):
                                break
                        if serve_task.done():
                            break
                        await asyncio.sleep(0.01)
                    if serve_task.done() and not serve_task.cancelled() and serve_task.exception() is not None:
                        raise Violation("server-died", f"serve_forever() died while a client was connecting: {serve_task.exception()!r}")
                    if got != msg:
                        raise Violation("client-not-served", f"client #{result['connects'] - 1} sent {msg!r} and received {got!r} within 4 virtual seconds (accept errors {script})")
                    result["echoes"] += 1
                    c.close()
                elif op[0] == "wait":
                    await asyncio.sleep(op[1])
                elif op[0] == "shutdown":
                    await asyncio.sleep(op[1])
                    if serve_task is not None:
                        await srv.shutdown()
                        await asyncio.wait({serve_task})
                        if not serve_task.cancelled() and serve_task.exception() is not None:
                            raise Violation("server-died", f"serve_forever() ended with {serve_task.exception()!r} after shutdown()")
        finally:
            if serve_task is not None and not serve_task.done():
                await srv.shutdown()
                await asyncio.wait({serve_task})
            await srv.server_close()
            for c in socks:
                c.close()

    runner = asyncio.Runner(loop_factory=loop_cls)
    try:
        with runner:
            runner.run(main())
    except Deadlock as exc:
        raise Violation("hang", f"real-listener history did not finish: {exc}") from exc
    nerr = len(script)
    return Outcome(
        nontrivial=result["restarts"] >= 2 and result["echoes"] >= 1,
        classes=("real-listener", f"accept-errors-{nerr}", f"restarts-{min(result['restarts'], 4)}", f"echoes-{min(result['echoes'], 4)}"),
    )


# ----------------------------------------------------------------------------------------------
# ----------------------------------------------------------------------------------------------
# layer "in-loop": lifecycle calls of the *standalone* object issued from code that runs in the server's own event-loop
# thread (a service_init callback / a later loop callback - the situation of a request handler implementing an
# administrative "close" command).  Only shutdown() is documented as forbidden there; server_close() "Closes the
# server. Thread-safe.".  Whatever it does (close, or refuse with an exception), it must not deadlock the server.


def run_in_loop_case(case: dict) -> Outcome:
    import threading

    logging.disable(logging.CRITICAL)
    result: dict[str, Any] = {}
    done = threading.Event()
    holder: dict[str, Any] = {}

    def on_service_init(async_server: Any) -> None:
        loop = asyncio.get_running_loop()

        def call() -> None:
            t0 = time.monotonic()
            try:
                getattr(holder["srv"], case["op"])()
                result["outcome"] = "returned"
            except BaseException as exc:  # noqa: BLE001
                result["outcome"] = f"raised {type(exc).__name__}"
            result["took"] = time.monotonic() - t0
            done.set()

        if case.get("from") == "executor":
            # a fire-and-forget job in the loop's default executor (what an abandoned run_in_thread() leaves behind), racing
            # a shutdown() issued from outside
            def job() -> None:
                time.sleep(case["delay_ms"] / 1000.0)
                call()

            loop.run_in_executor(None, job)
        else:
            loop.call_later(case["delay_ms"] / 1000.0, call)
        scheduled.set()

    scheduled = threading.Event()
    srv = _make_standalone_server({"proto": case["proto"], "service_init_ms": 0, "loop_setup_ms": 0}, on_service_init)
    holder["srv"] = srv
    up = threading.Event()
    th = threading.Thread(target=lambda: srv.serve_forever(is_up_event=up), name="c18-inloop-serve", daemon=True)
    th.start()
    try:
        if not scheduled.wait(OP_WATCHDOG_S):
            raise HarnessError("standalone server did not reach service_init")
        if case.get("from") == "executor":
            time.sleep(case.get("shutdown_ms", 0) / 1000.0)
            early = threading.Thread(target=srv.shutdown, name="c18-inloop-early-shutdown", daemon=True)
            early.start()
            early.join(IN_LOOP_WATCHDOG_S)
            if early.is_alive() or not done.wait(IN_LOOP_WATCHDOG_S):
                raise Violation(
                    "hang",
                    f"deadlock: {case['op']}() called from a default-executor thread of the standalone server's own event loop while another "
                    f"thread calls shutdown(): shutdown() returned={not early.is_alive()}, {case['op']}() returned={done.is_set()} after {IN_LOOP_WATCHDOG_S}s "
                    "(serve_forever() is joining the executor, the executor thread waits for serve_forever())",
                    op=case["op"],
                    proto=case["proto"],
                    in_loop_thread=False,
                )
        elif not done.wait(IN_LOOP_WATCHDOG_S + case["delay_ms"] / 1000.0):
            raise Violation(
                "hang",
                f"deadlock: {case['op']}() called on the standalone server from its own event-loop thread did not return within "
                f"{IN_LOOP_WATCHDOG_S}s (the loop thread is blocked, no client is served, every later lifecycle call hangs)",
                op=case["op"],
                proto=case["proto"],
                in_loop_thread=True,
            )
    finally:
        # tear-down from this thread; bounded, because a deadlocked server cannot be stopped any more
        stopper = threading.Thread(target=lambda: (srv.shutdown(), srv.server_close()), name="c18-inloop-stop", daemon=True)
        stopper.start()
        stopper.join(5.0)
        th.join(5.0)
    if th.is_alive():
        raise Violation("hang", f"serve_forever() did not end after {case['op']}() from the loop thread and shutdown()/server_close() from outside", op=case["op"], proto=case["proto"])
    return Outcome(nontrivial=True, classes=(f"op-{case['op']}", result.get("outcome", "?"), case["proto"]), note=f"{result.get('outcome')} after {result.get('took', 0):.3f}s")


IN_LOOP_WATCHDOG_S = 6.0


@st.composite
def st_in_loop_case(draw: st.DrawFn, tier: str) -> dict:
    case = {"proto": draw(st.sampled_from(["tcp", "udp"])), "op": "server_close", "delay_ms": draw(st.sampled_from([0, 5, 30]))}
    if draw(st.booleans()):
        case["from"] = "executor"
        case["shutdown_ms"] = draw(st.sampled_from([0, 3, 10, 28, 32]))
    return case



from . import c18_load, c18_startup  # noqa: E402

CHECK = Check(
    id="C18",
    level="exploration",
    rule=(
        "case = history of 2-8 operations from {serve_forever, shutdown, server_close, server_activate, connect-a-client, wait-k-ticks}, "
        "each assigned to one of 1-3 tasks with a tick-exact start offset, x listener-factory / service_init / service tear-down / "
        "listener close durations in ticks (the listener factory optionally cancel-shielded, as the real address resolution is), x TCP|UDP, run on the virtual-time loop against the unmodified async servers over in-memory "
        "listeners (layer async); the same kind of history with 2-3 real threads, loopback sockets and millisecond sleeps against the "
        "standalone servers (layer standalone, schedule randomised not owned); layer in-loop: server_close() of the standalone object called "
        "from a callback in the server's own event-loop thread (must return or raise, never deadlock); layer stop-under-load: shutdown / cancelled serve_forever / "
        "cancelled handler scope against one client that keeps the receive buffers filled (must take effect within the data already received); layer real-startup-race: "
        "close/shutdown/cancel issued 0-30 loop iterations into server_activate()/serve_forever() of a TCP or UDP server on 1-4 real loopback addresses (no socket descriptor may outlive server_close()); layer real-accept-race: shutdown / cancelled serve_forever 0-12 loop iterations after 1-3 real peers connected "
        "(every connection handed to the library is closed by it, not by a finalizer); non-trivial = at least two lifecycle operations overlap "
        "in time, or a serve_forever starts after a shutdown returned; distinct = sha1 of the canonical case JSON"
    ),
    layers=[
        Layer("async", st_async_case, run_async_case, {"quick": 3000, "thorough": 20000}),
        Layer("standalone", st_standalone_case, run_standalone_case, {"quick": 40, "thorough": 200}, case_timeout_s=400.0),
        Layer("restart-race", st_restart_case, run_restart_case, {"quick": 40, "thorough": 80}, case_timeout_s=400.0, shards=8),
        Layer("real-listener", st_real_listener_case, run_real_listener_case, {"quick": 600, "thorough": 4000}),
        Layer("in-loop", st_in_loop_case, run_in_loop_case, {"quick": 16, "thorough": 60}, shards=1, case_timeout_s=60.0),
        c18_load.LAYER,
        c18_startup.LAYER,
        c18_startup.ACCEPT_LAYER,
    ],
    assumptions=[
        "async layer: listeners are in-memory objects handed out by a backend subclass; everything above them (server, task groups, cancel scopes, locks) is the unmodified library on the real asyncio backend, on a virtual clock",
        "standalone layer: real threads; the interleaving is not owned by the harness, the oracle only uses interval-order invariants that hold under every interleaving; a hang counts only if it reproduces in three consecutive runs, otherwise the case is inconclusive",
        "real-listener layer: real loopback listener sockets of the asyncio backend on the virtual loop (real fds are polled; time is virtual), accept() failures injected by overriding the loop's sock_accept at generated call indices",
        "restart-race layer: the standalone server's own RLocks are replaced (through the module global `threading` of lowlevel/_lock.py, during construction only) by locks that sleep at generated acquisition indices; real threads, wall-clock watchdog of 20 s per step",
        "'shutdown returns only after serving stopped' is judged on exact stamps in the async layer and on an is_serving() sample taken by the shutdown caller in the standalone layer",
        "a serve_forever that overlaps another serve_forever and starts after a completed server_close may be refused with ServerAlreadyRunning or ServerClosedError",
    ],
)
