"""Blocking TLS harness: SSLStreamTransport over a real socketpair against the independent TLSPeer, single-threaded.

The selector passed through `selector_factory` is the scheduler: every `select()` call first lets the environment act
(move ciphertext between the peer's BIOs and the harness end of the socketpair, one generated fragment per call towards
the SUT), then reports the *real* readiness of the SUT's fd (polled with timeout 0).  If nothing can happen any more
it either consumes the timeout in virtual time or, with no timeout, raises HarnessHang (a deterministic deadlock)."""

from __future__ import annotations

import select as _select
import selectors
import socket
from typing import Any

from . import tlspeer
from .syncworld import HarnessHang, SpinGuard, World


class TLSPipe:
    def __init__(self, world: World, peer: tlspeer.TLSPeer, frag_to_sut: list[int], *, tcp: bool = False) -> None:
        self.world = world
        self.peer = peer
        self.tcp = tcp
        if tcp:
            # the high-level clients only accept AF_INET/AF_INET6 sockets: a connected loopback pair
            with socket.socket(socket.AF_INET, socket.SOCK_STREAM) as lst:
                lst.bind(("127.0.0.1", 0))
                lst.listen(1)
                self.sut_sock = socket.socket(socket.AF_INET, socket.SOCK_STREAM)
                self.sut_sock.connect(lst.getsockname())
                self.harness_sock, _ = lst.accept()
            for s in (self.sut_sock, self.harness_sock):
                s.setsockopt(socket.IPPROTO_TCP, socket.TCP_NODELAY, 1)
        else:
            self.sut_sock, self.harness_sock = socket.socketpair()
        self.harness_sock.setblocking(False)
        self.to_sut = bytearray()
        self.all_to_sut = bytearray()
        self.all_from_sut = bytearray()
        self.frag = frag_to_sut or [1 << 20]
        self.deliveries = 0
        self.delivered = 0
        self.cut_at: int | None = None
        self.cut_done = False
        self.eof_when_drained = False
        self.auto_close_reply = True
        self.sut_eof = False
        # optional arrival schedule: [(virtual time, cumulative number of bytes of the peer->SUT stream that may have
        # reached the SUT's socket by then)], strictly increasing in both; None = everything is delivered at once
        self.release_schedule: list[tuple[float, int]] | None = None

    def allowed(self) -> int:
        if self.release_schedule is None:
            return 1 << 60
        return max([c for (t, c) in self.release_schedule if t <= self.world.now + 1e-12], default=0)

    def next_release(self) -> float | None:
        if self.release_schedule is None:
            return None
        later = [t for (t, c) in self.release_schedule if t > self.world.now + 1e-12 and c > self.delivered]
        return min(later) if later else None

    def pump(self) -> bool:
        """one environment step; True if anything moved"""
        moved = False
        # everything the SUT wrote reaches the peer at once
        while True:
            try:
                data = self.harness_sock.recv(1 << 16)
            except (BlockingIOError, InterruptedError):
                break
            except OSError:
                break
            if not data:
                if not self.sut_eof:
                    self.sut_eof = True
                    moved = True
                break
            self.all_from_sut += data
            self.peer.feed(data)
            moved = True
        out = self.peer.pump()
        if self.auto_close_reply and self.peer.zero_return and not self.peer.want_close:
            self.peer.close()
            out += self.peer.pump()
        if out:
            self.to_sut += out
            self.all_to_sut += out
            moved = True
        if self.to_sut and not self.cut_done:
            n = max(1, self.frag[self.deliveries % len(self.frag)])
            if self.cut_at is not None:
                n = min(n, self.cut_at - self.delivered)
            n = min(n, self.allowed() - self.delivered)
            if n > 0:
                try:
                    sent = self.harness_sock.send(bytes(self.to_sut[:n]))
                except (BlockingIOError, InterruptedError):
                    sent = 0
                except OSError:
                    sent = 0
                    self.cut_done = True
                if sent:
                    del self.to_sut[:sent]
                    self.delivered += sent
                    self.deliveries += 1
                    moved = True
        if self.cut_at is not None and not self.cut_done and self.delivered >= self.cut_at:
            self._end_connection()
            moved = True
        if (
            self.eof_when_drained
            and not self.cut_done
            and not moved
            and self.peer.handshaken
            and not self.peer.to_write
            and not self.to_sut
        ):
            self._end_connection()
            moved = True
        return moved

    def _end_connection(self) -> None:
        self.cut_done = True
        try:
            self.harness_sock.shutdown(socket.SHUT_WR)
        except OSError:
            pass

    def close(self) -> None:
        for s in (self.sut_sock, self.harness_sock):
            try:
                s.close()
            except OSError:
                pass


class TLSSelector(selectors.BaseSelector):
    def __init__(self, pipe: TLSPipe) -> None:
        self.pipe = pipe
        self._keys: dict[int, selectors.SelectorKey] = {}

    def register(self, fileobj: Any, events: int, data: Any = None) -> selectors.SelectorKey:
        fd = fileobj if isinstance(fileobj, int) else fileobj.fileno()
        if fd < 0:
            raise ValueError("invalid fd")
        key = selectors.SelectorKey(fileobj, fd, events, data)
        self._keys[fd] = key
        return key

    def unregister(self, fileobj: Any) -> selectors.SelectorKey:
        fd = fileobj if isinstance(fileobj, int) else fileobj.fileno()
        return self._keys.pop(fd)

    def get_map(self) -> Any:
        return self._keys

    def close(self) -> None:
        self._keys.clear()

    def _ready(self) -> list[tuple[selectors.SelectorKey, int]]:
        r = [fd for fd, k in self._keys.items() if k.events & selectors.EVENT_READ]
        w = [fd for fd, k in self._keys.items() if k.events & selectors.EVENT_WRITE]
        try:
            rr, ww, _ = _select.select(r, w, [], 0)
        except (OSError, ValueError):
            return [(k, k.events) for k in self._keys.values()]
        out = []
        for fd, key in self._keys.items():
            ev = (selectors.EVENT_READ if fd in rr else 0) | (selectors.EVENT_WRITE if fd in ww else 0)
            if ev:
                out.append((key, ev))
        return out

    def _settle(self) -> bool:
        """loopback TCP delivers within the sending syscall in practice, but that is not a guarantee: before declaring
        quiescence give the kernel a moment (real time, harness side only) to surface in-flight bytes"""
        fds = [fd for fd, k in self._keys.items() if k.events & selectors.EVENT_READ]
        try:
            rr, _, _ = _select.select(fds + ([] if self.pipe.sut_eof else [self.pipe.harness_sock]), [], [], 0.02)
        except (OSError, ValueError):
            return False
        return bool(rr)

    def select(self, timeout: float | None = None) -> list[tuple[selectors.SelectorKey, int]]:
        w = self.pipe.world
        w.select_calls += 1
        if w.select_calls > 500000:
            raise SpinGuard("500000 select() calls")
        if timeout is not None and timeout == float("inf"):
            timeout = None
        for _ in range(1000000):
            moved = self.pipe.pump()
            ready = self._ready()
            if ready:
                return ready
            if not moved:
                if self.pipe.tcp and self._settle():
                    continue
                nxt = self.pipe.next_release()
                if nxt is not None and (timeout is None or nxt <= w.now + timeout):
                    # sleep (virtual time) until the next piece of the stream arrives
                    if timeout is not None:
                        timeout -= nxt - w.now
                    w.total_waited += nxt - w.now
                    w.now = nxt
                    continue
                if timeout is None:
                    raise HarnessHang("TLS transport waits although neither side has anything in flight")
                w.now += max(0.0, timeout)
                w.total_waited += max(0.0, timeout)
                return []
        raise SpinGuard("environment pump does not settle")


def selector_factory_for(pipe: TLSPipe):  # noqa: ANN201
    def factory() -> TLSSelector:
        return TLSSelector(pipe)

    return factory
