"""./check <ID> [--tier quick|thorough] [--replay path] — see DESIGN.md section 1 for the protocol.

exit 0: property held on everything explored (KNOWN-FINDING lines may be printed)
exit 1: at least one line "VIOLATION property=<id> replay=<path>"
exit 2: harness error (never a violation)
"""

from __future__ import annotations

import argparse
import faulthandler
import glob
import importlib
import json
import os
import subprocess
import sys
import threading
import time
from concurrent.futures import ThreadPoolExecutor
from typing import Any

from . import core
from .core import Check, HarnessError, Inconclusive, Layer, Outcome, Stats, Violation

_current: dict[str, Any] = {"case": None, "t0": 0.0, "layer": None, "check": None}


# ----------------------------------------------------------------------------------------------


def execute(check: Check, layer: Layer, case: dict) -> Outcome:
    """Run one case; translate unexpected exceptions."""
    _current.update(case=case, t0=time.monotonic(), layer=layer, check=check)
    try:
        out = layer.run(case)
        if not isinstance(out, Outcome):
            raise HarnessError(f"{check.id}/{layer.name}: run() returned {out!r}")
        return out
    except Violation:
        raise
    except Inconclusive as exc:
        return Outcome(inconclusive=True, note=str(exc))
    except HarnessError:
        raise
    except (KeyboardInterrupt, SystemExit):
        raise
    except BaseException as exc:  # noqa: BLE001
        if core.exception_from_sut(exc):
            raise Violation(
                "unexpected-exception",
                f"{type(exc).__name__}: {exc}",
                exc_type=type(exc).__name__,
                traceback=core.format_exc(exc),
            ) from exc
        raise HarnessError(f"{check.id}/{layer.name}: harness raised {type(exc).__name__}: {exc}\n{core.format_exc(exc)}") from exc
    finally:
        _current.update(case=None)


def _watchdog(check_id: str, limit_s: float) -> None:
    """Per-case wall-clock guard.  A case that does not return within `limit_s` is a harness hang (exit 2)
    unless the layer declares hang_is_violation (pure-CPU parsing code where 'never hangs' is the property)."""

    def loop() -> None:
        while True:
            time.sleep(1.0)
            case = _current["case"]
            if case is None:
                continue
            lay = _current["layer"]
            lim = getattr(lay, "case_timeout_s", None) or limit_s
            if time.monotonic() - _current["t0"] > lim:
                faulthandler.dump_traceback(file=sys.stderr)
                if getattr(lay, "hang_is_violation", False):
                    v = Violation("hang", f"case did not return within {lim}s wall clock")
                    path = core.save_replay(check_id, case, v)
                    print(f"VIOLATION property={check_id} replay={path} kind=hang", flush=True)
                    os._exit(1)
                path = core.save_replay(check_id, case, None, directory=os.path.join(core.VERIF_ROOT, "replays", "hangs"))
                print(f"HARNESS-HANG property={check_id} layer={lay.name} case={path}", flush=True)
                os._exit(2)

    t = threading.Thread(target=loop, daemon=True, name="verif-watchdog")
    t.start()


# ----------------------------------------------------------------------------------------------


class Run:
    def __init__(self, check: Check, tier: str, seed: int, only_layer: str | None, examples_override: int | None) -> None:
        self.check = check
        self.tier = tier
        self.seed = seed
        self.only_layer = only_layer
        self.examples_override = examples_override
        self.stats = Stats()
        self.kf = core.load_known_findings()
        self.violations: list[tuple[dict, Violation]] = []
        self.known_lines: dict[str, str] = {}

    # -- one case, with known-finding handling; returns True if it violated (unknown finding)
    def run_one(self, layer: Layer, case: dict, raise_violation: bool) -> None:
        try:
            out = execute(self.check, layer, case)
        except Violation as v:
            entry = core.match_known(self.check.id, v, case, self.kf.get("known", []))
            if entry is not None:
                self.stats.known_seen[entry["id"]] += 1
                self.known_lines[entry["id"]] = entry["summary"]
                return
            if raise_violation:
                raise
            self.violations.append((case, v))
            return
        self.stats.record(case, out)

    def layers(self) -> list[Layer]:
        return [lay for lay in self.check.layers if self.only_layer in (None, lay.name)]

    # -- replay tier
    def run_replays(self) -> None:
        pattern = os.path.join(core.VERIF_ROOT, "replays", f"{self.check.id}-*.json")
        for path in sorted(glob.glob(pattern)):
            case = core.load_replay(path)
            layer = self.check.layer(case["layer"])
            if self.only_layer not in (None, layer.name):
                continue
            before = len(self.violations)
            self.run_one(layer, case, raise_violation=False)
            if len(self.violations) > before:
                # keep the committed replay path for the report
                self.violations[-1] = (dict(self.violations[-1][0], __replay_path=path), self.violations[-1][1])

    # -- exhaustive sub-domains
    def run_enumeration(self, layer: Layer, shard: tuple[int, int] | None) -> None:
        if layer.enumerate is None:
            return
        complete = True
        for i, case in enumerate(layer.enumerate(self.tier)):
            if shard is not None and i % shard[1] != shard[0]:
                continue
            case = dict(case, layer=layer.name)
            before = len(self.violations)
            self.run_one(layer, case, raise_violation=False)
            if len(self.violations) > before:
                complete = False
                break
        if complete and layer.name not in self.stats.exhaustive_layers:
            self.stats.exhaustive_layers.append(layer.name)

    # -- generated search
    def run_hypothesis(self, layer: Layer, seed: int) -> None:
        import hypothesis
        from hypothesis import HealthCheck, Phase, given, settings
        from hypothesis import errors as herrors

        n = self.examples_override or layer.examples.get(self.tier, 0)
        if n <= 0 or layer.strategy is None:
            return
        strat = layer.strategy(self.tier)
        failing: dict[str, Any] = {}
        t_start = time.monotonic()
        phases = [Phase.generate, Phase.shrink]

        @hypothesis.seed(seed)
        @settings(
            max_examples=n,
            database=None,
            deadline=None,
            derandomize=False,
            report_multiple_bugs=False,
            print_blob=False,
            phases=phases,
            suppress_health_check=[HealthCheck.too_slow, HealthCheck.data_too_large, HealthCheck.large_base_example],
        )
        @given(strat)
        def test(case: dict) -> None:
            case = dict(case, layer=layer.name)
            try:
                self.run_one(layer, case, raise_violation=True)
            except Violation as v:
                failing["case"] = case
                failing["violation"] = v
                raise

        try:
            test()
        except Violation:
            self.violations.append((failing["case"], failing["violation"]))
        except herrors.Flaky as exc:
            # the failing case did not reproduce: re-run it directly three times
            if "case" in failing:
                hits = 0
                for _ in range(3):
                    try:
                        execute(self.check, layer, failing["case"])
                    except Violation:
                        hits += 1
                if hits:
                    self.violations.append((failing["case"], failing["violation"]))
                else:
                    self.stats.inconclusive += 1
                    core.eprint(f"[{self.check.id}/{layer.name}] flaky failure did not reproduce: {failing['violation']}")
            else:
                raise HarnessError(f"{self.check.id}/{layer.name}: hypothesis Flaky without recorded case: {exc}") from exc
        except (herrors.FailedHealthCheck, herrors.Unsatisfiable, herrors.InvalidArgument) as exc:
            raise HarnessError(f"{self.check.id}/{layer.name}: generator problem: {exc}") from exc
        core.eprint(
            f"[{self.check.id}/{layer.name}] {self.stats.per_layer[layer.name]} cases, "
            f"{self.stats.per_layer_nt[layer.name]} distinct non-trivial, {time.monotonic() - t_start:.1f}s"
        )


# ----------------------------------------------------------------------------------------------


def load_check(check_id: str) -> Check:
    mod = importlib.import_module(f"pbt.checks.{check_id.lower()}")
    chk = mod.CHECK
    if chk.id != check_id:
        raise HarnessError(f"module for {check_id} declares {chk.id}")
    return chk


def assert_repo_under_test() -> None:
    import easynetwork

    if not os.path.realpath(easynetwork.__file__).startswith(core.REPO_SRC + "/"):
        raise HarnessError(f"easynetwork imported from {easynetwork.__file__}, expected {core.REPO_SRC}")


def report(run: Run, wall: float, write_evidence: bool = True) -> int:
    check = run.check
    run.stats.violations = len(run.violations)
    if write_evidence:
        core.write_evidence(check, run.tier, run.seed, run.stats, wall)
    for kid, summary in sorted(run.known_lines.items()):
        print(f"KNOWN-FINDING: property={check.id} {kid}: {summary}", flush=True)
    if run.violations:
        seen = set()
        for case, v in run.violations:
            path = case.pop("__replay_path", None) or core.save_replay(check.id, case, v)
            if path in seen:
                continue
            seen.add(path)
            print(f"VIOLATION property={check.id} replay={path} kind={v.kind} :: {v.message[:300]}", flush=True)
        return 1
    print(
        f"OK property={check.id} tier={run.tier} seed={run.seed} evaluations={run.stats.evaluations} "
        f"distinct_nontrivial={len(run.stats.nontrivial_digests)} inconclusive={run.stats.inconclusive} wall={wall:.1f}s",
        flush=True,
    )
    return 0


def main(argv: list[str] | None = None) -> int:
    ap = argparse.ArgumentParser()
    ap.add_argument("check_id")
    ap.add_argument("--tier", default=os.environ.get("VERIF_TIER") or "quick", choices=["quick", "thorough"])
    ap.add_argument("--replay")
    ap.add_argument("--layer")
    ap.add_argument("--examples", type=int)
    ap.add_argument("--shard")  # i/N (internal)
    ap.add_argument("--partial-out")
    ap.add_argument("--no-evidence", action="store_true")
    ap.add_argument("--case-timeout", type=float, default=None)
    args = ap.parse_args(argv)
    if args.case_timeout is None:
        # wall-clock guard per case (a harness hang, never a verdict): thorough runs load all 16 cores, and a busy machine
        # must not turn a slow case into a failed run
        args.case_timeout = 120.0 if args.tier == "quick" else 400.0

    seed = int(os.environ.get("VERIF_SEED") or "1")
    t0 = time.monotonic()
    try:
        assert_repo_under_test()
        check = load_check(args.check_id)
        _watchdog(check.id, args.case_timeout)
        run = Run(check, args.tier, seed, args.layer, args.examples)

        if args.replay:
            case = core.load_replay(args.replay)
            layer = check.layer(case["layer"])
            try:
                out = execute(check, layer, case)
            except Violation as v:
                entry = core.match_known(check.id, v, case, run.kf.get("known", []))
                if entry is not None:
                    print(f"KNOWN-FINDING: property={check.id} {entry['id']}: {entry['summary']}")
                    return 0
                print(f"VIOLATION property={check.id} replay={args.replay} kind={v.kind} :: {v.message[:2000]}")
                for k, val in v.details.items():
                    print(f"  {k}: {str(val)[:2000]}")
                return 1
            print(f"OK replay property={check.id} nontrivial={out.nontrivial} classes={out.classes} note={out.note}")
            return 0

        shard = None
        if args.shard:
            i, n = args.shard.split("/")
            shard = (int(i), int(n))

        if args.tier == "thorough" and shard is None:
            rc = run_sharded(run, args)
            return rc

        if shard is None or shard[0] == 0:
            run.run_replays()
        for layer in run.layers():
            if shard is not None and shard[0] >= layer.shards:
                continue
            eshard = (shard[0], min(shard[1], layer.shards)) if shard is not None else None
            run.run_enumeration(layer, eshard)
            lseed = seed if shard is None else seed * 1000 + shard[0]
            run.run_hypothesis(layer, lseed)

        wall = time.monotonic() - t0
        if args.partial_out:
            part = run.stats.to_partial()
            part["violation_cases"] = [
                {"case": core.to_jsonable(c), "kind": v.kind, "message": v.message, "details": core.abbreviate(core._safe(v.details))}
                for c, v in run.violations
            ]
            part["known_lines"] = run.known_lines
            with open(args.partial_out, "w") as f:
                json.dump(part, f)
            return 1 if run.violations else 0
        return report(run, wall, write_evidence=not args.no_evidence)
    except HarnessError as exc:
        print(f"HARNESS-ERROR property={args.check_id}: {exc}", flush=True)
        return 2
    except Exception as exc:  # noqa: BLE001
        print(f"HARNESS-ERROR property={args.check_id}: {type(exc).__name__}: {exc}\n{core.format_exc(exc)}", flush=True)
        return 2


def run_sharded(run: Run, args: argparse.Namespace) -> int:
    t0 = time.monotonic()
    nshards = int(os.environ.get("VERIF_SHARDS") or "16")
    pdir = os.path.join(core.VERIF_ROOT, "partials", f"{run.check.id}-{os.getpid()}")
    os.makedirs(pdir, exist_ok=True)
    base = [sys.executable, "-u", "-X", "faulthandler", "-m", "pbt.run", run.check.id, "--tier", "thorough"]
    if args.layer:
        base += ["--layer", args.layer]
    if args.examples:
        base += ["--examples", str(args.examples)]
    base += ["--case-timeout", str(args.case_timeout)]

    def one(i: int) -> tuple[int, int, str]:
        out = os.path.join(pdir, f"shard{i}.json")
        p = subprocess.run(
            base + ["--shard", f"{i}/{nshards}", "--partial-out", out],
            cwd=core.VERIF_ROOT,
            capture_output=True,
            text=True,
        )
        sys.stderr.write(p.stderr[-3000:])
        return i, p.returncode, p.stdout

    harness_failed = False
    with ThreadPoolExecutor(nshards) as ex:
        results = list(ex.map(one, range(nshards)))
    for i, rc, out in results:
        ppath = os.path.join(pdir, f"shard{i}.json")
        if rc == 1 and not os.path.exists(ppath):
            # watchdog-reported hang violation
            sys.stdout.write(out)
            run.violations.append(({"layer": "?", "__replay_path": _parse_replay(out)}, Violation("hang", "see shard output")))
            continue
        if rc not in (0, 1) or not os.path.exists(ppath):
            harness_failed = True
            sys.stdout.write(out)
            continue
        with open(ppath) as f:
            part = json.load(f)
        run.stats.merge_partial(part)
        run.known_lines.update(part.get("known_lines", {}))
        for vc in part["violation_cases"]:
            run.violations.append((core.from_jsonable(vc["case"]), Violation(vc["kind"], vc["message"], **(vc["details"] or {}))))
        os.unlink(ppath)
    try:
        os.rmdir(pdir)
    except OSError:
        pass
    if harness_failed and not run.violations:
        print(f"HARNESS-ERROR property={run.check.id}: a shard failed", flush=True)
        return 2
    return report(run, time.monotonic() - t0, write_evidence=not args.no_evidence)


def _parse_replay(out: str) -> str:
    for line in out.splitlines():
        if line.startswith("VIOLATION") and "replay=" in line:
            return line.split("replay=")[1].split()[0]
    return "?"


if __name__ == "__main__":
    _code = main()
    sys.stdout.flush()
    sys.stderr.flush()
    # (not sys.exit: threads leaked by a dead-locked server under test - e.g. asyncio's non-daemon executor threads - must not
    # keep a run that has already reported its verdict from ending)
    os._exit(_code if isinstance(_code, int) else 1)
