"""Datagram-side harness pieces (C05): one-shot specs of the serializer zoo, the isolated reference decode,
scripted in-memory datagram transports for the blocking and the asynchronous endpoint.

Nothing here touches a real socket; the loopback-UDP layer lives in the check module itself.
"""

from __future__ import annotations

import asyncio
import math
from typing import Any

from hypothesis import strategies as st

from easynetwork.exceptions import DatagramProtocolParseError
from easynetwork.lowlevel.api_async.backend._asyncio.backend import AsyncIOBackend
from easynetwork.lowlevel.api_async.transports import abc as _atransports
from easynetwork.lowlevel.api_sync.transports import abc as _transports
from easynetwork.serializers.abc import AbstractIncrementalPacketSerializer

from . import zoo
from .core import HarnessError, Violation

PICKLE = {"kind": "pickle", "restricted": True}

# kinds whose one-shot deserialize() promises an error for too little *and* too much data
# (struct.unpack needs the exact size; default abc.deserialize / FileBased / Pickle document "missing data" and
# "extra data"; compressors document "ended before the end-of-stream marker" and "trailing data")
_EXACT_KINDS = {"struct", "namedtuple", "fixed", "hfile", "lenprefixed", "pickle", "zlib", "bz2"}


def promises_exact(spec: dict) -> bool:
    k = spec["kind"]
    if k == "stapled":
        return promises_exact(spec["recv"])
    return k in _EXACT_KINDS


def uses_default_oneshot(serializer: Any) -> bool:
    """True if serialize()/deserialize() are the defaults of serializers/abc.py (derived from the incremental API)."""
    return (
        isinstance(serializer, AbstractIncrementalPacketSerializer)
        and type(serializer).serialize is AbstractIncrementalPacketSerializer.serialize
        and type(serializer).deserialize is AbstractIncrementalPacketSerializer.deserialize
    )


@st.composite
def st_datagram_spec(draw: st.DrawFn) -> dict:
    """every zoo entry usable in one-shot mode: all stream specs + Pickle + the one-shot stapled shape;
    converter on in about a third of the cases (the flag drawn by st_stream_spec is overridden)."""
    which = draw(st.integers(0, 15))
    if which == 0:
        spec: dict = dict(PICKLE)
    elif which == 1:
        # both halves non-incremental -> plain StapledPacketSerializer (third dispatch shape)
        spec = {"kind": "stapled", "sent": dict(PICKLE), "recv": dict(PICKLE)}
    elif which == 2:
        spec = {"kind": "lenprefixed"}  # the default one-shot path of serializers/abc.py, kept frequent
    elif which == 3:
        spec = {"kind": "stapled", "sent": {"kind": "lenprefixed"}, "recv": {"kind": "lenprefixed"}}
    else:
        spec = draw(zoo.st_stream_spec())
    spec = {k: v for k, v in spec.items() if k != "conv"}
    if draw(st.integers(0, 2)) == 0:
        spec["conv"] = True
    return spec


def expected_oneshot(entry: zoo.Entry, j: Any) -> Any:
    """what a datagram endpoint must return for sent packet j (no stream framing: keep_end never adds anything)"""
    dto = entry.to_dto(j)
    return zoo.Wrapped(dto) if entry.conv else dto


def marked_packet(spec: dict) -> Any | None:
    """a valid packet that the harness converter refuses (PacketConversionError), if the kind can carry one"""
    k = spec["kind"]
    if k == "stapled":
        return marked_packet(spec["sent"])
    if k in ("base64", "zlib", "bz2"):
        return marked_packet(spec["inner"])
    if k in ("line", "json", "pickle"):
        return "!bad"
    if k in ("autosep", "hfile", "lenprefixed"):
        return b"!bad"
    if k == "fixed" and spec["size"] == 4:
        return b"!bad"
    return None


def reference(spec: dict, datagram: bytes) -> tuple:
    """the result of this datagram *alone*: a fresh serializer + protocol instance sees nothing else"""
    proto = zoo.build(spec).datagram_protocol()
    try:
        pkt = proto.build_packet_from_datagram(datagram)
    except DatagramProtocolParseError as exc:
        return ("err", type(exc.error).__name__)
    return ("pkt", pkt)


def same_output(a: tuple, b: tuple) -> bool:
    if a[0] != b[0]:
        return False
    if a[0] == "pkt":
        return zoo.strict_eq(a[1], b[1])
    return a[1] == b[1]


def show(o: tuple) -> str:
    return f"{o[0]}:{o[1]!r:.120}"


# ----------------------------------------------------------------------------------------------
# blocking side


class ScriptedDatagramTransport(_transports.DatagramTransport):
    """in-memory DatagramTransport: an inbound queue of datagrams, a record of what was sent, and a script of
    TimeoutError faults (`timeouts_before[i]` = how many recv() calls time out before inbound datagram i)."""

    __slots__ = ("inbound", "sent", "recv_calls", "send_calls", "timeouts_before", "_pos", "_closed", "timeouts_seen")

    def __init__(self, inbound: list[bytes], timeouts_before: dict[int, int] | None = None) -> None:
        super().__init__()
        self.inbound = list(inbound)
        self.sent: list[bytes] = []
        self.recv_calls = 0
        self.send_calls = 0
        self.timeouts_before = dict(timeouts_before or {})
        self.timeouts_seen: list[float] = []
        self._pos = 0
        self._closed = False

    def close(self) -> None:
        self._closed = True

    def is_closed(self) -> bool:
        return self._closed

    def recv(self, timeout: float) -> bytes:
        if self._closed:
            raise HarnessError("recv() on a closed scripted transport")
        if not isinstance(timeout, (int, float)) or timeout < 0 or timeout != timeout:
            raise Violation("bad-timeout", f"transport.recv() called with timeout={timeout!r}")
        self.recv_calls += 1
        self.timeouts_seen.append(timeout)
        if self.timeouts_before.get(self._pos, 0) > 0:
            self.timeouts_before[self._pos] -= 1
            raise TimeoutError("scripted timeout")
        if self._pos >= len(self.inbound):
            raise HarnessError("scripted transport ran out of datagrams")
        d = self.inbound[self._pos]
        self._pos += 1
        return d

    def send(self, data: bytes | bytearray | memoryview, timeout: float) -> None:
        if self._closed:
            raise HarnessError("send() on a closed scripted transport")
        if not isinstance(timeout, (int, float)) or timeout < 0 or timeout != timeout:
            raise Violation("bad-timeout", f"transport.send() called with timeout={timeout!r}")
        self.send_calls += 1
        self.sent.append(bytes(data))

    @property
    def delivered(self) -> int:
        return self._pos


# ----------------------------------------------------------------------------------------------
# asynchronous side (real AsyncIOBackend; no sockets, no clock: only bare loop checkpoints)


class MemAsyncDatagramTransport(_atransports.AsyncDatagramTransport):
    """in-memory AsyncDatagramTransport.  recv()/send() suspend for a scripted number of bare checkpoints
    (asyncio.sleep(0)) so that a concurrently running sender/receiver task interleaves at generated points."""

    __slots__ = ("inbound", "sent", "recv_calls", "send_calls", "recv_yields", "send_yields", "_pos", "_closing", "_backend")

    def __init__(self, backend: AsyncIOBackend, inbound: list[bytes], recv_yields: list[int], send_yields: list[int]) -> None:
        super().__init__()
        self._backend = backend
        self.inbound = list(inbound)
        self.sent: list[bytes] = []
        self.recv_calls = 0
        self.send_calls = 0
        self.recv_yields = list(recv_yields) or [0]
        self.send_yields = list(send_yields) or [0]
        self._pos = 0
        self._closing = False

    async def aclose(self) -> None:
        self._closing = True
        await asyncio.sleep(0)

    def is_closing(self) -> bool:
        return self._closing

    def backend(self) -> AsyncIOBackend:
        return self._backend

    async def recv(self) -> bytes:
        if self._closing:
            raise HarnessError("recv() on a closed in-memory transport")
        k = self.recv_calls
        self.recv_calls += 1
        for _ in range(self.recv_yields[k % len(self.recv_yields)]):
            await asyncio.sleep(0)
        if self._pos >= len(self.inbound):
            raise HarnessError("in-memory transport ran out of datagrams")
        d = self.inbound[self._pos]
        self._pos += 1
        return d

    async def send(self, data: bytes | bytearray | memoryview) -> None:
        if self._closing:
            raise HarnessError("send() on a closed in-memory transport")
        k = self.send_calls
        self.send_calls += 1
        # commit first, then wait: what transport.sendto() + drain does in the real adapter
        self.sent.append(bytes(data))
        for _ in range(self.send_yields[k % len(self.send_yields)]):
            await asyncio.sleep(0)


INF = math.inf
