"""Shared runner machinery: cases as data, violation protocol, evidence, replays, known findings.

A *check* (one per property) is a module ``pbt.checks.cNN`` exposing ``CHECK``: an instance of
:class:`Check` made of one or more :class:`Layer`.  A layer has a Hypothesis strategy producing
JSON-serialisable *cases* and a pure function ``run(case) -> Outcome``.
"""

from __future__ import annotations

import dataclasses
import hashlib
import json
import os
import sys
import time
import traceback
from collections import Counter
from collections.abc import Callable, Iterable
from typing import Any

VERIF_ROOT = os.path.dirname(os.path.dirname(os.path.abspath(__file__)))
REPO_SRC = os.path.realpath(os.environ.get("VERIF_REPO_SRC") or "/repo/src")


# ----------------------------------------------------------------------------------------------
# exceptions


class Violation(Exception):
    """The property under test does not hold for this case."""

    def __init__(self, kind: str, message: str, **details: Any) -> None:
        super().__init__(f"[{kind}] {message}")
        self.kind = kind
        self.message = message
        self.details = details


class HarnessError(Exception):
    """The harness itself is broken (never reported as a violation)."""


class Inconclusive(Exception):
    """The case could not be decided (e.g. wall-clock watchdog in a real-thread sub-check)."""


# ----------------------------------------------------------------------------------------------
# JSON <-> case data (bytes and tuples are tagged)


def to_jsonable(obj: Any) -> Any:
    if isinstance(obj, (bytes, bytearray, memoryview)):
        return {"$b": bytes(obj).hex()}
    if isinstance(obj, tuple):
        return {"$t": [to_jsonable(x) for x in obj]}
    if isinstance(obj, list):
        return [to_jsonable(x) for x in obj]
    if isinstance(obj, dict):
        out = {}
        for k, v in obj.items():
            if not isinstance(k, str):
                return {"$d": [[to_jsonable(k2), to_jsonable(v2)] for k2, v2 in obj.items()]}
            out[k] = to_jsonable(v)
        return out
    if isinstance(obj, float):
        if obj != obj:
            return {"$f": "nan"}
        if obj in (float("inf"), float("-inf")):
            return {"$f": "inf" if obj > 0 else "-inf"}
        return obj
    if obj is None or isinstance(obj, (str, int, bool)):
        return obj
    if dataclasses.is_dataclass(obj):
        return {"$dc": type(obj).__name__, "v": to_jsonable(dataclasses.asdict(obj))}
    raise HarnessError(f"case value not serialisable: {type(obj)!r}")


def from_jsonable(obj: Any) -> Any:
    if isinstance(obj, list):
        return [from_jsonable(x) for x in obj]
    if isinstance(obj, dict):
        if len(obj) == 1:
            if "$b" in obj:
                return bytes.fromhex(obj["$b"])
            if "$t" in obj:
                return tuple(from_jsonable(x) for x in obj["$t"])
            if "$f" in obj:
                return float(obj["$f"])
            if "$d" in obj:
                return {_hashable(from_jsonable(k)): from_jsonable(v) for k, v in obj["$d"]}
        return {k: from_jsonable(v) for k, v in obj.items()}
    return obj


def _hashable(x: Any) -> Any:
    if isinstance(x, list):
        return tuple(_hashable(i) for i in x)
    return x


def canonical(case: Any) -> str:
    return json.dumps(to_jsonable(case), sort_keys=True, separators=(",", ":"))


def case_digest(case: Any) -> str:
    return hashlib.sha1(canonical(case).encode()).hexdigest()


def abbreviate(obj: Any, maxlen: int = 160) -> Any:
    """Shorten long byte/str values for evidence samples (still an actual case, abbreviated)."""
    if isinstance(obj, (bytes, bytearray)):
        b = bytes(obj)
        if len(b) > maxlen // 2:
            return f"<{len(b)} bytes {b[: maxlen // 4].hex()}..{b[-8:].hex()}>"
        return f"hex:{b.hex()}"
    if isinstance(obj, str):
        return obj if len(obj) <= maxlen else f"{obj[:maxlen]}...<{len(obj)} chars>"
    if isinstance(obj, (list, tuple)):
        items = [abbreviate(x, maxlen) for x in obj[:24]]
        if len(obj) > 24:
            items.append(f"...<{len(obj)} items>")
        return items
    if isinstance(obj, dict):
        return {str(k): abbreviate(v, maxlen) for k, v in obj.items()}
    if isinstance(obj, float) and (obj != obj or obj in (float("inf"), float("-inf"))):
        return repr(obj)
    return obj


# ----------------------------------------------------------------------------------------------
# outcome / layers / checks


@dataclasses.dataclass
class Outcome:
    nontrivial: bool = False
    classes: tuple[str, ...] = ()
    note: str = ""
    inconclusive: bool = False
    extra: dict | None = None  # Stats partial of a nested campaign (coverage-guided engine): merged into the evidence counters


@dataclasses.dataclass
class Layer:
    name: str
    strategy: Callable[[str], Any]  # tier -> hypothesis strategy of cases (dicts); None if enumerate-only
    run: Callable[[dict], Outcome]
    examples: dict[str, int]  # tier -> max_examples (per shard in thorough)
    enumerate: Callable[[str], Iterable[dict]] | None = None  # tier -> finite list of cases (exhaustive sub-domain)
    stateful_steps: int = 0
    shards: int = 16  # thorough only
    hang_is_violation: bool = False  # pure-CPU layers where "never hangs" is part of the property
    case_timeout_s: float | None = None


@dataclasses.dataclass
class Check:
    id: str
    level: str
    rule: str
    layers: list[Layer]
    assumptions: list[str]
    exhaustive_note: str = ""

    def layer(self, name: str) -> Layer:
        for lay in self.layers:
            if lay.name == name:
                return lay
        raise HarnessError(f"{self.id}: unknown layer {name!r}")


# ----------------------------------------------------------------------------------------------
# known findings


def load_known_findings() -> dict:
    path = os.path.join(VERIF_ROOT, "known_findings.json")
    if not os.path.exists(path):
        return {"known": [], "fixed": []}
    with open(path) as f:
        return json.load(f)


def match_known(check_id: str, violation: Violation, case: dict, known: list[dict]) -> dict | None:
    """A known finding is keyed by property, layer, violation kind and a set of `where` key/values that
    must all be present in violation.details (the specific call site / shape), never by property alone."""
    for entry in known:
        if entry.get("property") != check_id:
            continue
        m = entry.get("match", {})
        if m.get("layer") not in (None, case.get("layer")):
            continue
        if m.get("kind") not in (None, violation.kind):
            continue
        if m.get("kinds") is not None and violation.kind not in m["kinds"]:
            continue
        where = m.get("where", {})
        if all(violation.details.get(k) == v for k, v in where.items()):
            return entry
    return None


def raise_preferring_unknown(check_id: str, case: dict, violations: list[Violation]) -> None:
    """A case that explores several injection points may hit a listed known finding at one point and something new
    at another: report the new one first so a listed finding never masks a different violation."""
    if not violations:
        return
    known = load_known_findings().get("known", [])
    for v in violations:
        if match_known(check_id, v, case, known) is None:
            raise v
    raise violations[0]


# ----------------------------------------------------------------------------------------------
# evidence accumulator


class Stats:
    def __init__(self) -> None:
        self.evaluations = 0
        self.nontrivial_digests: set[str] = set()
        self.classes: Counter[str] = Counter()
        self.per_layer: Counter[str] = Counter()
        self.per_layer_nt: Counter[str] = Counter()
        self.samples: list[Any] = []
        self.sample_layers: Counter[str] = Counter()
        self.inconclusive = 0
        self.known_seen: Counter[str] = Counter()
        self.exhaustive_layers: list[str] = []
        self.violations = 0

    def record(self, case: dict, out: Outcome) -> None:
        self.evaluations += 1
        layer = case.get("layer", "?")
        self.per_layer[layer] += 1
        for c in out.classes:
            self.classes[f"{layer}:{c}"] += 1
        if out.inconclusive:
            self.inconclusive += 1
        if out.extra:
            # a nested campaign: its executions are evaluations of this layer
            x = out.extra
            self.evaluations += x["evaluations"]
            self.per_layer[layer] += x["evaluations"]
            new = set(x["nontrivial_digests"]) - self.nontrivial_digests
            self.nontrivial_digests.update(new)
            self.per_layer_nt[layer] += len(new)
            for c, n in x["classes"].items():
                self.classes[f"{layer}:{c.split(':', 1)[-1]}"] += n
            for kid, n in x.get("known_seen", {}).items():
                self.known_seen[kid] += n
            for smp in x["samples"][:2]:
                if self.sample_layers[layer] < 2:
                    self.sample_layers[layer] += 1
                    self.samples.append(smp)
            return
        if out.nontrivial:
            d = case_digest(case)
            if d not in self.nontrivial_digests:
                self.nontrivial_digests.add(d)
                self.per_layer_nt[layer] += 1
                if self.sample_layers[layer] < 2:
                    self.sample_layers[layer] += 1
                    s = abbreviate(case)
                    if out.note:
                        s = {"case": s, "observed": out.note}
                    self.samples.append(s)

    def to_partial(self) -> dict:
        return {
            "evaluations": self.evaluations,
            "nontrivial_digests": sorted(self.nontrivial_digests),
            "classes": dict(self.classes),
            "per_layer": dict(self.per_layer),
            "per_layer_nt": dict(self.per_layer_nt),
            "samples": self.samples,
            "inconclusive": self.inconclusive,
            "known_seen": dict(self.known_seen),
            "exhaustive_layers": self.exhaustive_layers,
            "violations": self.violations,
        }

    def merge_partial(self, p: dict) -> None:
        self.evaluations += p["evaluations"]
        self.nontrivial_digests.update(p["nontrivial_digests"])
        self.classes.update(p["classes"])
        self.per_layer.update(p["per_layer"])
        self.per_layer_nt.update(p["per_layer_nt"])
        for s in p["samples"]:
            if len(self.samples) < 8:
                self.samples.append(s)
        self.inconclusive += p["inconclusive"]
        self.known_seen.update(p["known_seen"])
        for name in p["exhaustive_layers"]:
            if name not in self.exhaustive_layers:
                self.exhaustive_layers.append(name)
        self.violations += p["violations"]


def write_evidence(check: Check, tier: str, seed: int, stats: Stats, wall_s: float, extra: dict | None = None) -> str:
    path = os.path.join(VERIF_ROOT, "evidence", f"{check.id}.json")
    coverage: dict[str, Any] = {
        "evaluations": stats.evaluations,
        "distinct_nontrivial": len(stats.nontrivial_digests),
        "rule": check.rule,
        "samples": stats.samples[:8],
        "classes": dict(sorted(stats.classes.items())),
        "per_layer_evaluations": dict(sorted(stats.per_layer.items())),
        "per_layer_distinct_nontrivial": dict(sorted(stats.per_layer_nt.items())),
        "inconclusive": stats.inconclusive,
        "known_findings_seen": dict(stats.known_seen),
        "exhaustive": False,
    }
    if stats.exhaustive_layers:
        coverage["exhaustive_subdomains"] = stats.exhaustive_layers
        coverage["exhaustive_note"] = check.exhaustive_note
    if extra:
        coverage.update(extra)
    doc = {
        "property_id": check.id,
        "tier": tier,
        "seed": seed,
        "level": check.level,
        "coverage": coverage,
        "assumptions": check.assumptions,
        "wall_s": round(wall_s, 3),
        "violations": stats.violations,
    }
    os.makedirs(os.path.dirname(path), exist_ok=True)
    tmp = path + ".tmp"
    with open(tmp, "w") as f:
        json.dump(doc, f, indent=1, sort_keys=False)
        f.write("\n")
    os.replace(tmp, path)
    return path


def save_replay(check_id: str, case: dict, violation: Violation | None, directory: str | None = None) -> str:
    directory = directory or os.path.join(VERIF_ROOT, "replays", "found")
    os.makedirs(directory, exist_ok=True)
    digest = case_digest(case)[:12]
    path = os.path.join(directory, f"{check_id}-{digest}.json")
    doc = {
        "property": check_id,
        "case": to_jsonable(case),
        "violation": None
        if violation is None
        else {"kind": violation.kind, "message": violation.message, "details": abbreviate(_safe(violation.details))},
    }
    with open(path, "w") as f:
        json.dump(doc, f, indent=1)
        f.write("\n")
    return path


def _safe(obj: Any) -> Any:
    try:
        return json.loads(json.dumps(to_jsonable(obj)))
    except Exception:
        return repr(obj)


def load_replay(path: str) -> dict:
    with open(path) as f:
        doc = json.load(f)
    return from_jsonable(doc["case"])


# ----------------------------------------------------------------------------------------------
# classify unexpected exceptions


def exception_from_sut(exc: BaseException) -> bool:
    """True if any traceback frame of `exc` (or its causes) lies inside /repo/src (code under test)."""
    seen = set()
    cur: BaseException | None = exc
    while cur is not None and id(cur) not in seen:
        seen.add(id(cur))
        tb = cur.__traceback__
        while tb is not None:
            fn = tb.tb_frame.f_code.co_filename
            if fn.startswith(REPO_SRC):
                return True
            tb = tb.tb_next
        cur = cur.__cause__ or cur.__context__
    return False


def format_exc(exc: BaseException) -> str:
    return "".join(traceback.format_exception(type(exc), exc, exc.__traceback__))[-4000:]


def now() -> float:
    return time.monotonic()


def eprint(*a: Any) -> None:
    print(*a, file=sys.stderr, flush=True)
