"""H3 — single-threaded, deterministic environment for the *blocking* API.

* `World`: virtual clock + timeline of environment events (bytes arrive, peer drains, EOF, error, spurious wake-up).
* `FakeSocket(socket.socket)`: a real (unconnected) socket object whose I/O methods follow the world's state and a
  per-call fault script (partial writes, BlockingIOError, InterruptedError, errno failures).
* `FakeSelector`: passed through the public `selector_factory` parameter; `select(timeout)` is the only place where
  virtual time advances and where the environment acts; raises `HarnessHang` if asked to wait forever with nothing
  scheduled.
* `virtual_clock(world)`: installs `world.now` as `easynetwork.lowlevel._utils.time.perf_counter` for the duration of
  a case.
"""

from __future__ import annotations

import contextlib
import errno as _errno
import math
import selectors
import socket
import types
from collections import deque
from collections.abc import Callable, Iterator
from typing import Any

import easynetwork.lowlevel._utils as _en_utils

from .core import HarnessError


class HarnessHang(Exception):
    """blocking code asked to wait although nothing can ever happen (a deterministic 'blocks forever')"""


class SpinGuard(Exception):
    """too many socket calls without progress (a deterministic 'spins forever')"""


class World:
    def __init__(self) -> None:
        self.now = 0.0
        self.events: list[tuple[float, int, Callable[[], None]]] = []  # (time, seq, action)
        self._seq = 0
        self.select_calls = 0
        self.total_waited = 0.0
        self.waits: list[float] = []
        self.spurious_next = 0  # number of upcoming select() calls that report readiness although nothing is ready
        self.spurious_at: list[float] = []  # virtual times at which a pending select() wakes up for nothing

    def at(self, t: float, action: Callable[[], None]) -> None:
        self._seq += 1
        self.events.append((t, self._seq, action))
        self.events.sort(key=lambda e: (e[0], e[1]))

    def run_due(self) -> None:
        while self.events and self.events[0][0] <= self.now:
            _, _, action = self.events.pop(0)
            action()

    def next_time(self) -> float | None:
        cands = []
        if self.events:
            cands.append(self.events[0][0])
        if self.spurious_at:
            cands.append(self.spurious_at[0])
        return min(cands) if cands else None

    def perf_counter(self) -> float:
        return self.now


@contextlib.contextmanager
def virtual_clock(world: World) -> Iterator[None]:
    """ElapsedTime looks `time.perf_counter` up through the module global `time` of lowlevel/_utils.py"""
    real = _en_utils.time
    fake = types.SimpleNamespace(**{k: getattr(real, k) for k in dir(real) if not k.startswith("__")})
    fake.perf_counter = world.perf_counter
    fake.monotonic = world.perf_counter
    _en_utils.time = fake  # type: ignore[assignment]
    try:
        yield
    finally:
        _en_utils.time = real


class FakeSocket(socket.socket):
    """Stream or datagram socket whose data path is simulated.

    receive side: `rx` (stream: bytearray; datagram: deque of datagrams), `rx_eof`, `rx_error`
    send side:    `tx` everything accepted by the 'kernel'; `tx_capacity` free space (None = unlimited);
                  `send_script`: deque of per-call outcomes consumed by send/sendmsg:
                  ("ok",) accept as much as capacity allows | ("partial", k) | ("block",) | ("eintr",) | ("error", errno)
    """

    def __init__(self, world: World, kind: int = socket.SOCK_STREAM, *, hide_sendmsg: bool = False) -> None:
        super().__init__(socket.AF_INET, kind)
        self.world = world
        self.kind = kind
        self.rx = bytearray()
        self.rx_dgrams: deque[bytes] = deque()
        self.rx_eof = False
        self.rx_error: OSError | None = None
        self.recv_script: deque[tuple] = deque()
        self.tx = bytearray()
        self.tx_dgrams: list[bytes] = []
        self.tx_capacity: int | None = None
        self.send_script: deque[tuple] = deque()
        self.calls = 0
        self.calls_since_progress = 0
        self.spin_limit = 100000
        self.hide_sendmsg = hide_sendmsg
        self.max_recv: int | None = None
        self.stale_after_eof: bytes = b""  # returned if the socket is read again after it reported EOF (lost-latch detector)
        self.eof_reported = 0

    # -- readiness as the fake selector sees it
    def readable(self) -> bool:
        return bool(self.rx) or bool(self.rx_dgrams) or self.rx_eof or self.rx_error is not None

    def writable(self) -> bool:
        # a scripted ("block",) is a spurious readiness: the selector says writable, the call still gets EAGAIN once
        return self.tx_capacity is None or self.tx_capacity > 0

    def _tick(self, progress: bool) -> None:
        self.calls += 1
        if progress:
            self.calls_since_progress = 0
        else:
            self.calls_since_progress += 1
            if self.calls_since_progress > self.spin_limit:
                raise SpinGuard(f"{self.calls_since_progress} socket calls without progress")

    # -- receive
    def _recv_pre(self) -> None:
        if self.recv_script:
            op = self.recv_script.popleft()
            if op[0] == "eintr":
                self._tick(False)
                raise InterruptedError(_errno.EINTR, "interrupted")
            if op[0] == "block":
                self._tick(False)
                raise BlockingIOError(_errno.EAGAIN, "would block (spurious readiness)")

    def recv(self, bufsize: int, flags: int = 0) -> bytes:  # type: ignore[override]
        self._recv_pre()
        if self.kind == socket.SOCK_DGRAM:
            if self.rx_dgrams:
                self._tick(True)
                return self.rx_dgrams.popleft()[:bufsize]
            if self.rx_error is not None:
                err, self.rx_error = self.rx_error, None
                self._tick(True)
                raise err
            self._tick(False)
            raise BlockingIOError(_errno.EAGAIN, "would block")
        if self.rx:
            n = min(bufsize, len(self.rx), self.max_recv or (1 << 30))
            data = bytes(self.rx[:n])
            del self.rx[:n]
            self._tick(True)
            return data
        if self.rx_error is not None:
            self._tick(True)
            raise self.rx_error
        if self.rx_eof:
            self._tick(True)
            self.eof_reported += 1
            if self.eof_reported > 1 and self.stale_after_eof:
                return self.stale_after_eof[:bufsize]
            return b""
        self._tick(False)
        raise BlockingIOError(_errno.EAGAIN, "would block")

    def recv_into(self, buffer: Any, nbytes: int = 0, flags: int = 0) -> int:  # type: ignore[override]
        with memoryview(buffer) as view:
            size = nbytes or view.nbytes
            data = self.recv(size)
            view[: len(data)] = data
            return len(data)

    # -- send
    def _accept(self, n_offered: int) -> int:
        op = self.send_script.popleft() if self.send_script else ("ok",)
        kind = op[0]
        if kind == "eintr":
            self._tick(False)
            raise InterruptedError(_errno.EINTR, "interrupted")
        if kind == "block":
            self._tick(False)
            raise BlockingIOError(_errno.EAGAIN, "would block")
        if kind == "error":
            self._tick(True)
            raise OSError(op[1], "scripted failure")
        cap = self.tx_capacity
        if cap is not None and cap <= 0 and n_offered > 0:
            self._tick(False)
            raise BlockingIOError(_errno.EAGAIN, "would block (kernel buffer full)")
        n = n_offered
        if kind == "partial":
            n = min(n, max(1, op[1])) if n_offered > 0 else 0
        if cap is not None:
            n = min(n, cap)
            self.tx_capacity = cap - n
        self._tick(n > 0)
        return n

    def send(self, data: Any, flags: int = 0) -> int:  # type: ignore[override]
        with memoryview(data) as view:
            if self.kind == socket.SOCK_DGRAM:
                op = self.send_script.popleft() if self.send_script else ("ok",)
                if op[0] == "block":
                    self._tick(False)
                    raise BlockingIOError(_errno.EAGAIN, "would block")
                if op[0] == "eintr":
                    self._tick(False)
                    raise InterruptedError(_errno.EINTR, "interrupted")
                if op[0] == "error":
                    self._tick(True)
                    raise OSError(op[1], "scripted failure")
                self.tx_dgrams.append(view.tobytes())
                self._tick(True)
                return view.nbytes
            n = self._accept(view.nbytes)
            self.tx += view.cast("B")[:n] if view.nbytes else b""
            return n

    def _sendmsg(self, buffers: Any, *args: Any) -> int:
        views = [memoryview(b).cast("B") for b in buffers]
        total = sum(v.nbytes for v in views)
        n = self._accept(total)
        left = n
        for v in views:
            if left <= 0:
                break
            take = min(left, v.nbytes)
            self.tx += v[:take]
            left -= take
        return n

    def __getattribute__(self, name: str) -> Any:
        if name == "sendmsg":
            if object.__getattribute__(self, "hide_sendmsg"):
                raise AttributeError("sendmsg")
            return object.__getattribute__(self, "_sendmsg")
        return super().__getattribute__(name)

    def shutdown(self, how: int) -> None:  # type: ignore[override]
        self.shut_wr = True

    # environment helpers -------------------------------------------------------
    def env_arrive(self, data: bytes) -> None:
        self.rx += data

    def env_arrive_dgram(self, data: bytes) -> None:
        self.rx_dgrams.append(data)

    def env_eof(self) -> None:
        self.rx_eof = True

    def env_error(self, err: OSError) -> None:
        self.rx_error = err

    def env_drain(self, n: int | None) -> None:
        """the peer read n bytes: that much kernel buffer space becomes free (None = unlimited)"""
        if n is None:
            self.tx_capacity = None
        elif self.tx_capacity is not None:
            self.tx_capacity += n


class FakeSelector(selectors.BaseSelector):
    """selector-as-scheduler for FakeSocket objects (looked up by fileno in `registry`)"""

    def __init__(self, world: World, registry: dict[int, FakeSocket]) -> None:
        self.world = world
        self.registry = registry
        self._keys: dict[int, selectors.SelectorKey] = {}

    def register(self, fileobj: Any, events: int, data: Any = None) -> selectors.SelectorKey:
        fd = fileobj if isinstance(fileobj, int) else fileobj.fileno()
        if fd < 0 or fd not in self.registry:
            raise ValueError(f"invalid file descriptor {fd}")
        key = selectors.SelectorKey(fileobj, fd, events, data)
        self._keys[fd] = key
        return key

    def unregister(self, fileobj: Any) -> selectors.SelectorKey:
        fd = fileobj if isinstance(fileobj, int) else fileobj.fileno()
        return self._keys.pop(fd)

    def get_map(self) -> Any:
        return self._keys

    def close(self) -> None:
        self._keys.clear()

    def _ready(self) -> list[tuple[selectors.SelectorKey, int]]:
        out = []
        for fd, key in self._keys.items():
            sock = self.registry[fd]
            ev = 0
            if key.events & selectors.EVENT_READ and sock.readable():
                ev |= selectors.EVENT_READ
            if key.events & selectors.EVENT_WRITE and sock.writable():
                ev |= selectors.EVENT_WRITE
            if ev:
                out.append((key, ev))
        return out

    def select(self, timeout: float | None = None) -> list[tuple[selectors.SelectorKey, int]]:
        w = self.world
        w.select_calls += 1
        if w.select_calls > 200000:
            raise SpinGuard("200000 select() calls")
        if timeout is not None and (math.isnan(timeout) or timeout == math.inf):
            timeout = None
        start = w.now
        deadline = None if timeout is None else w.now + max(0.0, timeout)
        try:
            while True:
                w.run_due()
                ready = self._ready()
                if ready:
                    return ready
                if w.spurious_next > 0:
                    w.spurious_next -= 1
                    return [(key, key.events) for key in self._keys.values()]
                if w.spurious_at and w.spurious_at[0] <= w.now:
                    w.spurious_at.pop(0)
                    return [(key, key.events) for key in self._keys.values()]
                nxt = w.next_time()
                if deadline is not None and (nxt is None or nxt > deadline):
                    w.now = max(w.now, deadline)
                    w.run_due()
                    return self._ready()
                if nxt is None:
                    raise HarnessHang("select() with no timeout while nothing is scheduled to happen")
                w.now = max(w.now, nxt)
        finally:
            waited = w.now - start
            w.total_waited += waited
            w.waits.append(waited)


def make_selector_factory(world: World, *socks: FakeSocket) -> Callable[[], FakeSelector]:
    registry = {s.fileno(): s for s in socks}

    def factory() -> FakeSelector:
        return FakeSelector(world, registry)

    factory.registry = registry  # type: ignore[attr-defined]
    return factory
