"""H2 — partitions of a byte stream and the two receive drivers.

Driver A feeds StreamDataConsumer exactly like `_DataReceiverImpl.receive`; driver B fills
BufferedStreamDataConsumer.get_write_buffer() exactly like `_BufferedReceiverImpl.receive`.
Both return the ordered list of outputs and the leftover.
"""

from __future__ import annotations

from typing import Any

from hypothesis import strategies as st

from easynetwork.exceptions import StreamProtocolParseError
from easynetwork.lowlevel._stream import BufferedStreamDataConsumer, StreamDataConsumer

from .core import HarnessError, Violation

# output records:  ("pkt", value) | ("err", inner_error_class_name, remaining_len)


def split_at(stream: bytes, cuts: list[int]) -> list[bytes]:
    pos = sorted({c for c in cuts if 0 < c < len(stream)})
    out = []
    prev = 0
    for c in pos:
        out.append(stream[prev:c])
        prev = c
    out.append(stream[prev:])
    return [c for c in out if c] if stream else []


def _err_record(exc: StreamProtocolParseError, received: bytes | None = None, path: str = "") -> tuple:
    rem = bytes(exc.remaining_data)
    if received is not None and rem and not received.endswith(rem):
        # the unread remainder carried by the error is, by definition, the tail of what has been received so far
        raise Violation(
            "remainder-content",
            f"{path}: the parse error's remaining_data {rem[:40]!r} ({len(rem)} bytes) is not the tail of the {len(received)} bytes received so far "
            f"(...{received[-40:]!r})",
            path=path,
        )
    inner = getattr(exc.error, "remaining_data", None)
    if received is not None and inner is not None and bytes(inner) and not received.endswith(bytes(inner)):
        raise Violation(
            "remainder-content",
            f"{path}: error.remaining_data {bytes(inner)[:40]!r} of the inner {type(exc.error).__name__} is not the tail of the bytes received so far",
            path=path,
        )
    return ("err", type(exc.error).__name__, len(rem))


def drive_a(protocol: Any, chunks: list[bytes], *, max_outputs: int | None = None, observe=None) -> tuple[list[tuple], bytes]:
    """copying path: one consumer.next(None) drain, then consumer.next(chunk) per received chunk."""
    consumer = StreamDataConsumer(protocol)
    outputs: list[tuple] = []
    budget = max_outputs if max_outputs is not None else sum(len(c) for c in chunks) + len(chunks) + 8
    received = bytearray()

    def pump(feed: bytes | None) -> bool:
        """one receive() attempt; True if it produced an output"""
        if feed:
            received.extend(feed)
        try:
            pkt = consumer.next(feed)
        except StopIteration:
            return False
        except StreamProtocolParseError as exc:
            outputs.append(_err_record(exc, bytes(received), "copying path"))
            return True
        outputs.append(("pkt", pkt))
        return True

    for chunk in chunks:
        # receive(): drain first
        while pump(None):
            if len(outputs) > budget:
                raise Violation("no-progress", "more outputs than input bytes (copying path)", outputs=len(outputs))
        if observe is not None:
            observe(consumer, len(chunk))
        pump(chunk)
        if len(outputs) > budget:
            raise Violation("no-progress", "more outputs than input bytes (copying path)", outputs=len(outputs))
    while pump(None):
        if len(outputs) > budget:
            raise Violation("no-progress", "more outputs than input bytes (copying path)", outputs=len(outputs))
    leftover = bytes(consumer.get_buffer())
    consumer.clear()
    return outputs, leftover


def drive_b(
    protocol: Any,
    stream: bytes,
    fills: list[int],
    sizehint: int,
    *,
    max_outputs: int | None = None,
    observe=None,
) -> tuple[list[tuple], bytes, dict]:
    """buffer-filling path.  `fills` = per-read fill sizes (cycled); each read writes
    min(fill, available buffer, remaining stream) bytes, like recv_into on a socket that has that many bytes."""
    consumer = BufferedStreamDataConsumer(protocol, sizehint)
    outputs: list[tuple] = []
    budget = max_outputs if max_outputs is not None else len(stream) * 2 + 8
    info = {"reads": 0, "max_buffer_size": 0, "read_sizes": []}
    pos = 0
    i = 0

    def pump(n: int | None) -> bool:
        try:
            pkt = consumer.next(n)
        except StopIteration:
            return False
        except StreamProtocolParseError as exc:
            outputs.append(_err_record(exc, bytes(stream[:pos]), "buffered path"))
            return True
        outputs.append(("pkt", pkt))
        return True

    if not fills:
        raise HarnessError("empty fills")
    while pos < len(stream):
        while pump(None):
            if len(outputs) > budget:
                raise Violation("no-progress", "more outputs than input bytes (buffered path)", outputs=len(outputs))
        with memoryview(consumer.get_write_buffer()) as buf:
            avail = buf.nbytes
            if avail <= 0:
                raise Violation("zero-buffer", "get_write_buffer() returned an empty buffer")
            n = min(max(1, fills[i % len(fills)]), avail, len(stream) - pos)
            buf[:n] = stream[pos : pos + n]
        i += 1
        pos += n
        info["reads"] += 1
        if len(info["read_sizes"]) < 64:
            info["read_sizes"].append(n)
        info["max_buffer_size"] = max(info["max_buffer_size"], consumer.buffer_size)
        if observe is not None:
            observe(consumer, n)
        pump(n)
        if len(outputs) > budget:
            raise Violation("no-progress", "more outputs than input bytes (buffered path)", outputs=len(outputs))
    while pump(None):
        if len(outputs) > budget:
            raise Violation("no-progress", "more outputs than input bytes (buffered path)", outputs=len(outputs))
    # bytes re-injected for the next parse (what the copying path keeps in get_buffer()); the buffered consumer has
    # no public accessor for it, so read the private counter and fall back to "unknown" if it is ever renamed
    nleft = getattr(consumer, "_BufferedStreamDataConsumer__already_written", None)
    info["leftover_known"] = nleft is not None
    leftover = b"?" * nleft if nleft else b""
    consumer.clear()
    return outputs, leftover, info


# ----------------------------------------------------------------------------------------------
# partition strategies (by construction: a sorted set of cut points)


def st_cuts(n: int, interesting: list[int] | None = None) -> st.SearchStrategy[list[int]]:
    """cut points in 1..n-1 for an n-byte stream.  Classes: whole, every byte, fixed stride, around interesting
    positions (inside separators / headers / escapes / multi-byte chars), random subsets."""
    if n <= 1:
        return st.just([])
    interesting = sorted({p for p in (interesting or []) if 0 < p < n})
    options = [
        st.just([]),
        st.just(list(range(1, n))) if n <= 4096 else st.just(list(range(256, n, 256))),
        st.integers(1, max(1, min(n - 1, 64))).map(lambda k: list(range(k, n, k))),
        st.lists(st.integers(1, n - 1), max_size=12, unique=True).map(sorted),
    ]
    if interesting:
        options.append(st.lists(st.sampled_from(interesting), min_size=1, max_size=8, unique=True).map(sorted))
        options.append(
            st.tuples(
                st.lists(st.sampled_from(interesting), min_size=1, max_size=6, unique=True),
                st.lists(st.integers(1, n - 1), max_size=6, unique=True),
            ).map(lambda t: sorted(set(t[0]) | set(t[1])))
        )
    return st.one_of(*options)


def st_fills() -> st.SearchStrategy[list[int]]:
    return st.one_of(
        st.just([1]),
        st.just([1 << 20]),
        st.lists(st.integers(1, 9), min_size=1, max_size=8),
        st.lists(st.sampled_from([1, 2, 3, 5, 8, 13, 64, 1000, 70000]), min_size=1, max_size=6),
    )


def st_sizehint() -> st.SearchStrategy[int]:
    return st.one_of(st.integers(1, 40), st.sampled_from([1, 2, 3, 64, 256, 1024, 8192, 65536, 70000]))


def interesting_positions(stream: bytes, boundaries: list[int], seplen: int, *, text: bool = True) -> dict[str, list[int]]:
    """cut positions (a cut at p splits stream[:p] | stream[p:]) grouped by class."""
    bset = set(boundaries)
    out: dict[str, list[int]] = {"sep": [], "header": [], "escape": [], "multibyte": [], "boundary": sorted(bset)}
    prev = 0
    for b in boundaries:
        if seplen > 1:
            out["sep"].extend(range(b - seplen + 1, b))
        if seplen >= 1:
            out["sep"].append(b - seplen)  # just before the separator
        out["header"].extend(p for p in (prev + 1, prev + 2, prev + 3) if p < b)
        prev = b
    if text:
        for p in range(1, len(stream)):
            if stream[p - 1] == 0x5C:
                out["escape"].append(p)
            if stream[p] & 0xC0 == 0x80:
                out["multibyte"].append(p)
    for k in out:
        out[k] = sorted({p for p in out[k] if 0 < p < len(stream)})
    return out


def classify_cuts(cuts: list[int], classes: dict[str, list[int]], boundaries: list[int]) -> list[str]:
    res = []
    cset = set(cuts)
    bset = set(boundaries)
    if any(c not in bset for c in cset):
        res.append("cut-inside-frame")
    for k in ("sep", "header", "escape", "multibyte"):
        if cset & set(classes.get(k, [])) - (bset if k != "sep" else set()):
            res.append(f"cut-{k}")
    return res
