"""H5 — in-memory implementations of the api_async transport ABCs on the real AsyncIOBackend, plus a backend
subclass that hands them out so that the unmodified high-level servers/clients run on top of them.

Behaviour follows the real asyncio adapters where it matters for the oracles:
* aclose() marks the object closed synchronously at call time (like `transport.close()`), then may await;
* send_all() commits bytes synchronously, then may await (like `transport.write()` + `drain()`); a "split"
  script commits in pieces with suspension between them (what a sendall loop on a socket does);
* recv_into() never loses bytes when its caller is cancelled (data stays in the inbox);
* a second concurrent recv on the same transport raises (the real protocol raises RuntimeError).
"""

from __future__ import annotations

import asyncio
import errno as _errno
import socket as _socket
from collections import deque
from collections.abc import Callable, Coroutine, Iterable, Mapping
from types import MappingProxyType
from typing import Any, NoReturn

from easynetwork.lowlevel import _utils, socket as socket_tools
from easynetwork.lowlevel.api_async.backend._asyncio.backend import AsyncIOBackend
from easynetwork.lowlevel.api_async.backend.abc import AsyncBackend, TaskGroup
from easynetwork.lowlevel.api_async.transports.abc import (
    AsyncDatagramListener,
    AsyncDatagramTransport,
    AsyncListener,
    AsyncStreamTransport,
)

from .core import HarnessError

ERRORS: dict[str, Callable[[], BaseException]] = {
    "ConnectionResetError": lambda: ConnectionResetError(_errno.ECONNRESET, "Connection reset by peer"),
    "BrokenPipeError": lambda: BrokenPipeError(_errno.EPIPE, "Broken pipe"),
    "ConnectionAbortedError": lambda: ConnectionAbortedError(_errno.ECONNABORTED, "aborted"),
    "OSError": lambda: OSError(_errno.EIO, "I/O error"),
    "TimeoutError": lambda: TimeoutError(_errno.ETIMEDOUT, "timed out"),
    "ValueError": lambda: ValueError("scripted failure"),
}


def make_error(name: str) -> BaseException:
    try:
        return ERRORS[name]()
    except KeyError:
        raise HarnessError(f"unknown scripted error {name!r}") from None


class StubSocket:
    """ISocket stub so that INETSocketAttribute extras resolve; records option calls."""

    def __init__(self, sockname: tuple, peername: tuple | None, family: int = _socket.AF_INET, type: int = _socket.SOCK_STREAM) -> None:
        self._sockname = sockname
        self._peername = peername
        self._family = family
        self._type = type
        self.closed = False
        self.options: dict[tuple[int, int], Any] = {}
        self._fileno = 1000 + (id(self) % 1000)

    def fileno(self) -> int:
        return -1 if self.closed else self._fileno

    def get_inheritable(self) -> bool:
        return False

    def getpeername(self) -> tuple:
        if self.closed or self._peername is None:
            raise OSError(_errno.ENOTCONN, "not connected")
        return self._peername

    def getsockname(self) -> tuple:
        if self.closed:
            raise OSError(_errno.EBADF, "bad fd")
        return self._sockname

    def getsockopt(self, *args: Any) -> Any:
        if self.closed:
            raise OSError(_errno.EBADF, "bad fd")
        level, opt = args[0], args[1]
        val = self.options.get((level, opt), 0)
        if len(args) > 2:
            return val if isinstance(val, bytes) else b"\0" * args[2]
        return val if isinstance(val, int) else 0

    def setsockopt(self, *args: Any) -> None:
        if self.closed:
            raise OSError(_errno.EBADF, "bad fd")
        self.options[(args[0], args[1])] = args[2]

    @property
    def family(self) -> int:
        return self._family

    @property
    def type(self) -> int:
        return self._type

    @property
    def proto(self) -> int:
        return 0


class _Scripted:
    """per-operation call counters and scripted failures: script["fail"] = {"send_all": {"2": "BrokenPipeError"}}"""

    def _init_script(self, script: Mapping[str, Any] | None) -> None:
        self.script: dict[str, Any] = dict(script or {})
        self.calls: dict[str, int] = {}

    def _enter(self, op: str) -> int:
        n = self.calls.get(op, 0)
        self.calls[op] = n + 1
        fail = self.script.get("fail", {}).get(op, {})
        name = fail.get(str(n)) or fail.get(n)
        if name:
            raise make_error(name)
        return n

    def _cyc(self, key: str, n: int, default: int = 0) -> int:
        seq = self.script.get(key)
        if not seq:
            return default
        return seq[n % len(seq)]


async def _yields(n: int) -> None:
    for _ in range(n):
        await asyncio.sleep(0)


class MemStreamTransport(_Scripted, AsyncStreamTransport):
    """script keys: recv_max[list], send_yield[list], send_split[list], aclose_yields[int], aclose_error[str],
    fail{op:{index:errname}}, block_send[bool] (senders wait after commit until set_writable(True))"""

    def __init__(
        self,
        backend: AsyncBackend,
        *,
        name: str = "mem",
        script: Mapping[str, Any] | None = None,
        sockname: tuple = ("127.0.0.1", 5000),
        peername: tuple | None = ("127.0.0.1", 40000),
    ) -> None:
        super().__init__()
        self._init_script(script)
        self._backend = backend
        self.name = name
        self.inbox = bytearray()
        self.eof = False
        self.recv_error: BaseException | None = None
        self._recv_waiter: asyncio.Future[None] | None = None
        self.sent = bytearray()
        self.send_log: list[bytes] = []
        self.closed = False
        self.aclose_calls = 0
        self.eof_sent = False
        self.writable = not self.script.get("block_send", False)
        self._write_waiters: list[asyncio.Future[None]] = []
        self.on_send: Callable[[bytes], None] | None = None
        self.send_error: BaseException | None = None
        self.on_close: Callable[[], None] | None = None
        self.total_received = 0
        self.stub = StubSocket(sockname, peername)
        self._extra = MappingProxyType(socket_tools._get_socket_extra(self.stub, wrap_in_proxy=False))  # type: ignore[arg-type]

    # ---- harness side -------------------------------------------------------
    def feed(self, data: bytes) -> None:
        if self.eof:
            raise HarnessError("feed after eof")
        self.inbox += data
        self._wake_reader()

    def feed_eof(self) -> None:
        self.eof = True
        self._wake_reader()

    def feed_error(self, exc: BaseException) -> None:
        self.recv_error = exc
        self._wake_reader()

    def _wake_reader(self) -> None:
        w = self._recv_waiter
        if w is not None and not w.done():
            w.set_result(None)

    def set_writable(self, flag: bool) -> None:
        self.writable = flag
        if flag:
            waiters, self._write_waiters = self._write_waiters, []
            for w in waiters:
                if not w.done():
                    w.set_result(None)

    def fail_writers(self, exc: BaseException) -> None:
        waiters, self._write_waiters = self._write_waiters, []
        for w in waiters:
            if not w.done():
                w.set_exception(exc)

    @property
    def pending_senders(self) -> int:
        return sum(1 for w in self._write_waiters if not w.done())

    # ---- transport API ----------------------------------------------------------
    async def aclose(self) -> None:
        self.aclose_calls += 1
        first = not self.closed
        self.closed = True  # synchronous part, like transport.close()
        self.stub.closed = True
        if first:
            self._wake_reader()
            self.fail_writers(make_error("ConnectionAbortedError"))
            if self.on_close is not None:
                self.on_close()
        n = self._enter("aclose")
        await _yields(int(self.script.get("aclose_yields", 0)))
        if first and (err := self.script.get("aclose_error")):
            raise make_error(err)

    def is_closing(self) -> bool:
        return self.closed

    def backend(self) -> AsyncBackend:
        return self._backend

    async def recv_into(self, buffer: Any) -> int:
        n = self._enter("recv_into")
        if self._recv_waiter is not None:
            raise RuntimeError("recv_into() called while another coroutine is already waiting for incoming data")
        with memoryview(buffer) as view:
            if view.nbytes == 0:
                return 0
            while True:
                if self.closed:
                    raise _utils.error_from_errno(_errno.ECONNABORTED)
                if self.inbox:
                    size = min(view.nbytes, len(self.inbox), max(1, self._cyc("recv_max", n, 1 << 30)))
                    view[:size] = self.inbox[:size]
                    del self.inbox[:size]
                    self.total_received += size
                    return size
                if self.recv_error is not None:
                    raise self.recv_error
                if self.eof:
                    return 0
                self._recv_waiter = asyncio.get_running_loop().create_future()
                try:
                    await self._recv_waiter
                finally:
                    self._recv_waiter = None

    def _commit(self, data: bytes) -> None:
        if self.closed:
            raise _utils.error_from_errno(_errno.ECONNABORTED)
        if getattr(self, "send_error", None) is not None:
            raise self.send_error  # persistent: the connection is broken for writing (e.g. the peer sent a RST)
        if self.eof_sent:
            raise make_error("BrokenPipeError")
        self.sent += data
        self.send_log.append(bytes(data))
        if self.on_send is not None:
            self.on_send(bytes(data))

    async def _after_commit(self, n: int) -> None:
        await _yields(self._cyc("send_yield", n, 0))
        while not self.writable:
            w = asyncio.get_running_loop().create_future()
            self._write_waiters.append(w)
            try:
                await w
            finally:
                if w in self._write_waiters:
                    self._write_waiters.remove(w)

    async def send_all(self, data: Any) -> None:
        n = self._enter("send_all")
        data = bytes(data)
        split = self._cyc("send_split", n, 0)
        if split and len(data) > split:
            for i in range(0, len(data), split):
                self._commit(data[i : i + split])
                await self._after_commit(n)
                await asyncio.sleep(0)
        else:
            self._commit(data)
            await self._after_commit(n)

    async def send_all_from_iterable(self, iterable_of_data: Iterable[Any]) -> None:
        if self.script.get("iterable_joined", False):
            await self.send_all(b"".join(bytes(c) for c in iterable_of_data))
            return
        n = self._enter("send_all_from_iterable")
        for chunk in iterable_of_data:
            self._commit(bytes(chunk))
            await self._after_commit(n)

    async def send_eof(self) -> None:
        self._enter("send_eof")
        self.eof_sent = True
        await asyncio.sleep(0)

    @property
    def extra_attributes(self) -> Mapping[Any, Callable[[], Any]]:
        return self._extra


class MemListener(_Scripted, AsyncListener[MemStreamTransport]):
    """mirrors ListenerSocketAdapter.serve: one task per accepted connection in the task group"""

    def __init__(self, backend: AsyncBackend, *, sockname: tuple = ("127.0.0.1", 5000), script: Mapping[str, Any] | None = None) -> None:
        super().__init__()
        self._init_script(script)
        self._backend = backend
        self.closed = False
        self.aclose_calls = 0
        self._queue: deque[MemStreamTransport | BaseException] = deque()
        self._accept_waiter: asyncio.Future[None] | None = None
        self._serving = False
        self.stub = StubSocket(sockname, None)
        self._extra = MappingProxyType(socket_tools._get_socket_extra(self.stub, wrap_in_proxy=False))  # type: ignore[arg-type]
        self.accepted: list[MemStreamTransport] = []

    def connect(self, transport: MemStreamTransport) -> None:
        if self.closed:
            raise HarnessError("connect() on closed listener")
        self._queue.append(transport)
        w = self._accept_waiter
        if w is not None and not w.done():
            w.set_result(None)

    async def aclose(self) -> None:
        self.aclose_calls += 1
        self.closed = True
        self.stub.closed = True
        w = self._accept_waiter
        if w is not None and not w.done():
            w.set_result(None)
        self._enter("aclose")
        await _yields(int(self.script.get("aclose_yields", 1)))

    def is_closing(self) -> bool:
        return self.closed

    def backend(self) -> AsyncBackend:
        return self._backend

    async def serve(self, handler: Callable[[MemStreamTransport], Coroutine[Any, Any, None]], task_group: TaskGroup | None = None) -> NoReturn:
        if self._serving:
            raise _utils.error_from_errno(_errno.EBUSY)
        self._serving = True
        try:
            if task_group is None:
                async with self._backend.create_task_group() as tg:
                    await self._serve(handler, tg)
            else:
                await self._serve(handler, task_group)
        finally:
            self._serving = False
        raise AssertionError("unreachable")

    async def _serve(self, handler: Callable[[MemStreamTransport], Coroutine[Any, Any, None]], task_group: TaskGroup) -> NoReturn:
        while True:
            while not self._queue:
                if self.closed:
                    raise _utils.error_from_errno(_errno.EBADF)
                self._accept_waiter = asyncio.get_running_loop().create_future()
                try:
                    await self._accept_waiter
                finally:
                    self._accept_waiter = None
            if self.closed:
                raise _utils.error_from_errno(_errno.EBADF)
            stream = self._queue.popleft()
            self.accepted.append(stream)  # type: ignore[arg-type]
            task_group.start_soon(handler, stream)  # type: ignore[arg-type]

    @property
    def extra_attributes(self) -> Mapping[Any, Callable[[], Any]]:
        return self._extra


class MemDatagramTransport(_Scripted, AsyncDatagramTransport):
    def __init__(
        self,
        backend: AsyncBackend,
        *,
        script: Mapping[str, Any] | None = None,
        sockname: tuple = ("127.0.0.1", 6000),
        peername: tuple | None = ("127.0.0.1", 6001),
    ) -> None:
        super().__init__()
        self._init_script(script)
        self._backend = backend
        self.inbox: deque[bytes | BaseException] = deque()
        self._recv_waiter: asyncio.Future[None] | None = None
        self.sent: list[bytes] = []
        self.closed = False
        self.aclose_calls = 0
        self.stub = StubSocket(sockname, peername, type=_socket.SOCK_DGRAM)
        self._extra = MappingProxyType(socket_tools._get_socket_extra(self.stub, wrap_in_proxy=False))  # type: ignore[arg-type]
        # flow control like the asyncio datagram transport: a sender waits (after its datagram was queued) while the
        # transport is not writable
        self.writable = True
        self._write_waiters: list[asyncio.Future[None]] = []

    def set_writable(self, flag: bool) -> None:
        self.writable = flag
        if flag:
            waiters, self._write_waiters = self._write_waiters, []
            for w in waiters:
                if not w.done():
                    w.set_result(None)

    @property
    def pending_senders(self) -> int:
        return sum(1 for w in self._write_waiters if not w.done())

    def feed(self, datagram: bytes | BaseException) -> None:
        self.inbox.append(datagram)
        w = self._recv_waiter
        if w is not None and not w.done():
            w.set_result(None)

    async def aclose(self) -> None:
        self.aclose_calls += 1
        self.closed = True
        self.stub.closed = True
        w = self._recv_waiter
        if w is not None and not w.done():
            w.set_result(None)
        waiters, self._write_waiters = self._write_waiters, []
        for ww in waiters:
            if not ww.done():
                ww.set_exception(make_error("ConnectionAbortedError"))
        self._enter("aclose")
        await _yields(int(self.script.get("aclose_yields", 0)))

    def is_closing(self) -> bool:
        return self.closed

    def backend(self) -> AsyncBackend:
        return self._backend

    async def recv(self) -> bytes:
        self._enter("recv")
        if self._recv_waiter is not None:
            raise RuntimeError("recv() called while another coroutine is already waiting")
        while True:
            if self.closed:
                raise _utils.error_from_errno(_errno.ECONNABORTED)
            if self.inbox:
                item = self.inbox.popleft()
                if isinstance(item, BaseException):
                    raise item
                return item
            self._recv_waiter = asyncio.get_running_loop().create_future()
            try:
                await self._recv_waiter
            finally:
                self._recv_waiter = None

    async def send(self, data: Any) -> None:
        n = self._enter("send")
        if self.closed:
            raise _utils.error_from_errno(_errno.ECONNABORTED)
        self.sent.append(bytes(data))
        await _yields(self._cyc("send_yield", n, 0))
        while not self.writable:
            w = asyncio.get_running_loop().create_future()
            self._write_waiters.append(w)
            try:
                await w
            finally:
                if w in self._write_waiters:
                    self._write_waiters.remove(w)

    @property
    def extra_attributes(self) -> Mapping[Any, Callable[[], Any]]:
        return self._extra


class MemDatagramListener(_Scripted, AsyncDatagramListener[tuple]):
    """mirrors DatagramListenerProtocol: datagrams received before serve() are queued; each datagram starts one
    task in the task group, in arrival order."""

    def __init__(self, backend: AsyncBackend, *, sockname: tuple = ("127.0.0.1", 7000), script: Mapping[str, Any] | None = None) -> None:
        super().__init__()
        self._init_script(script)
        self._backend = backend
        self.closed = False
        self.aclose_calls = 0
        self._ctx: tuple[Callable[[bytes, tuple], Coroutine[Any, Any, None]], TaskGroup] | None = None
        self._delayed: deque[tuple[bytes, tuple]] = deque()
        self._serve_fut: asyncio.Future[None] | None = None
        self.sent: list[tuple[bytes, tuple]] = []
        self.stub = StubSocket(sockname, None, type=_socket.SOCK_DGRAM)
        self._extra = MappingProxyType(socket_tools._get_socket_extra(self.stub, wrap_in_proxy=False))  # type: ignore[arg-type]

    def deliver(self, data: bytes, addr: tuple) -> None:
        if self.closed:
            return
        if self._ctx is None:
            self._delayed.append((data, addr))
        else:
            handler, tg = self._ctx
            tg.start_soon(handler, data, addr)

    async def aclose(self) -> None:
        self.aclose_calls += 1
        self.closed = True
        self.stub.closed = True
        if self._serve_fut is not None and not self._serve_fut.done():
            self._serve_fut.cancel(msg="connection_lost()")
        self._enter("aclose")
        await _yields(int(self.script.get("aclose_yields", 1)))

    def is_closing(self) -> bool:
        return self.closed

    def backend(self) -> AsyncBackend:
        return self._backend

    async def serve(self, handler: Callable[[bytes, tuple], Coroutine[Any, Any, None]], task_group: TaskGroup | None = None) -> NoReturn:
        if self._ctx is not None:
            raise RuntimeError("serve() awaited twice")
        if task_group is None:
            async with self._backend.create_task_group() as tg:
                await self._serve(handler, tg)
        else:
            await self._serve(handler, task_group)
        raise AssertionError("unreachable")

    async def _serve(self, handler: Callable[[bytes, tuple], Coroutine[Any, Any, None]], task_group: TaskGroup) -> None:
        self._ctx = (handler, task_group)
        self._serve_fut = asyncio.get_running_loop().create_future()
        try:
            while self._delayed:
                data, addr = self._delayed.popleft()
                task_group.start_soon(handler, data, addr)
            await asyncio.shield(self._serve_fut)
        finally:
            self._ctx = None

    async def send_to(self, data: Any, address: tuple) -> None:
        n = self._enter("send_to")
        if self.closed:
            raise _utils.error_from_errno(_errno.ECONNABORTED)
        self.sent.append((bytes(data), address))
        await _yields(self._cyc("send_yield", n, 0))

    @property
    def extra_attributes(self) -> Mapping[Any, Callable[[], Any]]:
        return self._extra


class VerifBackend(AsyncIOBackend):
    """The real asyncio backend, except that listeners/connections are in-memory objects provided by the harness."""

    __slots__ = ("tcp_listeners", "udp_listeners", "connect_transports", "connect_dgram_transports", "listener_factory_hook", "created", "connect_gate")

    def __init__(self) -> None:
        super().__init__()
        self.tcp_listeners: list[MemListener] = []
        self.udp_listeners: list[MemDatagramListener] = []
        self.connect_transports: deque[MemStreamTransport] = deque()
        self.connect_dgram_transports: deque[MemDatagramTransport] = deque()
        self.listener_factory_hook: Callable[[], Coroutine[Any, Any, None]] | None = None
        self.created: list[Any] = []
        self.connect_gate: asyncio.Event | None = None  # when set: create_tcp_connection() waits for it (a slow connect)

    async def create_tcp_listeners(self, host: Any, port: int, backlog: int, *, reuse_port: bool = False) -> Any:
        if self.listener_factory_hook is not None:
            await self.listener_factory_hook()
        lst = MemListener(self, sockname=("127.0.0.1", port or 5000))
        self.tcp_listeners.append(lst)
        self.created.append(lst)
        return [lst]

    async def create_udp_listeners(self, host: Any, port: int, *, reuse_port: bool = False) -> Any:
        if self.listener_factory_hook is not None:
            await self.listener_factory_hook()
        lst = MemDatagramListener(self, sockname=("127.0.0.1", port or 7000))
        self.udp_listeners.append(lst)
        self.created.append(lst)
        return [lst]

    async def create_udp_endpoint(self, remote_host: str, remote_port: int, *, local_address: Any = None, family: int = 0) -> Any:
        await asyncio.sleep(0)
        if not self.connect_dgram_transports:
            raise ConnectionRefusedError(_errno.ECONNREFUSED, "no in-memory datagram transport prepared")
        return self.connect_dgram_transports.popleft()

    async def create_tcp_connection(self, host: str, port: int, *, local_address: Any = None, happy_eyeballs_delay: Any = None) -> Any:
        await asyncio.sleep(0)
        if self.connect_gate is not None:
            await self.connect_gate.wait()
        if not self.connect_transports:
            raise ConnectionRefusedError(_errno.ECONNREFUSED, "no in-memory transport prepared")
        return self.connect_transports.popleft()
