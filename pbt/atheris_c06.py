"""Coverage-guided secondary engine for C06 (thorough tier): one libFuzzer/atheris run over one serializer spec.

Run as a subprocess by pbt.checks.c06 (libFuzzer ends the process with os._exit, so it can never share a process with
the runner):

    python -m pbt.atheris_c06 --spec '<json>' --runs N --seed S --max-len L --out DIR [--valid-corpus]

The fuzz target applies exactly the oracle of the Hypothesis layers (c06.run_oneshot / c06.run_stream).  The first
input byte selects the chunk stride / fill size, the rest is the network input.  On a violation the input is written to
DIR/violation.json before the exception is re-raised (libFuzzer then also writes DIR/crash-*).  DIR/stats.json is
rewritten every 2000 executions (executions, inputs skipped because of an EXCLUDE_* flag, rejected inputs).
"""

from __future__ import annotations

import argparse
import json
import os
import sys


def main() -> int:
    ap = argparse.ArgumentParser()
    ap.add_argument("--spec", required=True)
    ap.add_argument("--runs", type=int, required=True)
    ap.add_argument("--seed", type=int, default=1)
    ap.add_argument("--max-len", type=int, default=4096)
    ap.add_argument("--out", required=True)
    ap.add_argument("--valid-corpus", action="store_true")
    args = ap.parse_args()

    import atheris

    with atheris.instrument_imports(include=["easynetwork"]):
        import easynetwork  # noqa: F401

        from pbt import core, mutate, zoo
        from pbt.checks import c06

    if not os.path.realpath(easynetwork.__file__).startswith(core.REPO_SRC + "/"):
        print(f"HARNESS-ERROR easynetwork imported from {easynetwork.__file__}", flush=True)
        return 2

    spec = core.from_jsonable(json.loads(args.spec))
    oneshot_only = not zoo.build(spec).incremental
    has_json = "json" in mutate.leaf_kinds(spec)
    scan_pickle = mutate.scans_as_pickle(spec)
    stats = {"execs": 0, "skipped_excluded": 0, "rejected": 0}
    os.makedirs(args.out, exist_ok=True)

    def flush_stats() -> None:
        tmp = os.path.join(args.out, "stats.json.tmp")
        with open(tmp, "w") as f:
            json.dump(stats, f)
        os.replace(tmp, os.path.join(args.out, "stats.json"))

    def make_cases(data: bytes) -> list[tuple[str, dict]]:
        stride = data[0] if data else 0
        body = data[1:]
        base = {"spec": spec, "src": "atheris", "pre": b"", "parts": [[body, 1]], "wrap": False, "post": b""}
        cases: list[tuple[str, dict]] = [("oneshot", dict(base, layer="oneshot"))]
        if not oneshot_only:
            n = len(body)
            cuts = list(range(stride, n, stride)) if stride else []
            cases.append(("stream", dict(base, cuts=cuts, fills=[stride or (1 << 20)], sizehint=max(1, stride), layer="stream")))
        return cases

    def one_input(data: bytes) -> None:
        stats["execs"] += 1
        if stats["execs"] % 2000 == 0:
            flush_stats()
        body = data[1:]
        if has_json and (
            (c06.EXCLUDE_D3 and mutate.naive_depth(body) > c06.D3_SAFE_DEPTH) or (c06.EXCLUDE_D3B and mutate.max_digit_run(body) > c06.D3B_SAFE_DIGITS)
        ):
            stats["skipped_excluded"] += 1
            return
        if scan_pickle and mutate.pickle_put_index_max(body) > mutate.PICKLE_MEMO_INDEX_MAX:
            stats["skipped_excluded"] += 1
            return
        for layer, case in make_cases(data):
            try:
                out = c06.run_oneshot(case) if layer == "oneshot" else c06.run_stream(case)
            except core.Violation as v:
                flush_stats()
                with open(os.path.join(args.out, "violation.json"), "w") as f:
                    json.dump({"layer": layer, "case": core.to_jsonable(case), "kind": v.kind, "message": v.message}, f)
                raise
            if out.nontrivial:
                stats["rejected"] += 1

    corpus_dir = os.path.join(args.out, "corpus")
    os.makedirs(corpus_dir, exist_ok=True)
    if args.valid_corpus:
        # a small corpus of valid streams, generated here (separate process: no nested Hypothesis run)
        from hypothesis import Phase, given, seed, settings
        from hypothesis import strategies as st

        entry = zoo.build(spec)
        found: list[bytes] = []

        @seed(args.seed)
        @settings(max_examples=12, database=None, deadline=None, phases=[Phase.generate])
        @given(st.lists(zoo.st_packet(spec), min_size=1, max_size=3))
        def collect(pk: list) -> None:
            if oneshot_only:
                found.append(entry.serializer.serialize(entry.to_dto(pk[0])))
            else:
                found.append(b"".join(b"".join(entry.frame(p)) for p in pk))

        collect()
        for i, stream in enumerate(found):
            for stride in (0, 1, 7):
                with open(os.path.join(corpus_dir, f"valid-{i}-{stride}"), "wb") as f:
                    f.write(bytes([stride]) + stream)

    argv = [
        sys.argv[0],
        f"-runs={args.runs}",
        f"-seed={args.seed}",
        f"-max_len={args.max_len}",
        "-timeout=30",
        "-rss_limit_mb=4096",
        f"-artifact_prefix={args.out}/",
        "-print_final_stats=1",
        "-verbosity=0",
        corpus_dir,
    ]
    atheris.Setup(argv, one_input)
    flush_stats()
    atheris.Fuzz()
    return 0


if __name__ == "__main__":
    sys.exit(main())
