"""Receive loops with a per-read trace (additive companion of pbt/drivers.py, used by C02's D1 probe and by C07).

Same call sequences as drivers.drive_a / drivers.drive_b (i.e. as `_DataReceiverImpl` / `_BufferedReceiverImpl`):
feed one read, then drain with next(None) until StopIteration.  Each read yields one :class:`Step` holding the number
of bytes fed, the outputs delivered after that read, and (buffered path) how full the receive buffer was.
"""

from __future__ import annotations

import dataclasses
from typing import Any

from easynetwork.exceptions import StreamProtocolParseError
from easynetwork.lowlevel._stream import BufferedStreamDataConsumer, StreamDataConsumer

from .core import HarnessError, Violation


@dataclasses.dataclass
class Step:
    n: int  # bytes fed by this read
    outs: list  # output records delivered after this read: ("pkt", v) | ("err", cls, remaining_len)
    filled: int = -1  # buffered path: bytes in the receive buffer right after this read (before parsing)
    bufsize: int = -1  # buffered path: consumer.buffer_size at that moment


def _record(exc: StreamProtocolParseError) -> tuple:
    return ("err", type(exc.error).__name__, len(bytes(exc.remaining_data)))


def _pump(consumer: Any, arg: Any, outs: list) -> bool:
    try:
        pkt = consumer.next(arg)
    except StopIteration:
        return False
    except StreamProtocolParseError as exc:
        outs.append(_record(exc))
        return True
    outs.append(("pkt", pkt))
    return True


def trace_a(protocol: Any, chunks: list[bytes]) -> tuple[list[Step], bytes]:
    consumer = StreamDataConsumer(protocol)
    steps: list[Step] = []
    total = 0
    budget = sum(len(c) for c in chunks) + len(chunks) + 8
    for chunk in chunks:
        if not chunk:
            continue
        outs: list = []
        _pump(consumer, chunk, outs)
        while _pump(consumer, None, outs):
            if total + len(outs) > budget:
                raise Violation("no-progress", "more outputs than input bytes (copying path)", outputs=total + len(outs))
        total += len(outs)
        steps.append(Step(len(chunk), outs))
    leftover = bytes(consumer.get_buffer())
    consumer.clear()
    return steps, leftover


def trace_b(protocol: Any, stream: bytes, fills: list[int], sizehint: int) -> tuple[list[Step], int | None]:
    """returns (steps, number of re-injected leftover bytes or None if unknown)"""
    if not fills:
        raise HarnessError("empty fills")
    consumer = BufferedStreamDataConsumer(protocol, sizehint)
    steps: list[Step] = []
    pos = 0
    i = 0
    total = 0
    budget = len(stream) * 2 + 8
    while pos < len(stream):
        try:
            wbuf = consumer.get_write_buffer()
        except RuntimeError as exc:
            raise Violation(
                "write-buffer-exhausted",
                f"get_write_buffer() failed after {pos} bytes: {exc}",
                fed=pos,
                buffer_size=consumer.buffer_size,
            ) from exc
        with memoryview(wbuf) as buf:
            avail = buf.nbytes
            if avail <= 0:
                raise Violation("zero-buffer", "get_write_buffer() returned an empty buffer")
            n = min(max(1, fills[i % len(fills)]), avail, len(stream) - pos)
            buf[:n] = stream[pos : pos + n]
        i += 1
        pos += n
        bufsize = consumer.buffer_size
        outs: list = []
        _pump(consumer, n, outs)
        while _pump(consumer, None, outs):
            if total + len(outs) > budget:
                raise Violation("no-progress", "more outputs than input bytes (buffered path)", outputs=total + len(outs))
        total += len(outs)
        steps.append(Step(n, outs, filled=bufsize - avail + n, bufsize=bufsize))
    nleft = getattr(consumer, "_BufferedStreamDataConsumer__already_written", None)
    consumer.clear()
    return steps, nleft


def outputs_of(steps: list[Step]) -> list[tuple]:
    return [o for s in steps for o in s.outs]
